"""Generator of lattice-file *programs* (ASTs of the Elegant / Bmad subset that cheetah imports), renderer to
.lte / .bmad text in a random *style*, printer of the AST as a Coq term of Parse/LatticeLang.v, and generator
of NX-table layouts.  Everything is JSON-able; all randomness comes from the rng handed in.

AST (lists, so that it survives JSON):
  expr : ["num", text] | ["str", text, quoted] | ["var", n] | ["attr", obj, prop] | ["neg", a] | ["add"|"sub"|"mul"|"div", a, b]
         | ["pow", a, k] | ["sqrt", a] | ["abs", a]
         | ["rpn", ["add"|"sub"|"mul"|"div", a, b]]   only as a whole property / variable value: the SAME tree, written in reverse
           Polish notation `A B op` (what cheetah's rpn.py accepts: three blank-separated tokens, the operands blank-free infix)
  stmt : ["var", n, e] | ["def", n, parent_or_type, [[prop, e], ...]] | ["prop", ["name", n] | ["wild", ty, pat], prop, e]
         | ["line", n, [items]] | ["use", n]
"""
import math

from common import coq_list, coq_string

KEYWORDS = ["open", "electron", "t", "f", "traveling_wave", "full"]
CONSTS = ["pi", "twopi", "c_light", "emass", "m_electron", "raddeg"]

# ---------------------------------------------------------------------------------------------- language tables
# type -> (required numeric, optional numeric, ignored numeric, ignored string)     [what the converters understand]
ELEGANT = {
    "sole": (["l"], [], [], ["group"]),
    "hkick": ([], ["l", "kick"], [], ["group"]),
    "hkic": ([], ["l", "kick"], [], ["group"]),
    "vkick": ([], ["l", "kick"], [], ["group"]),
    "vkic": ([], ["l", "kick"], [], ["group"]),
    "mark": ([], [], [], ["group"]),
    "kick": ([], ["l"], [], ["group"]),
    "drift": ([], ["l"], [], ["group"]),
    "drif": ([], ["l"], [], ["group"]),
    "csrdrift": ([], ["l"], ["use_stupakov", "n_kicks", "csr"], ["group"]),
    "csrdrif": ([], ["l"], ["use_stupakov", "n_kicks", "csr"], ["group"]),
    "lscdrift": ([], ["l"], ["interpolate", "smoothing", "bins", "high_frequency_cutoff0", "high_frequency_cutoff1", "lsc"], ["group"]),
    "lscdrif": ([], ["l"], ["interpolate", "smoothing", "bins", "lsc"], ["group"]),
    "ecol": ([], ["l", "x_max", "y_max"], [], []),
    "rcol": ([], ["l", "x_max", "y_max"], [], []),
    "quad": (["l", "k1"], ["tilt"], [], ["group"]),
    "sext": (["l"], [], ["k2", "tilt"], ["group"]),
    "moni": ([], ["l"], [], ["group"]),
    "ematrix": (["l"], ["order", "c1", "c2", "c4", "c6", "r11", "r12", "r21", "r22", "r33", "r34", "r43", "r44", "r55", "r56", "r66", "r16", "r61"], [], ["group"]),
    "rfca": (["l", "phase", "volt", "freq"], [], ["change_p0", "end1_focus", "end2_focus"], ["body_focus_model", "group"]),
    "rfcw": (["l", "phase", "volt", "freq"], [], ["change_p0", "end1_focus", "cell_length", "n_kicks", "zwake", "lsc_bins", "smoothing"], ["zwakefile", "tcolumn", "group"]),
    "rfdf": (["l", "phase", "voltage", "frequency"], [], [], ["group"]),
    "sben": (["l"], ["angle", "k1", "e1", "e2", "tilt"], [], ["group"]),
    "rben": (["l"], ["angle", "e1", "e2", "tilt"], [], ["group"]),
    "csrcsben": (["l"], ["angle", "e1", "e2", "tilt"], ["edge1_effects", "hgap", "fint", "sg_halfwidth", "sg_order", "steady_state", "bins", "n_kicks", "integration_order", "isr", "csr"], ["group"]),
    "watch": ([], [], [], ["filename", "group"]),
    "charge": ([], [], ["total"], []),
    "wake": ([], [], ["factor"], ["inputfile"]),
    "maxamp": ([], ["l"], ["x_max"], []),          # not known to the converter: Drift
    "scraper": ([], ["l"], ["position"], []),      # not known to the converter: Drift
}
BMAD = {
    "marker": ([], [], [], ["alias", "type"]),
    "monitor": ([], ["l"], [], ["alias", "type"]),
    "instrument": ([], ["l"], [], ["alias", "type"]),
    "pipe": (["l"], [], [], ["alias", "type", "descrip"]),
    "drift": (["l"], [], [], ["type", "descrip"]),
    "hkicker": ([], [], [], ["type", "alias"]),
    "vkicker": ([], [], [], ["type", "alias"]),
    "sbend": (["l", "e1"], ["hgap", "angle", "e2", "fint", "fintx", "ref_tilt"], ["g", "dg"], ["alias", "type", "fringe_type"]),
    "quadrupole": (["l", "k1"], ["tilt"], ["aperture"], ["type", "alias"]),
    "solenoid": (["l", "ks"], [], [], ["alias"]),
    "lcavity": (["l", "rf_frequency"], ["voltage", "phi0"], [], ["type", "cavity_type", "alias"]),
    "rcollimator": ([], ["l", "x_limit", "y_limit"], [], ["alias", "type"]),
    "ecollimator": ([], ["l", "x_limit", "y_limit"], [], ["alias", "type"]),
    "wiggler": (["l"], [], ["l_period", "n_period", "b_max", "tilt", "ds_step"], ["type", "alias"]),
    "patch": ([], [], ["tilt"], []),
    "sextupole": ([], ["l"], ["k2"], ["type"]),      # not known to the converter: Drift
    "kicker": ([], ["l"], ["hkick", "vkick"], []),   # not known to the converter: Drift
}
TABLES = {"elegant": ELEGANT, "bmad": BMAD}

# Repairs of the importer that the generator follows (set by props/c13.py from the status of the findings in known_findings.json
# and a probe of the code): False = the code as it was (the generator stays out of the defect's region, as before the repair),
# True = repaired (the generator EXERCISES the repaired behaviour and the Coq model is the repaired transcription).
FIX_KEYS = ["F18a", "F18b", "F40", "F41", "F42", "F43"]
REPAIRED = {k: False for k in FIX_KEYS}
STYLE_COUNTS = {}


def set_repaired(state):
    for k in FIX_KEYS:
        REPAIRED[k] = bool(state.get(k, False))


def _style_count(key):
    STYLE_COUNTS[key] = STYLE_COUNTS.get(key, 0) + 1


def tables(flavour):
    """The language table of a flavour under the current repairs."""
    if flavour != "bmad":
        return ELEGANT
    t = dict(BMAD)
    if REPAIRED["F18b"]:                      # hkicker / vkicker understand their own l and kick
        t["hkicker"] = ([], ["l", "kick"], [], ["type", "alias"])
        t["vkicker"] = ([], ["l", "kick"], [], ["type", "alias"])
    req, opt, ign, sig = t["sbend"]
    if REPAIRED["F43"]:                       # e1 is optional (default 0)
        req, opt = [p for p in req if p != "e1"], opt + ["e1"]
    if REPAIRED["F18a"]:                      # g is a strength (angle = g * l when no angle is given), no longer an ignored number
        opt, ign = opt + ["g"], [p for p in ign if p != "g"]
    t["sbend"] = (req, opt, ign, sig)
    return t
RESERVED = set(KEYWORDS + CONSTS + ["sqrt", "asin", "sin", "cos", "abs", "abs_func", "line", "use", "call", "overlay", "inf", "nan",
                                    "infinity", "__use__"]) | set(ELEGANT) | set(BMAD)


# ---------------------------------------------------------------------------------------------- expressions
def num_text(rng, kind="any"):
    """A non-negative numeric literal as text (int or float spelling)."""
    c = rng.random()
    if kind == "int" or (kind == "any" and c < 0.25):
        return str(rng.choice([0, 1, 2, 3, 5, 7, 10, 12, 25, 100, 360]) if rng.random() < 0.7 else rng.randrange(0, 1000))
    x = rng.choice([rng.uniform(0, 1), rng.uniform(0, 10), rng.uniform(0, 100), 10 ** rng.uniform(-3, 2)])
    x = float("%.*g" % (rng.randrange(1, 8), x))
    style = rng.random()
    if style < 0.55:
        t = repr(x)
    elif style < 0.75:
        t = "%.*e" % (rng.randrange(1, 7), x)
        x = float(t)
    elif style < 0.85:
        t = repr(x)
        if t.startswith("0.") and len(t) > 2:
            t = t[1:]                      # .25
    else:
        t = ("%de%d" % (rng.randrange(1, 50), rng.randrange(-4, 4)))
    float(t)
    return t


def gen_nonzero(rng, env):
    """An expression that is certainly non-zero and finite."""
    c = rng.random()
    if c < 0.5:
        t = num_text(rng)
        while float(t) == 0.0:
            t = num_text(rng)
        return ["num", t]
    if c < 0.7:
        return ["var", rng.choice(["pi", "twopi", "raddeg"])]
    if c < 0.85:
        return ["add", ["abs", gen_expr(rng, env, 1)], ["num", str(rng.randrange(1, 9))]]
    return ["sqrt", gen_nonzero(rng, env) if rng.random() < 0.5 else ["num", str(rng.randrange(1, 50))]]


def gen_expr(rng, env, depth):
    """env = {"vars": [names], "attrs": [(obj, prop)]}: what may be read at this point of the program."""
    c = rng.random()
    if depth <= 0 or c < 0.25:
        a = rng.random()
        if a < 0.55 or (not env["vars"] and not env["attrs"]):
            return ["num", num_text(rng)]
        if a < 0.7:
            return ["var", rng.choice(["pi", "twopi", "raddeg", "emass"] if rng.random() < 0.9 else ["c_light", "m_electron"])]
        if a < 0.87 and env["vars"]:
            return ["var", rng.choice(env["vars"])]
        if env["attrs"]:
            o, p = rng.choice(env["attrs"])
            return ["attr", o, p]
        return ["num", num_text(rng)]
    if c < 0.33:
        return ["neg", gen_expr(rng, env, depth - 1)]
    if c < 0.5:
        return [rng.choice(["add", "sub"]), gen_expr(rng, env, depth - 1), gen_expr(rng, env, depth - 1)]
    if c < 0.66:
        return ["mul", gen_expr(rng, env, depth - 1), gen_expr(rng, env, depth - 1)]
    if c < 0.8:
        return ["div", gen_expr(rng, env, depth - 1), gen_nonzero(rng, env)]
    if c < 0.9:
        k = rng.choice([2, 2, 3, 0, 1, -1, -2])
        base = gen_nonzero(rng, env) if k < 0 else gen_expr(rng, env, depth - 1)
        return ["pow", base, k]
    if c < 0.95:
        return ["sqrt", rng.choice([["abs", gen_expr(rng, env, depth - 1)], ["pow", gen_expr(rng, env, depth - 1), 2], ["num", num_text(rng)]])]
    return ["abs", gen_expr(rng, env, depth - 1)]


LEVEL = {"add": 1, "sub": 1, "mul": 2, "div": 2, "neg": 3, "pow": 4}


def level(e):
    return LEVEL.get(e[0], 5)


RPN_BLANK = "\x00"      # a blank that is part of the syntax (between the tokens of an RPN expression): render_program never cuts a
#                        line in front of it, never pads it, and writes it as one " " at the very end
RPN_OPEN, RPN_CLOSE = "\x01", "\x02"   # brackets of an RPN expression in the intermediate text (removed at the end): white space inside is
#                                       syntax, so a line cut in there gets the bare mark `&`
RPN_OPS = {"add": "+", "sub": "-", "mul": "*", "div": "/"}


def rpn_plain(t):
    return t.replace(RPN_BLANK, " ").replace(RPN_OPEN, "").replace(RPN_CLOSE, "")


def render_rpn(e):
    """`A B op` for a binary node: the operands are blank-free infix texts, parenthesised so that python's reading of `A op B`
    (what rpn.eval_expression evaluates) is the tree."""
    lv = LEVEL[e[0]]
    return RPN_OPEN + render_expr(e[1], None, lv) + RPN_BLANK + render_expr(e[2], None, lv + 1) + RPN_BLANK + RPN_OPS[e[0]] + RPN_CLOSE


def render_expr(e, rng=None, need=0):
    """Infix text with the usual precedences ( ^ over unary minus over * / over + - ; left associative )."""
    sp = (lambda: rng.choice(["", "", " "])) if rng else (lambda: "")
    k = e[0]
    if k == "rpn":
        assert need == 0, "an RPN expression is a whole value"
        _style_count("style_rpn_expression_" + e[1][0])
        return render_rpn(e[1])
    if k == "num":
        s = e[1]
    elif k == "str":
        s = '"%s"' % e[1] if e[2] else e[1]
    elif k == "var":
        s = e[1]
    elif k == "attr":
        s = "%s[%s]" % (e[1], e[2])
    elif k == "neg":
        s = "-" + render_expr(e[1], rng, 3)
    elif k in ("add", "sub"):
        s = render_expr(e[1], rng, 1) + sp() + ("+" if k == "add" else "-") + sp() + render_expr(e[2], rng, 2)
    elif k in ("mul", "div"):
        s = render_expr(e[1], rng, 2) + sp() + ("*" if k == "mul" else "/") + sp() + render_expr(e[2], rng, 3)
    elif k == "pow":
        s = render_expr(e[1], rng, 5) + "^" + str(e[2])
    elif k == "sqrt":
        s = "sqrt(" + render_expr(e[1], rng, 0) + ")"
    elif k == "abs":
        s = "abs(" + render_expr(e[1], rng, 0) + ")"
    else:
        raise ValueError(e)
    if level(e) < need or (rng and k not in ("num", "str", "var", "attr") and rng.random() < 0.08):
        s = "(" + sp() + s + sp() + ")"
    return s


def flit(x):
    x = float(x)
    if math.isnan(x):
        return "nan"
    if math.isinf(x):
        return "infinity" if x > 0 else "neg_infinity"
    h = x.hex()
    return "(-%s)%%float" % h[1:] if h.startswith("-") else "(%s)%%float" % h


def num_value(text):
    try:
        return float(int(text))
    except ValueError:
        return float(text)


def coq_expr(e):
    k = e[0]
    if k == "rpn":                       # the same tree: only the spelling differs
        return coq_expr(e[1])
    if k == "num":
        return "(ENum %s)" % flit(num_value(e[1]))
    if k == "str":
        return "(EStr %s)" % coq_string(e[1].lower())
    if k == "var":
        return "(EVar %s)" % coq_string(e[1])
    if k == "attr":
        return "(EAttr %s %s)" % (coq_string(e[1]), coq_string(e[2]))
    if k == "neg":
        return "(ENeg %s)" % coq_expr(e[1])
    if k in ("add", "sub", "mul", "div"):
        return "(E%s %s %s)" % (k.capitalize(), coq_expr(e[1]), coq_expr(e[2]))
    if k == "pow":
        return "(EPow %s (%d)%%Z)" % (coq_expr(e[1]), e[2])
    if k == "sqrt":
        return "(ESqrt %s)" % coq_expr(e[1])
    if k == "abs":
        return "(EAbs %s)" % coq_expr(e[1])
    raise ValueError(e)


def coq_stmt(s):
    k = s[0]
    if k == "var":
        return "SVar %s %s" % (coq_string(s[1]), coq_expr(s[2]))
    if k == "def":
        return "SDef %s %s %s" % (coq_string(s[1]), coq_string(s[2]), coq_list(["(%s, %s)" % (coq_string(p), coq_expr(e)) for p, e in s[3]]))
    if k == "prop":
        t = s[1]
        tt = "(TName %s)" % coq_string(t[1]) if t[0] == "name" else "(TWild %s %s)" % (coq_string(t[1]), coq_string(t[2]))
        return "SAssign %s %s %s" % (tt, coq_string(s[2]), coq_expr(s[3]))
    if k == "line":
        return "SLine %s %s" % (coq_string(s[1]), coq_list([coq_string(i) for i in s[2]]))
    if k == "use":
        return "SUse %s" % coq_string(s[1])
    raise ValueError(s)


def coq_program(prog):
    return coq_list([coq_stmt(s) for s in prog])


# ---------------------------------------------------------------------------------------------- statements -> text
def render_stmt(s, rng=None):
    sp = (lambda: rng.choice(["", " ", " ", "  ", "\t"])) if rng else (lambda: " ")
    k = s[0]
    if k == "var":
        return s[1] + sp() + "=" + sp() + render_expr(s[2], rng)
    if k == "def":
        t = s[1] + sp() + ":" + sp() + s[2]
        for n, (p, e) in enumerate(s[3]):
            # no white space between the type and the first comma while define_element's regex rejects it (finding F40)
            lead = sp() if (n > 0 or REPAIRED["F40"]) else ""
            if n == 0 and lead:
                _style_count("style_space_before_first_comma")
            t += lead + "," + sp() + p + sp() + "=" + sp() + render_expr(e, rng)
        return t
    if k == "prop":
        tgt = s[1][1] if s[1][0] == "name" else s[1][1] + "::" + s[1][2]
        return tgt + "[" + s[2] + "]" + sp() + "=" + sp() + render_expr(s[3], rng)
    if k == "line":
        return s[1] + sp() + ":" + sp() + "line" + sp() + "=" + sp() + "(" + sp() + (sp() + "," + sp()).join(s[2]) + sp() + ")"
    if k == "use":
        return "use" + sp() + "," + sp() + s[1]
    raise ValueError(s)


def recase(text, rng, mode):
    if mode == "lower":
        return text
    if mode == "upper":
        return text.upper()
    return "".join(c.upper() if rng.random() < 0.5 else c for c in text)


COMMENTS = ["", " comment", " a, b & c", " l = 3", "! use, other", " x: quad, l=1,"]


def render_program(prog, rng, style=None):
    """Text of the file.  style: dict(case, cont, comments, blanks) ; every choice is semantically neutral."""
    style = style or {}
    case = style.get("case", "mixed")
    p_cont = style.get("cont", 0.3)
    p_comment = style.get("comments", 0.2)
    p_blank = style.get("blanks", 0.15)
    out = []
    for si, s in enumerate(prog):
        if rng.random() < p_blank:
            out.append(rng.choice(["", "   ", "\t", "!" + rng.choice(COMMENTS), "  ! " + rng.choice(COMMENTS)]))
        text = recase(render_stmt(s, rng), rng, case if case != "per_stmt" else rng.choice(["lower", "upper", "mixed"]))
        pieces = [text]
        if REPAIRED["F41"] and si == len(prog) - 1 and s[0] == "def" and rng.random() < 0.6:
            # a continuation mark on the last lines of the file (finding F41, repaired): the last definition ends with a comma
            # (neutral for a definition: its property list is scanned by pattern) and is usually cut at one of its commas, so
            # that a visited line runs into the end of the file still ending with the delimiter
            text += (rng.choice(["", " "]) if (s[3] or REPAIRED["F40"]) else "") + ","
            pieces = [text]
            _style_count("style_trailing_comma_on_last_statement")
            cuts = [j + 1 for j, c in enumerate(text[:-1]) if c == ","]
            if cuts and rng.random() < 0.8:
                j = rng.choice(cuts)
                if text[:j].strip() and text[j:].strip():
                    pieces = [text[:j], text[j:]]
                    _style_count("style_trailing_continuation_over_last_lines")
        while rng.random() < p_cont and len(pieces) < 6:
            i = rng.randrange(len(pieces))
            t = pieces[i]
            if len(t) < 2:
                break
            commas = [j + 1 for j, c in enumerate(t[:-1]) if c == ","]
            if commas and rng.random() < 0.5:
                j = rng.choice(commas)                       # `,` continuation: the piece ends with the statement's own comma
                a, b = t[:j], t[j:]
                if not b.strip() or not a.strip():
                    continue
                pieces[i:i + 1] = [a, b]
            else:
                j = rng.randrange(1, len(t))                 # `&` continuation at an arbitrary position
                a, b = t[:j], t[j:]
                if not rpn_plain(b).strip() or not rpn_plain(a).strip():
                    continue
                if b[:1] == RPN_BLANK:
                    continue                                 # the blank would be stripped from the head of the next line
                if a.count(RPN_OPEN) > a.count(RPN_CLOSE):   # inside an RPN expression: no white space may be added
                    pieces[i:i + 1] = [a + RPN_CLOSE + "&", RPN_OPEN + b]
                    _style_count("style_line_cut_inside_rpn_expression")
                    continue
                # white space in front of the mark stays in the statement: only where white space is neutral
                # (white space in front of a comma -- the first one of a definition included -- is neutral once F40 is repaired)
                roomy = (a[-1:].isspace() or b[:1].isspace() or a[-1:] in ",=(" or b[:1] in "=)" or (REPAIRED["F40"] and b[:1] == ",")) and (
                    REPAIRED["F40"] or not (b.lstrip().startswith(",") and not a[-1:].isspace()))
                mark = rng.choice(["&", " &", "  &"]) if roomy else "&"
                pieces[i:i + 1] = [a + mark, b]
        for n, p in enumerate(pieces):
            line = rng.choice(["", "", " ", "\t", "   "]) + rpn_plain(p) + rng.choice(["", "", " ", "  "])
            if rng.random() < p_comment:
                line += rng.choice(["!", " !", "  ! "]) + rng.choice(COMMENTS)
            out.append(line)
            if n + 1 < len(pieces) and rng.random() < p_blank / 2:
                out.append(rng.choice(["", "  ", "! inside a statement", " !x"]))      # dropped before merging
    return "\n".join(out) + rng.choice(["\n", "", "\n\n", "\n! end\n"])


# ---------------------------------------------------------------------------------------------- program generator
def fresh_name(rng, used, dotted=False):
    while True:
        stem = rng.choice(["q", "qf", "qd", "d", "dr", "b", "bm", "c", "cav", "m", "mk", "s", "h", "v", "x", "e", "bpm_", "col", "u", "zz_", "el_a", "k"])
        n = stem + str(rng.randrange(1, 40)) + rng.choice(["", "", "", "a", "_b", "_2"])
        if dotted:
            n = n + "." + rng.choice(["1", "in", "x2"])
        if n not in used and n not in RESERVED:
            used.add(n)
            return n


def value_expr(rng, env, prop, depth):
    """An expression of plausible magnitude for a property."""
    if prop in ("volt", "voltage"):
        return ["mul", gen_expr(rng, env, depth - 1), ["num", rng.choice(["1e6", "1e5", "2.5e6"])]]
    if prop in ("freq", "frequency", "rf_frequency"):
        return rng.choice([["num", rng.choice(["1.3e9", "2.998e9", "1e9", "1300000000"])], ["mul", gen_nonzero(rng, env), ["num", "1e8"]]])
    if prop == "order":
        return ["num", rng.choice(["1", "1.0"])]
    if rng.random() < 0.05:
        return ["num", rng.choice(["0", "0.0", "0e0"])]       # an exact zero that is GIVEN is not the same as an absent property
    return gen_expr(rng, env, depth)


def string_expr(rng):
    if rng.random() < 0.25:
        return ["str", rng.choice(KEYWORDS), False]
    return ["str", rng.choice(["abc", "srs", "my quad", "a, b", "x_1", "file.sdds", "%s.w1", "k1 2"]), True]


def gen_props(rng, env, table, ty, depth, drop_required=False):
    req, opt, ign, sig = table[ty]
    ps = []
    for p in req:
        if not drop_required:
            ps.append([p, value_expr(rng, env, p, depth)])
    for p in opt:
        if rng.random() < 0.5:
            ps.append([p, value_expr(rng, env, p, depth)])
    for p in ign:
        if rng.random() < 0.2:
            ps.append([p, gen_expr(rng, env, 1)])
    for p in sig:
        if rng.random() < 0.2:
            ps.append([p, string_expr(rng)])
    rng.shuffle(ps)
    if ps and rng.random() < 0.06:
        p = rng.choice(ps)[0]
        if p in req + opt:
            ps.append([p, value_expr(rng, env, p, depth)])          # the same property twice: the later one wins
    return ps


def rpn_spell(rng, e, share):
    """With probability `share`, a value whose tree is a binary node is spelled in RPN (same tree)."""
    if e[0] in RPN_OPS and rng.random() < share:
        return ["rpn", e]
    return e


def spell_rpn_program(rng, prog, share):
    """Elegant programs: a share of the variable / property values whose tree is a binary node is written in reverse Polish
    notation (in place; the tree, hence the Coq term, is unchanged)."""
    for s in prog:
        if s[0] == "var":
            s[2] = rpn_spell(rng, s[2], share)
        elif s[0] == "def":
            for pe in s[3]:
                pe[1] = rpn_spell(rng, pe[1], share)
        elif s[0] == "prop":
            s[3] = rpn_spell(rng, s[3], share)


def gen_program(rng, flavour, size=8, depth=3, nest=5, deep=False, rpn=0.0):
    """A well-formed program: returns dict(flavour, root, prog).  Statement order is a valid execution order in which
    lines may precede the elements they contain (lines are resolved at conversion time) but parents / read attributes /
    variables precede their uses.
    deep: the lines form a chain root -> ... at least three levels deep (each new line contains the previous one, once or
    twice, among other members), so that sub-lines of sub-lines, repeated sub-lines and the element types that import as small
    Segments (moni with l, ecol, rcol, ecollimator, rcollimator) sit at depth >= 3.
    rpn: share of the binary-node values written in reverse Polish notation (Elegant)."""
    table = tables(flavour)
    used = set()
    env = {"vars": [], "attrs": []}
    prog = []
    elems = {}            # name -> root type
    numprops = {}         # name -> set of numeric props currently defined
    types = list(table)
    n_elems = rng.randrange(2, size + 2)

    def note_props(name, ty, ps, base=()):
        req, opt, ign, sig = table[ty]
        cur = set(base)
        for p, e in ps:
            if e[0] != "str":
                cur.add(p)
            else:
                cur.discard(p)
        numprops[name] = cur
        env["attrs"] = [(o, p) for o in numprops for p in sorted(numprops[o]) if "." not in o]

    for i in range(n_elems):
        c = rng.random()
        if c < 0.2:
            v = fresh_name(rng, used) if (not env["vars"] or rng.random() < 0.7) else rng.choice(env["vars"])
            prog.append(["var", v, gen_expr(rng, env, depth)])
            if v not in env["vars"]:
                env["vars"].append(v)
        names = [n for n in elems if "." not in n]
        c = rng.random()
        if c < 0.2 and names:
            parent = rng.choice(names)                               # inheritance (chains arise naturally)
            ty = elems[parent]
            name = fresh_name(rng, used)
            req, opt, ign, sig = table[ty]
            ps = [[p, value_expr(rng, env, p, depth)] for p in req + opt if rng.random() < 0.35]
            prog.append(["def", name, parent, ps])
            elems[name] = ty
            note_props(name, ty, ps, numprops[parent])
        elif c < 0.27 and names:
            name = rng.choice(names)                                 # redefinition from scratch: the later definition wins
            ty = rng.choice(types)
            ps = gen_props(rng, env, table, ty, depth)
            prog.append(["def", name, ty, ps])
            elems[name] = ty
            note_props(name, ty, ps)
        else:
            ty = rng.choice(types)
            name = fresh_name(rng, used, dotted=rng.random() < 0.05)
            ps = gen_props(rng, env, table, ty, depth)
            prog.append(["def", name, ty, ps])
            elems[name] = ty
            note_props(name, ty, ps)
        names = [n for n in elems if "." not in n]
        c = rng.random()
        if c < 0.25 and names:
            name = rng.choice(names)                                 # later property assignment
            req, opt, ign, sig = table[elems[name]]
            cand = req + opt
            if cand:
                p = rng.choice(cand)
                prog.append(["prop", ["name", name], p, value_expr(rng, env, p, depth)])
                numprops[name].add(p)
                env["attrs"] = [(o, q) for o in numprops for q in sorted(numprops[o]) if "." not in o]
        elif c < 0.33 and names:
            name = rng.choice(names)                                 # wildcard assignment over the names defined so far
            ty = elems[name]
            req, opt, ign, sig = table[ty]
            cand = req + opt
            if cand:
                p = rng.choice(cand)
                pat = rng.choice(["*", name[:1] + "*", name[:2] + "*", "*" + name[-1:], name[:1] + "*" + name[-1:], name])
                if "*" in pat:
                    if not pat.endswith("*") and rng.random() < 0.6:
                        # an element of the same type whose name EXTENDS a matching name (qf_a -> qf_ab): the wildcard must not reach it
                        # (a prefix match instead of a full match would)
                        ext = name + rng.choice(["b", "x", "2", "_1"])
                        if ext not in used and ext not in elems:
                            used.add(ext)
                            ps2 = gen_props(rng, env, table, ty, depth)
                            prog.append(["def", ext, ty, ps2])
                            elems[ext] = ty
                            note_props(ext, ty, ps2)
                    prog.append(["prop", ["wild", ty, pat], p, value_expr(rng, env, p, depth)])
                    import re as _re
                    rx = _re.compile(pat.replace("*", ".*"))
                    for o in elems:
                        if elems[o] == ty and rx.fullmatch(o):
                            numprops[o].add(p)
                    env["attrs"] = [(o, q) for o in numprops for q in sorted(numprops[o]) if "." not in o]
        if flavour == "bmad" and rng.random() < 0.08:
            prog.append(rng.choice([["prop", ["name", "parameter"], "geometry", ["str", "open", False]],
                                    ["prop", ["name", "parameter"], "particle", ["str", "electron", False]],
                                    ["prop", ["name", "beginning"], "beta_a", ["num", "10."]],
                                    ["prop", ["name", "beginning"], "e_tot", ["num", "10e6"]]]))

    # lines: a DAG of depth <= nest with repeated members; positions in the file are arbitrary
    elem_names = list(elems)
    lines = []
    n_lines = rng.randrange(1, nest + 2)
    levels = []
    if deep:
        n_lines = max(n_lines, rng.choice([3, 3, 4, 4, 5]))
        segty = [t for t in ("moni", "ecol", "rcol", "ecollimator", "rcollimator") if t in table]
        if not any(elems[n] in segty for n in elem_names) or rng.random() < 0.5:
            ty = rng.choice(segty)                                   # an element that imports as a small Segment (one more level)
            nm = fresh_name(rng, used)
            ps = [["l", gen_nonzero(rng, {"vars": [], "attrs": []})]] + ([[rng.choice(table[ty][1][1:]), ["num", num_text(rng)]]] if len(table[ty][1]) > 1 and rng.random() < 0.5 else [])
            prog.append(["def", nm, ty, ps])
            elems[nm] = ty
            elem_names.append(nm)
        seg_elems = [n for n in elem_names if elems[n] in segty]
    for k in range(n_lines):
        ln = fresh_name(rng, used)
        pool = list(elem_names)
        lower = [l for l, lv in levels]
        items = []
        for _ in range(rng.randrange(1, 7)):
            if deep and not levels and rng.random() < 0.3:
                items.append(rng.choice(seg_elems))                  # ... placed in the innermost line
            elif lower and rng.random() < (0.15 if deep else 0.4):
                items.append(rng.choice(lower))
            else:
                items.append(rng.choice(pool))
        if deep and levels:
            deepest = max(levels, key=lambda x: x[1])[0]
            for _ in range(rng.choice([1, 1, 2])):                   # the deepest line so far, once or twice, anywhere
                items.insert(rng.randrange(0, len(items) + 1), deepest)
        if items and rng.random() < 0.3:
            items.append(rng.choice(items))                          # repeated member
        lv = 1 + max([lvv for l, lvv in levels if l in items] or [0])
        if lv > nest:
            items = [i for i in items if i in elem_names] or [rng.choice(pool)]
            lv = 1
        levels.append((ln, lv))
        lines.append(["line", ln, items])
    root = levels[-1][0]
    for ln in lines:
        prog.insert(rng.randrange(0, len(prog) + 1), ln)            # a line may come before its members
    if rng.random() < 0.15:
        # a line defined twice: the later definition wins
        first = rng.choice(lines)
        idx = prog.index(first)
        prog.insert(rng.randrange(0, idx + 1), ["line", first[1], [rng.choice(elem_names) for _ in range(rng.randrange(1, 4))]])
    if flavour == "bmad":
        prog.insert(rng.randrange(0, len(prog) + 1), ["use", root])
        if rng.random() < 0.15:
            other = rng.choice([l for l, _ in levels])
            idx = max(i for i, s in enumerate(prog) if s == ["use", root])
            prog.insert(rng.randrange(0, idx + 1), ["use", other])  # an earlier `use` is overridden
    if rpn and flavour == "elegant":
        spell_rpn_program(rng, prog, rpn)
    return {"flavour": flavour, "root": root, "prog": prog}


def gen_zero_probes(rng, flavour, max_per_type=8):
    """Small programs, one per (element type, optional numeric property): that property is GIVEN as an exact zero and every other
    understood numeric property has a non-zero value.  A zero that is given is not an absent property (`if parsed.get(p)` is not
    `if p in parsed`; a default that is not 0 -- fintx, x_max, order -- must not replace a given 0)."""
    table = tables(flavour)
    env = {"vars": [], "attrs": []}

    def nonzero(q):
        if q in ("volt", "voltage"):
            return ["mul", gen_nonzero(rng, env), ["num", "1e6"]]
        if q in ("freq", "frequency", "rf_frequency"):
            return ["num", rng.choice(["1.3e9", "2.998e9"])]
        if q == "order":
            return ["num", "1"]
        return gen_nonzero(rng, env)
    out = []
    for ty in table:
        req, opt, ign, sig = table[ty]
        props = list(opt)
        rng.shuffle(props)
        for p in props[:(4 if ty == "ematrix" else max_per_type)]:
            ps = [[q, nonzero(q)] for q in req] + [[q, ["num", rng.choice(["0", "0.0"])] if q == p else nonzero(q)] for q in opt]
            rng.shuffle(ps)
            prog = [["def", "z1", ty, ps], ["line", "zl", ["z1"]]] + ([["use", "zl"]] if flavour == "bmad" else [])
            out.append({"flavour": flavour, "root": "zl", "prog": prog, "zero": [ty, p]})
    return out


def gen_malformed(rng, flavour):
    """A program that the importer must reject (or, for some kinds, is merely unusual): returns (case, kind)."""
    case = gen_program(rng, flavour, size=5, depth=2, nest=3)
    prog = case["prog"]
    table = tables(flavour)
    kind = rng.choice(["unknown_property", "cyclic_line", "missing_use" if flavour == "bmad" else "missing_root", "undefined_member",
                       "division_by_zero", "missing_required", "undefined_variable", "sqrt_negative"])
    root_line = [s for s in prog if s[0] == "line" and s[1] == case["root"]][-1]
    if kind == "unknown_property":
        ty = rng.choice([t for t in table if t not in ("sext", "charge", "wake", "maxamp", "scraper", "sextupole", "kicker")])
        n = "bad1"
        prog.insert(0, ["def", n, ty, gen_props(rng, {"vars": [], "attrs": []}, table, ty, 1) + [["zzz_unknown", ["num", "1"]]]])
        root_line[2].append(n)
    elif kind == "cyclic_line":
        others = [s for s in prog if s[0] == "line"]
        rng.choice(others)[2].append(case["root"])
        if case["root"] not in root_line[2] and len(others) == 1:
            pass
        # make sure the cycle is reachable from the root
        for s in others:
            if case["root"] in s[2] and s[1] != case["root"] and s[1] not in root_line[2]:
                root_line[2].append(s[1])
    elif kind in ("missing_use", "missing_root"):
        if flavour == "bmad":
            case["prog"] = prog = [s for s in prog if s[0] != "use"]
        else:
            case["root"] = "no_such_line"
    elif kind == "undefined_member":
        root_line[2].insert(rng.randrange(0, len(root_line[2]) + 1), "ghost9")
    elif kind == "division_by_zero":
        prog.insert(0, ["var", "vz1", ["div", ["num", "1"], ["sub", ["num", "2"], ["num", "2"]]]])
    elif kind == "missing_required":
        cands = [t for t in table if table[t][0]]
        ty = rng.choice(cands)
        n = "bad2"
        prog.insert(0, ["def", n, ty, gen_props(rng, {"vars": [], "attrs": []}, table, ty, 1, drop_required=True)])
        root_line[2].append(n)
    elif kind == "undefined_variable":
        prog.insert(0, ["var", "vu1", ["add", ["var", "nowhere7"], ["num", "1"]]])
    elif kind == "sqrt_negative":
        prog.insert(0, ["var", "vs1", ["sqrt", ["neg", ["num", "2"]]]])
    return case, kind


# ---------------------------------------------------------------------------------------------- independent reordering
def _reads_expr(e, acc):
    if e[0] == "var":
        acc.add(e[1])
    elif e[0] == "attr":
        acc.add(e[1])
    else:
        for x in e[1:]:
            if isinstance(x, list):
                _reads_expr(x, acc)


def rw(s):
    """(reads, writes, barrier) on context keys."""
    r, w = set(), set()
    k = s[0]
    if k == "var":
        _reads_expr(s[2], r)
        w.add(s[1])
    elif k == "def":
        r.add(s[2])
        for p, e in s[3]:
            _reads_expr(e, r)
        w.add(s[1])
    elif k == "prop":
        _reads_expr(s[3], r)
        if s[1][0] == "wild":
            return r, w, True
        r.add(s[1][1])
        w.add(s[1][1])
    elif k == "line":
        w.add(s[1])
    elif k == "use":
        w.add("__use__")
    return r, w, False


def reorder_independent(prog, rng):
    """A random topological order of the statement conflict graph (same denotation by construction)."""
    info = [rw(s) for s in prog]
    n = len(prog)
    preds = [set() for _ in range(n)]
    for j in range(n):
        rj, wj, bj = info[j]
        for i in range(j):
            ri, wi, bi = info[i]
            if bi or bj or (wi & (rj | wj)) or (wj & ri):
                preds[j].add(i)
    done, order = set(), []
    while len(order) < n:
        ready = [j for j in range(n) if j not in done and preds[j] <= done]
        j = rng.choice(ready)
        done.add(j)
        order.append(j)
    return [prog[j] for j in order]


def expansion(prog, root):
    """In-order expansion of the root by the LAST definition of every line (names of the leaves); None if cyclic/undefined."""
    last = {}
    for s in prog:
        if s[0] in ("line", "def", "var"):
            last[s[1]] = s
        elif s[0] == "prop" and s[1][0] == "name" and s[1][1] not in last:
            last[s[1][1]] = ["def", s[1][1], None, []]

    def go(n, depth):
        if depth > 60 or n not in last:
            raise KeyError(n)
        s = last[n]
        if s[0] == "line":
            out = []
            for i in s[2]:
                out += go(i, depth + 1)
            return out
        return [n]
    try:
        return go(root, 0)
    except KeyError:
        return None


# ---------------------------------------------------------------------------------------------- NX tables
NX_HEADER = ["NAME", "CLASS", "X_beam", "Y_beam", "Z_beam", "PHI_beam", "THETA_beam", "PSI_beam", "empty", "Xp", "Yp", "Zp", "PHIp",
             "THETAp", "PSIp", "empty1", "Xp_beam", "Yp_beam", "Zp_beam", "PHIp_beam", "THETAp_beam", "PSIp_beam", "empty2",
             "Beam_radius_X", "Beam_radius_Y", "Stage", "CAD_Sub_section", "Comments"]
NX_LEN = {"MCXG": 1e-4, "MCHM": 0.02, "MCVM": 0.02, "MBHL": 0.322, "MBHB": 0.22, "MBHO": 0.43852543421396856, "MQZM": 0.122,
          "RSBL": 4.139, "RXBD": 1.0, "UNDA": 0.25}
NX_ZERO = ["BSCX", "BSCR", "BSCM", "BSCO", "BSCA", "BSCE", "SCRD", "BPMG", "BPML", "SLHG", "SLHB", "SLHS", "SOLG", "BCMG", "EOLG", "TORF",
           "MKBB", "STDE", "WINA", "LINA", "EOLX", "BSCD"]
NX_IGNORE = ["RSBG", "MSOB", "VVAG", "BSCL", "SOLE", "EOLE", "ICTB", "BSCS", "FPSA"]


def gen_nx(rng, n=8, kind="ok"):
    """rows [(name, class, z)] in FILE order (shuffled), non-overlapping unless kind == 'overlap'."""
    rows = []
    z = round(rng.uniform(-2, 5), 6) if rng.random() < 0.5 else 0.0
    prev_half = 0.0
    for i in range(n):
        c = rng.random()
        cls = rng.choice(list(NX_LEN)) if c < 0.45 else rng.choice(NX_ZERO) if c < 0.85 else rng.choice(NX_IGNORE)
        if cls == "MCXG":
            name = "ARXXMC" + "X" + "%d" % i
        else:
            name = "AR%s%s%d" % (rng.choice(["LI", "DL", "MR", "EA"]), cls, i)
        ln = NX_LEN.get(cls, 0.0)
        if cls in NX_IGNORE:
            rows.append([name, cls, round(z + rng.uniform(-1, 1), 6)])     # ignored rows may sit anywhere
            continue
        g = rng.random()
        if rows and g < 0.15 and ln == 0.0 and prev_half == 0.0:
            gap = 0.0                                                      # two zero-length elements at the same position
        else:
            gap = round(rng.uniform(0.01, 3.0), 6)
        z = round(z + prev_half + gap + ln / 2, 6) if gap else z
        rows.append([name, cls, z])
        prev_half = ln / 2
    if kind == "overlap":
        real = [r for r in rows if r[1] in NX_LEN and r[1] != "MCXG"] or [r for r in rows if r[1] not in NX_IGNORE]
        if real:
            r = rng.choice(real)
            rows.append(["AROVMQZM99", "MQZM", round(r[2] + rng.choice([0.03, -0.02, 0.0, 0.06]), 6)])
    elif kind == "unknown_class":
        rows.insert(rng.randrange(0, len(rows) + 1), ["ARXXZZZZ1", "ZZZZ", 1.0])
    rng.shuffle(rows)
    return rows


def render_nx(rows, rng):
    lines = [",".join(NX_HEADER)]
    for name, cls, z in rows:
        cells = {h: "0.000000" for h in NX_HEADER}
        cells.update({"NAME": name, "CLASS": cls, "Z_beam": repr(z) if rng.random() < 0.5 else "%.6f" % z, "empty": "NaN", "empty1": "NaN",
                      "empty2": "NaN", "Beam_radius_X": "5", "Beam_radius_Y": "5", "Stage": "Stage0 -P", "CAD_Sub_section": "LI.a", "Comments": ""})
        lines.append(",".join(cells[h] for h in NX_HEADER))
    return "\n".join(lines) + "\n"


def coq_nx_rows(rows):
    return coq_list(["(%s, %s, %s)" % (coq_string(n), coq_string(c), flit(float(repr(z)) if True else z)) for n, c, z in rows])
