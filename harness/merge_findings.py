"""Merge known_findings.d/*.json fragments (written while checks were being developed) into the single committed
known_findings.json.  Run by hand by the maintainer of /verif; never at check time."""
import glob, json, os
from pathlib import Path
V = Path(__file__).resolve().parent.parent
base = json.loads((V / "known_findings.json").read_text())
ents = base["findings"]
seen = {(e["id"], tuple(e.get("properties", [])), e["what"]) for e in ents}
for f in sorted(glob.glob(str(V / "known_findings.d" / "*.json"))):
    d = json.loads(open(f).read())
    for e in (d if isinstance(d, list) else d.get("findings", [d])):
        k = (e["id"], tuple(e.get("properties", [])), e["what"])
        if k in seen:
            # status may have changed (known -> fixed)
            for o in ents:
                if (o["id"], tuple(o.get("properties", [])), o["what"]) == k:
                    o.update(e)
            continue
        seen.add(k)
        ents.append(e)
    os.remove(f)
ents.sort(key=lambda e: (e["properties"][0], e["id"]))
base["fixed"] = sorted(e["line"] for e in ents if e.get("status") == "fixed" and e.get("line"))
(V / "known_findings.json").write_text(json.dumps(base, indent=1) + "\n")
print(len(ents), "entries;", sum(e.get("status") == "known" for e in ents), "known;", len(base["fixed"]), "fixed")
