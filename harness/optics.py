"""Correspondence helper for cheetah's LINEAR transfer maps  <->  the Coq model coq/theories/Optics/Maps.v.

Shared by C02 (and reusable by C03, C06, C09 ...).  Everything is float64 / scalar (non-vectorised) elements.

API
---
PREAMBLE                      Coq header for generated goal files (imports Maps, Entries, EntryTac, Interval).
SUPPORTED                     tuple of class names that have a model here.
assert_constants()            raises BrokenCorrespondence unless cheetah's electron_mass_eV is the constant written in Maps.v.
params(element)            -> dict of python floats read from the *built* cheetah element (not from a spec).
model(element, energy)     -> Model(term, rewrite, pattern, absmat, guarded, L, binders):
                                term     Coq term of type `M7 R`, e.g. "(quad_map pL pk1 0 0 pt pE)": zero parameters are the literal `0`,
                                         non-zero ones are variables listed in `binders` = [(name, float value)] that the goal pins by
                                         `lit <= p <= lit` (exact dyadic literals; keeps terms small and `interval`/`lra` use the bounds)
                                rewrite  tactic prefix that turns `m7nth term i j` into a closed-form sparse expression (never an unfolded product)
                                pattern  7x7 of '0' / '1' / 'x' : structural zeros / ones of the model (provable by `ring`) vs numeric entries
                                absmat   7x7 floats: sum of absolute values of the terms of each entry (tolerance scale / conditioning)
                                guarded  True iff the code's `k1 == 0 -> 1e-12` guard is active at this point
observe(element, energy)   -> 7x7 list of floats: the real `element.transfer_map(torch.tensor(energy, float64))`
tolerance(m, v)            -> 7x7 floats: 2^-40*(|v_ij| + absmat_ij) + 2^-70, plus 4*guard_bound(L)*amplification at guarded points
goals(element, energy, observed=None, per_entry=False, und_fixed=None)
                           -> (goal_list, meta) where goal_list = [(statement, tactic), ...] ready for common.run_real_goals and
                              meta[k] = {"kind": "exact"|"num", "entries": [(i, j), ...]} for goal k.  One "exact" goal covers all
                              structural entries (after checking in Python that the observed values are exactly 0.0 / 1.0);
                              one "num" goal: the conjunction of `Rabs (m7nth term i j - v) <= tol` over the numeric entries of the point
                              (per_entry=True: one goal per entry, to name the failing entries), closed by `interval`.
                              Non-zero parameters are universally quantified variables pinned by `lit <= p <= lit` (small terms).
                              Raises BrokenCorrespondence for non-finite outputs or a structural entry that is not exactly 0/1.
helpers: lit(x) exact real literal; entry(term, i, j); rel(E) -> (gamma, igamma2, beta) floats; guard_bound(L).
Undulator (finding F3): Maps.v holds two transcriptions, `und_map` (R56 = +L igamma2, the code before the repair) and
`und_map_fixed` (R56 = -L/beta^2 igamma2, the repaired code = drift_map).  Which one is the faithful model is decided by the
status of F3 in known_findings.json: f3_known(pid) -> True while F3 is listed `known` for that property (model `und_map`);
once it is flipped to `fixed` the model is `und_map_fixed`.  set_undulator_variant(fixed) sets the default for model()/goals();
both take und_fixed=True/False to evaluate the other variant (used to tell "stale status" from "new defect").
Coq side: Optics/Entries.v (closed-form sparse entry lemmas rotconj/shiftconj/edgeconj + *_eq selection lemmas, proved for all
parameters) and Optics/EntryTac.v (tactics c02_exact / c02_num).  Build them with common.coq_build("theories/Optics/EntryTac.vo").

Typical use:
    import optics
    optics.assert_constants()
    e = realgen.build(spec); gl, meta = optics.goals(e, 5e6)
    failing, errs = common.run_real_goals(PID, "name", optics.PREAMBLE, gl)
"""
import math

import torch

import common

PREAMBLE = """From Coq Require Import Reals Lra.
From Interval Require Import Tactic.
From Cheetah Require Import Base.Mat Optics.Maps Optics.CS Optics.Entries Optics.EntryTac Optics.UndFixed.
Open Scope R_scope."""
COQ_TARGETS = ("theories/Optics/EntryTac.vo", "theories/Optics/UndFixed.vo")     # what the generated goals load

M_E_IN_MAPS_V = 510998.95069          # the literal `m_e` of Optics/Maps.v
SUPPORTED = ("Drift", "Quadrupole", "Dipole", "RBend", "Solenoid", "HorizontalCorrector", "VerticalCorrector", "Undulator",
             "Cavity", "Marker", "BPM", "Screen", "Aperture")
IDENTITY_CLASSES = ("Marker", "BPM", "Screen", "Aperture")
GUARDED_CLASSES = ("Quadrupole", "Dipole", "RBend", "Cavity")


class BrokenCorrespondence(Exception):
    pass


# ------------------------------------------------------------------ finding F3: which Undulator transcription is the faithful one
UND_FIXED = False        # default variant used by model()/goals(); set by the check from the status of F3


def finding_status(pid, fid):
    """'known' / 'fixed' / None (not listed) for finding `fid` of property `pid` in known_findings.json"""
    st = [f.get("status") for f in common.load_known_findings(pid) if f.get("id") == fid]
    if "known" in st:
        return "known"
    return st[0] if st else None


def f3_known(pid):
    """True while F3 (Undulator R56) is listed with status `known` for `pid`: the code before the repair is the model"""
    return finding_status(pid, "F3") == "known"


def set_undulator_variant(fixed: bool):
    global UND_FIXED
    UND_FIXED = bool(fixed)


def undulator_variant_name(fixed=None):
    fixed = UND_FIXED if fixed is None else fixed
    return "und_map_fixed (code after the repair of F3; = drift_map)" if fixed else "und_map (code before the repair of F3: R56 = +L igamma2)"


def assert_constants():
    from cheetah.utils import physics
    if physics.electron_mass_eV != M_E_IN_MAPS_V:
        raise BrokenCorrespondence(f"cheetah.utils.physics.electron_mass_eV = {physics.electron_mass_eV!r} but Optics/Maps.v has m_e = {M_E_IN_MAPS_V!r}")


def lit(x: float) -> str:
    """exact Coq real literal; zero is printed as `0` so that guard lemmas match syntactically"""
    x = float(x)
    if not math.isfinite(x):
        raise BrokenCorrespondence(f"non-finite parameter {x}")
    if x == 0.0:
        return "0"
    return common.dyadic(x)


def entry(term, i, j):
    return f"m7nth {term} {i} {j}"


def _f(t):
    t = torch.as_tensor(t)
    if t.numel() != 1:
        raise BrokenCorrespondence("optics.py handles scalar (non-vectorised) elements only")
    return float(t.reshape(()))


def params(e):
    """Parameter values of a built cheetah element as python floats (read from the element itself)."""
    cls = type(e).__name__
    p = {"cls": cls}
    if cls in IDENTITY_CLASSES:
        return p
    p["L"] = _f(e.length)
    if cls == "Quadrupole":
        mis = torch.as_tensor(e.misalignment).reshape(-1)
        p.update(k1=_f(e.k1), mx=float(mis[0]), my=float(mis[1]), tilt=_f(e.tilt))
    elif cls in ("Dipole", "RBend"):
        p.update(angle=_f(e.angle), k1=_f(e.k1), e1=_f(e._e1), e2=_f(e._e2), tilt=_f(e.tilt), gap=_f(e.gap),
                 fint=_f(e.fringe_integral), fint_exit=_f(e.fringe_integral_exit))
    elif cls == "Solenoid":
        mis = torch.as_tensor(e.misalignment).reshape(-1)
        p.update(k=_f(e.k), mx=float(mis[0]), my=float(mis[1]))
    elif cls in ("HorizontalCorrector", "VerticalCorrector"):
        p.update(angle=_f(e.angle))
    elif cls == "Cavity":
        p.update(voltage=_f(e.voltage))
        if p["voltage"] != 0.0:
            raise BrokenCorrespondence("optics.py models Cavity only at voltage = 0")
    elif cls not in ("Drift", "Undulator"):
        raise BrokenCorrespondence(f"no linear-map model for class {cls}")
    return p


# ------------------------------------------------------------------ symbolic 0/1/x patterns and |.| matrices
def _pmul(a, b):
    if a == "0" or b == "0":
        return "0"
    if a == "1":
        return b
    if b == "1":
        return a
    return "x"


def _padd(a, b):
    if a == "0":
        return b
    if b == "0":
        return a
    return "x"


def _pmm(A, B):
    out = [["0"] * 7 for _ in range(7)]
    for i in range(7):
        for j in range(7):
            acc = "0"
            for k in range(7):
                acc = _padd(acc, _pmul(A[i][k], B[k][j]))
            out[i][j] = acc
    return out


def _amm(A, B):
    return [[sum(A[i][k] * B[k][j] for k in range(7)) for j in range(7)] for i in range(7)]


def _pid():
    return [["1" if i == j else "0" for j in range(7)] for i in range(7)]


def _aid():
    return [[1.0 if i == j else 0.0 for j in range(7)] for i in range(7)]


def _with(base, entries):
    m = [row[:] for row in base]
    for (i, j), v in entries.items():
        m[i][j] = v
    return m


def _rot_factor(t):
    c, s = abs(math.cos(t)), abs(math.sin(t))
    P = _with(_pid(), {(0, 0): "x", (0, 2): "x", (1, 1): "x", (1, 3): "x", (2, 0): "x", (2, 2): "x", (3, 1): "x", (3, 3): "x"})
    A = _with(_aid(), {(0, 0): c, (0, 2): s, (1, 1): c, (1, 3): s, (2, 0): s, (2, 2): c, (3, 1): s, (3, 3): c})
    return P, A


def _shift_factor(mx, my):
    P = _with(_pid(), {(0, 6): "x" if mx != 0 else "0", (2, 6): "x" if my != 0 else "0"})
    A = _with(_aid(), {(0, 6): abs(mx), (2, 6): abs(my)})
    return P, A


def _edge_factor(a, b, hx_zero):
    P = _with(_pid(), {(1, 0): "0" if hx_zero else "x", (3, 2): "0" if hx_zero else "x"})
    A = _with(_aid(), {(1, 0): abs(a), (3, 2): abs(b)})
    return P, A


def rel(E):
    g = E / M_E_IN_MAPS_V
    ig = 0.0 if g == 0 else 1.0 / g ** 2
    return g, ig, math.sqrt(1.0 - ig)


def _cs(k, L):
    """(C, S) of Maps.v in floats -- used for tolerance scales only"""
    if k > 0:
        w = math.sqrt(k)
        return math.cos(w * L), math.sin(w * L) / w
    if k < 0:
        w = math.sqrt(-k)
        return math.cosh(w * L), math.sinh(w * L) / w
    return 1.0, L


def _base(L, k1, hx, E, hx_zero):
    """pattern and |.|-matrix of base_untilted (sum of absolute values of the terms of every formula)"""
    _, ig, beta = rel(E)
    k1g = 1e-12 if k1 == 0 else k1
    kx2, ky2 = k1g + hx * hx, -k1g
    cx, sx = _cs(kx2, L)
    cy, sy = _cs(ky2, L)
    ax, ay = max(abs(sx), abs(L)), max(abs(sy), abs(L))
    P = _with(_pid(), {(0, 0): "x", (0, 1): "x", (1, 0): "x", (1, 1): "x", (2, 2): "x", (2, 3): "x", (3, 2): "x", (3, 3): "x", (4, 5): "x"})
    A = _aid()
    A[0][0] = A[1][1] = max(1.0, abs(cx))
    A[0][1] = ax
    A[1][0] = abs(kx2) * ax
    A[2][2] = A[3][3] = max(1.0, abs(cy))
    A[2][3] = ay
    A[3][2] = abs(ky2) * ay
    A[4][5] = abs(L) * ig / beta ** 2
    if not hx_zero:
        if kx2 == 0:
            raise BrokenCorrespondence("kx2 = 0: unspecified point")
        d = abs(hx / kx2) * (1.0 + abs(cx)) / beta
        for ij in ((0, 5), (1, 5), (4, 0), (4, 1)):
            P[ij[0]][ij[1]] = "x"
        A[0][5] = A[4][1] = d
        A[1][5] = A[4][0] = abs(hx) * ax / beta
        A[4][5] += hx * hx * (abs(L) + abs(sx)) / abs(kx2) / beta ** 2
    return P, A


def _drift_like(L, E, plus=False):
    _, ig, beta = rel(E)
    P = _with(_pid(), {(0, 1): "x", (2, 3): "x", (4, 5): "x"})
    A = _with(_aid(), {(0, 1): abs(L), (2, 3): abs(L), (4, 5): abs(L) * ig / (1.0 if plus else beta ** 2)})
    return P, A


class Model:
    def __init__(self, cls, term, rewrite, pattern, absmat, guarded, L, amp=None):
        self.cls, self.term, self.rewrite, self.pattern, self.absmat, self.guarded, self.L = cls, term, rewrite, pattern, absmat, guarded, L
        self.amp = amp
        self.binders = []      # [(variable name, float value)]: the term is stated for variables pinned by `lit <= v <= lit`


class _Env:
    """non-zero parameters become universally quantified variables pinned to their exact dyadic value by a hypothesis
    `lit <= p <= lit` (keeps the generated terms small: a literal is ~120 nodes); zeros stay the literal `0`"""

    def __init__(self):
        self.binders = []

    def __call__(self, name, x):
        x = float(x)
        if not math.isfinite(x):
            raise BrokenCorrespondence(f"non-finite parameter {name} = {x}")
        if x == 0.0:
            return "0"
        self.binders.append(("p" + name, x))
        return "p" + name


def _nz(name_vals):
    """tactic proving a disjunction `mx <> 0 \\/ my <> 0` for literals"""
    mx, my = name_vals
    return "(left; lra)" if mx != 0 else "(right; lra)"


def model(e, energy, und_fixed=None):
    p = params(e)
    cls = p["cls"]
    E = float(energy)
    if not (E > M_E_IN_MAPS_V):
        raise BrokenCorrespondence("reference energy at or below the rest energy is an unspecified region")
    env = _Env()
    m = _model(p, cls, E, env, UND_FIXED if und_fixed is None else bool(und_fixed))
    m.binders = env.binders
    return m


def _model(p, cls, E, lit, und_fixed=False):
    lE = lit("E", E)
    if cls in IDENTITY_CLASSES:
        return Model(cls, "identity_map", "", _pid(), _aid(), False, 0.0)
    L = p["L"]
    lL = lit("L", L)
    if cls == "Drift":
        P, A = _drift_like(L, E)
        return Model(cls, f"(drift_map {lL} {lE})", "", P, A, False, L)
    if cls == "Undulator":
        if und_fixed:     # repaired code: literally the drift formula; the goal is rewritten to drift_map (UndFixed.v)
            P, A = _drift_like(L, E)
            return Model(cls, f"(und_map_fixed {lL} {lE})", "rewrite und_map_fixed_is_drift.", P, A, False, L)
        P, A = _drift_like(L, E, plus=True)
        return Model(cls, f"(und_map {lL} {lE})", "", P, A, False, L)
    if cls in ("HorizontalCorrector", "VerticalCorrector"):
        P, A = _drift_like(L, E)
        ij = (1, 6) if cls == "HorizontalCorrector" else (3, 6)
        P[ij[0]][ij[1]] = "x"
        A[ij[0]][ij[1]] = abs(p["angle"])
        f = "hcor_map" if cls == "HorizontalCorrector" else "vcor_map"
        return Model(cls, f"({f} {lL} {lit('a', p['angle'])} {lE})", "", P, A, False, L)
    if cls == "Cavity":
        P, A = _base(L, 0.0, 0.0, E, True)
        return Model(cls, f"(cavity_off_map {lL} {lE})", "rewrite cavity_off_eq.", P, A, True, L, amp=_block_amp())
    if cls == "Quadrupole":
        k1, mx, my, t = p["k1"], p["mx"], p["my"], p["tilt"]
        P, A = _base(L, k1, 0.0, E, True)
        amp = _block_amp()
        mis = (mx != 0 or my != 0)
        if t != 0:
            Pr, Ar = _rot_factor(t)
            P, A, amp = _pmm(Pr, _pmm(P, Pr)), _amm(Ar, _amm(A, Ar)), _amm(Ar, _amm(amp, Ar))
        if mis:
            Ps, As = _shift_factor(mx, my)
            P, A, amp = _pmm(Ps, _pmm(P, Ps)), _amm(As, _amm(A, As)), _amm(As, _amm(amp, As))
        if t == 0 and not mis:
            rw = "rewrite quad_map_00."
        elif t != 0 and not mis:
            rw = "rewrite quad_map_t0 by lra."
        elif t == 0:
            rw = f"rewrite quad_map_0m by {_nz((mx, my))}."
        else:
            rw = f"rewrite quad_map_tm by (lra || {_nz((mx, my))})."
        term = f"(quad_map {lL} {lit('k1', k1)} {lit('mx', mx)} {lit('my', my)} {lit('t', t)} {lE})"
        return Model(cls, term, rw, P, A, k1 == 0, L, amp=amp)
    if cls in ("Dipole", "RBend"):
        a, k1, e1, e2, t = p["angle"], p["k1"], p["e1"], p["e2"], p["tilt"]
        hx = 0.0 if L == 0 else a / L
        hx_zero = (a == 0) or (L == 0)
        if L != 0:
            P, A = _base(L, k1, hx, E, hx_zero)
        else:
            P = _with(_pid(), {(0, 1): "x", (2, 3): "x", (2, 6): "x" if a != 0 else "0"})
            A = _with(_aid(), {(2, 6): abs(a)})
        amp = _block_amp()

        def phi(fi, ee):
            return fi * hx * p["gap"] / math.cos(ee) * (1 + math.sin(ee) ** 2)
        P1, A1 = _edge_factor(hx * math.tan(e1), hx * math.tan(e1 - phi(p["fint"], e1)), hx_zero)
        P2, A2 = _edge_factor(hx * math.tan(e2), hx * math.tan(e2 - phi(p["fint_exit"], e2)), hx_zero)
        P, A, amp = _pmm(P2, _pmm(P, P1)), _amm(A2, _amm(A, A1)), _amm(A2, _amm(amp, A1))
        if t != 0:
            Pr, Ar = _rot_factor(t)
            P, A, amp = _pmm(Pr, _pmm(P, Pr)), _amm(Ar, _amm(A, Ar)), _amm(Ar, _amm(amp, Ar))
        # the model is always written with the dipole_e angles the element holds (RBend: rbend_e + angle/2 computed by the code)
        term = (f"(dip_map {lL} {lit('a', a)} {lit('k1', k1)} {lit('e1', e1)} {lit('e2', e2)} {lit('t', t)} {lit('gap', p['gap'])} "
                f"{lit('fi', p['fint'])} {lit('fx', p['fint_exit'])} {lE})")
        if L != 0:
            rw = "rewrite dip_map_eq by lra." if t != 0 else "rewrite dip_map_eq_t0 by lra."
        else:
            rw = "rewrite dip_map_L0." if t != 0 else "rewrite dip_map_L0_t0."
        return Model(cls, term, rw, P, A, k1 == 0 and L != 0, L, amp=amp)
    if cls == "Solenoid":
        k, mx, my = p["k"], p["mx"], p["my"]
        g, ig, beta = rel(E)
        c, s = abs(math.cos(L * k)), abs(math.sin(L * k))
        sk = abs(L) if k == 0 else max(abs(math.sin(L * k) / k), abs(L))
        P = _pid()
        A = _aid()
        for i in range(4):
            for j in range(4):
                P[i][j] = "x"
        one = 1.0
        blk = [[one, sk, one, sk], [abs(k), one, abs(k), one], [one, sk, one, sk], [abs(k), one, abs(k), one]]
        for i in range(4):
            for j in range(4):
                A[i][j] = blk[i][j]
        P[4][5] = "x"
        A[4][5] = abs(L / (1 - g * g))
        mis = (mx != 0 or my != 0)
        if mis:
            Ps, As = _shift_factor(mx, my)
            P, A = _pmm(Ps, _pmm(P, Ps)), _amm(As, _amm(A, As))
        rw = "rewrite sol_map_0." if not mis else f"rewrite sol_map_m by {_nz((mx, my))}."
        return Model(cls, f"(sol_map {lL} {lit('k', k)} {lit('mx', mx)} {lit('my', my)} {lE})", rw, P, A, False, L)
    raise BrokenCorrespondence(f"no linear-map model for class {cls}")


def _block_amp():
    m = [[0.0] * 7 for _ in range(7)]
    for i, j in ((0, 0), (0, 1), (1, 0), (1, 1), (2, 2), (2, 3), (3, 2), (3, 3)):
        m[i][j] = 1.0
    return m


def observe(e, energy):
    tm = e.transfer_map(torch.tensor(float(energy), dtype=torch.float64))
    if tm.dtype != torch.float64:
        raise BrokenCorrespondence(f"transfer_map returned dtype {tm.dtype}, expected float64")
    if tuple(tm.shape) != (7, 7):
        raise BrokenCorrespondence(f"transfer_map returned shape {tuple(tm.shape)}, expected (7, 7)")
    return [[float(tm[i, j]) for j in range(7)] for i in range(7)]


def guard_bound(L):
    """the proved bound of FlowProofs.quad_k0_guard_bound (Flow.guard_bound)"""
    L = abs(L)
    return 2e-12 * L * (1 + L + L * L)


def tolerance(m, v):
    tol = [[2.0 ** -40 * (abs(v[i][j]) + m.absmat[i][j]) + 2.0 ** -70 for j in range(7)] for i in range(7)]
    if m.guarded and m.amp is not None:
        gb = guard_bound(m.L)
        for i in range(7):
            for j in range(7):
                tol[i][j] += 4.0 * gb * m.amp[i][j]
    return tol


def goals(e, energy, observed=None, per_entry=False, und_fixed=None):
    m = model(e, energy, und_fixed)
    v = observed if observed is not None else observe(e, energy)
    for i in range(7):
        for j in range(7):
            if not math.isfinite(v[i][j]):
                raise BrokenCorrespondence(f"{m.cls}: transfer_map[{i}][{j}] = {v[i][j]} but the model is defined at this point (NaN channel)")
    tol = tolerance(m, v)
    if m.binders:
        names = " ".join(n for n, _ in m.binders)
        prefix = f"forall {names} : R, " + "".join(f"{lit(x)} <= {n} <= {lit(x)} -> " for n, x in m.binders)
        intro = "intros " + names + " " + " ".join("H" + n for n, _ in m.binders) + ". "
    else:
        prefix, intro = "", ""
    gl, meta = [], []
    exact, ent = [], []
    for i in range(7):
        for j in range(7):
            tag = m.pattern[i][j]
            if tag in ("0", "1"):
                if v[i][j] != float(tag):
                    raise BrokenCorrespondence(f"{m.cls}: transfer_map[{i}][{j}] = {v[i][j]!r} but the model has a structural {tag} there")
                exact.append(f"{entry(m.term, i, j)} = {tag}")
                ent.append((i, j))
    if exact:
        gl.append((prefix + " /\\ ".join(exact), f"{intro}{m.rewrite} c02_exact."))
        meta.append({"kind": "exact", "entries": ent})
    num, ent = [], []
    for i in range(7):
        for j in range(7):
            if m.pattern[i][j] == "x":
                num.append(f"Rabs ({entry(m.term, i, j)} - {lit(v[i][j])}) <= {lit(tol[i][j])}")
                ent.append((i, j))
    if per_entry:
        for stmt, ij in zip(num, ent):
            gl.append((prefix + stmt, f"{intro}{m.rewrite} c02_num."))
            meta.append({"kind": "num", "entries": [ij], "tol": tol[ij[0]][ij[1]], "observed": v[ij[0]][ij[1]]})
    elif num:
        gl.append((prefix + " /\\ ".join(num), f"{intro}{m.rewrite} c02_num."))
        meta.append({"kind": "num", "entries": ent})
    return gl, meta
