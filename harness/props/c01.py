"""C01 -- Segment tracking is the ordered composition of its elements."""
import copy
import json

import torch

import common
import realgen
import zlattice as zl
from common import coq_list, coq_string, zlit

PID = "C01"
PREAMBLE = """From Coq Require Import List Bool String ZArith.
From Cheetah Require Import Base.Mat Lattice.Track Lattice.ZInst Lattice.ZCheck.
Import ListNotations. Open Scope string_scope. Open Scope Z_scope."""


# ---------------------------------------------------------------- exact structural correspondence
def _try(f):
    """an exception raised by the implementation is an observation, not a crash of the check"""
    try:
        return f()
    except zl.Inexact:
        raise
    except Exception as ex:  # noqa
        return {"raises": type(ex).__name__ + ": " + str(ex)[:120]}


def observe(tree, beam, sub):
    """Run the real Segment code on an integer case; returns the observation dict."""
    seg = zl.build(tree)
    b = zl.build_beam(beam)
    obs = {}
    # the property itself, on the implementation alone: fold of element.track (recursively)
    obs["fold_out"] = zl.observe_beam(fold_track(seg, b))
    obs["out"] = _try(lambda: zl.observe_beam(seg.track(b)))
    flat = seg.flattened()
    obs["flat_out"] = _try(lambda: zl.observe_beam(flat.track(b)))
    try:
        obs["len"] = zl._ints(seg.length)
    except TypeError:
        obs["len"] = None
    obs["skip"] = bool(seg.is_skippable)
    obs["flat_names"] = [e.name for e in flat.elements]
    if sub is not None:
        sc = seg.subcell(sub[0], sub[1])
        obs["sub"] = {"names": [e.name for e in sc.elements], "out": _try(lambda: zl.observe_beam(sc.track(b)))}
        # the property on the implementation alone (independent of the Coq model): with unique child names and `start` not after
        # `stop`, the sub-cell is the contiguous slice [start .. stop] of the children (a single element when start == stop)
        names = [c["name"] for c in tree["es"]]
        if len(set(names)) == len(names) and sub[0] in names and sub[1] in names and names.index(sub[0]) <= names.index(sub[1]):
            obs["sub_expected"] = names[names.index(sub[0]): names.index(sub[1]) + 1]
    else:
        obs["sub"] = None
    return obs


def impl_violates(obs):
    """oracle verdict on one observation: Segment.track == fold == flattened().track, and sub-cells are slices"""
    if obs["out"] != obs["fold_out"] or obs["out"] != obs["flat_out"]:
        return True
    if obs.get("sub_expected") is not None and obs["sub"]["names"] != obs["sub_expected"]:
        return True
    return False


def observe_batched(trees, beams, sub):
    """Vectorised run: one real lattice whose parameters / beam carry a batch dimension; returns one observation per entry."""
    nb = len(trees)
    seg = zl.build_batched(trees)
    b = zl.build_beam_batched(beams)
    out, flat = seg.track(b), seg.flattened()
    flat_out, fold_out = flat.track(b), fold_track(seg, b)
    try:
        ln = seg.length
    except TypeError:
        ln = None
    sc = seg.subcell(sub[0], sub[1]) if sub is not None else None
    sc_out = sc.track(b) if sc is not None else None
    res = []
    for i in range(nb):
        obs = {"out": zl.observe_beam_entry(out, i, nb), "flat_out": zl.observe_beam_entry(flat_out, i, nb),
               "fold_out": zl.observe_beam_entry(fold_out, i, nb), "skip": bool(seg.is_skippable),
               "flat_names": [e.name for e in flat.elements]}
        if ln is None:
            obs["len"] = None
        else:
            t = ln.detach()
            obs["len"] = zl._ints(t[i] if t.dim() > 0 and t.shape[0] > 1 else (t[0] if t.dim() > 0 else t))
        obs["sub"] = None if sc is None else {"names": [e.name for e in sc.elements], "out": zl.observe_beam_entry(sc_out, i, nb)}
        res.append(obs)
    return res


def fold_track(e, b):
    import cheetah
    if isinstance(e, cheetah.Segment):
        for c in e.elements:
            b = fold_track(c, b)
        return b
    return e.track(b)


RAISED = {"type": "parts", "ps": [], "E": -1, "q": [], "s": []}   # printed for "the implementation raised": never equals a model output


def _b(o):
    return RAISED if (isinstance(o, dict) and "raises" in o) else o


def coq_case(tree, beam, sub, obs):
    ln = "None" if obs["len"] is None else f"(Some {zlit(obs['len'])})"
    if obs["sub"] is None:
        sb = "None"
    else:
        sb = (f"(Some ({coq_string(sub[0])}, {coq_string(sub[1])}, {coq_list([coq_string(n) for n in obs['sub']['names']])}, "
              f"{zl.coq_beam(_b(obs['sub']['out']))}))")
    return (f"mkc01 {zl.coq_elem(tree)} {zl.coq_beam(beam)} {zl.coq_beam(_b(obs['out']))} {zl.coq_beam(_b(obs['flat_out']))} {ln} "
            f"{'true' if obs['skip'] else 'false'} {coq_list([coq_string(n) for n in obs['flat_names']])} {sb}")


def gen_case(rng, depth):
    counter = [0]
    tree = zl.gen_tree(rng, depth, 6, counter, name_pool=["dup1", "dup2"])
    beam = zl.gen_beam(rng)
    names = [c["name"] for c in tree["es"]]
    sub = None
    if names and rng.random() < 0.7:
        sub = [rng.choice(names + ["absent"]), rng.choice(names + ["absent"])]
        if rng.random() < 0.2:
            sub[1] = sub[0]              # a single-element cut
    return tree, beam, sub


def structural(run, n_cases, depth):
    cases, terms, impl_fail = [], [], []
    tries = 0
    while len(cases) < n_cases and tries < n_cases * 4:
        tries += 1
        tree, beam, sub = gen_case(run.rng, depth)
        if run.rng.random() < 0.3:
            # vectorised variant: nb settings of the same lattice in one batch, checked entry by entry
            nb = run.rng.choice([2, 3])
            trees = [tree] + [zl.vary_tree(run.rng, tree) for _ in range(nb - 1)]
            beams = [beam] * nb
            if run.rng.random() < 0.5:
                import copy as _c
                beams = [beam]
                for _ in range(nb - 1):
                    b2 = _c.deepcopy(beam)
                    b2["E"] = run.rng.choice([1, 2, 3, 5])
                    if b2["type"] == "parts":
                        b2["ps"] = [[run.rng.randrange(-3, 4) for _ in range(6)] + [1] for _ in b2["ps"]]
                    else:
                        b2["mu"] = [run.rng.randrange(-3, 4) for _ in range(6)] + [1]
                    beams.append(b2)
            try:
                obss = observe_batched(trees, beams, sub)
            except zl.Inexact:
                run.count("discarded_inexact")
                continue
            except Exception:  # noqa  -- the implementation raised on the batch: examine the scalar lattice below instead
                run.count("vectorised_run_raised")
                obss = None
            if obss is None:
                try:
                    obs = observe(tree, beam, sub)
                except zl.Inexact:
                    continue
                run.add_case([zl.shape_sig(tree), beam["type"], tree, beam], True)
                if obs["out"] != obs["fold_out"] or obs["out"] != obs["flat_out"]:
                    impl_fail.append(len(cases))
                cases.append((tree, beam, sub, obs))
                terms.append(coq_case(tree, beam, sub, obs))
                continue
            run.count("vectorised_batch_%d" % nb)
            for t_i, b_i, obs in zip(trees, beams, obss):
                run.add_case([zl.shape_sig(t_i), b_i["type"], t_i, b_i, "vec"], len(zl.leaves(t_i)) >= 2)
                if obs["out"] != obs["fold_out"] or obs["out"] != obs["flat_out"]:
                    impl_fail.append(len(cases))
                cases.append((t_i, b_i, sub, obs))
                terms.append(coq_case(t_i, b_i, sub, obs))
            continue
        try:
            obs = observe(tree, beam, sub)
        except zl.Inexact:
            run.count("discarded_inexact")
            continue
        kinds = sorted({l["kind"] for l in zl.leaves(tree)})
        nontrivial = len(zl.leaves(tree)) >= 2 and any(l["kind"] in ("map", "ctm", "non") and (l.get("a0") or l.get("a1") or l["kind"] == "non") for l in zl.leaves(tree))
        run.add_case([zl.shape_sig(tree), beam["type"], tree, beam], nontrivial)
        run.count("beam_" + beam["type"])
        run.count("skippable_segment" if obs["skip"] else "non_skippable_segment")
        run.count("leaves_%d" % min(len(zl.leaves(tree)), 12))
        run.count("kinds_" + "+".join(kinds))
        if impl_violates(obs):
            impl_fail.append(len(cases))
        cases.append((tree, beam, sub, obs))
        terms.append(coq_case(tree, beam, sub, obs))
    run.sample({"tree": cases[0][0], "beam": cases[0][1], "subcell": cases[0][2], "observed": cases[0][3]} if cases else {})
    # finding F28 (listed under C08): Segment.length of an EMPTY segment raised TypeError instead of being 0.  While it is listed
    # as known the length of a tree with an empty (sub-)segment is modelled as "raises"; once it is fixed the length is total.
    f28_known = any(f["id"] == "F28" and f.get("status") == "known" for f in common.load_known_findings("C08"))
    failing = common.run_shards(PID, "struct", PREAMBLE, terms, "c01_check" if f28_known else "c01_check_len_total")
    run.cov["traces_validated_against_impl"] += len(cases)
    return cases, failing, impl_fail


def shrink_tree(tree, beam, sub, pred):
    """Greedy delta-debugging: drop children / hoist sub-segments while `pred` stays true."""
    changed = True
    while changed:
        changed = False
        def paths(e, p=()):
            if e["kind"] == "seg":
                for i, c in enumerate(e["es"]):
                    yield p + (i,)
                    yield from paths(c, p + (i,))
        for p in list(paths(tree)):
            t2 = copy.deepcopy(tree)
            node = t2
            for i in p[:-1]:
                node = node["es"][i]
            if p[-1] >= len(node["es"]):
                continue
            del node["es"][p[-1]]
            try:
                if pred(t2, beam, sub):
                    tree = t2
                    changed = True
                    break
            except Exception:
                pass
    return tree


# ---------------------------------------------------------------- leaf contract and end-to-end on real elements
def is_known_cavity_off(spec):
    return spec["cls"] == "Cavity" and spec["kw"].get("voltage") == 0.0


def has_cavity_off(spec):
    if spec["cls"] == "Segment":
        return any(has_cavity_off(c) for c in spec["es"])
    return is_known_cavity_off(spec)


def leaf_contract_real(run, n_per_class):
    """skippable => track(b) == apply transfer_map(b.energy), energy/charges/survival kept."""
    from cheetah.accelerator.element import Element
    bad = []
    for cls in realgen.CLASSES:
        for i in range(n_per_class):
            spec = realgen.gen_element(run.rng, cls=cls, name="e", method="cheetah" if i % 2 == 0 else None)
            for bt in ("particle", "parameter"):
                beam = realgen.gen_particle_beam(run.rng) if bt == "particle" else realgen.gen_parameter_beam(run.rng)
                try:
                    e = realgen.build(spec)
                    b = realgen.build_beam(beam)
                    if not e.is_skippable:
                        run.count("contract_nonskippable_" + cls)
                        continue
                    out = e.track(b)
                    ref = Element.track(e, b)   # the linear map applied by the base class (cheetah does not export Element at top level)
                    d = realgen.beams_close(out, ref, rtol=1e-11, atol=1e-14)
                except Exception as ex:  # noqa
                    run.count("contract_exception_" + cls)
                    continue
                run.add_case(["contract", spec, bt], True)
                run.count("contract_" + cls)
                if d:
                    bad.append({"kind": "leaf_contract", "spec": spec, "beam": beam, "diffs": d})
    return bad


VEC_POOL = {"length": [0.0, 0.3, 1.0], "k1": [0.0, 2.0, -3.0], "angle": [0.0, 0.05, -0.1], "k": [0.0, 1.0], "voltage": [0.0, 2e6, 3e6, -1e6],
            "tilt": [0.0, 0.2]}


def vectorise_some(rng, lat, nb=None):
    """give one or two elements of a real lattice a vectorised parameter (batch of 2 or 3 settings, zeros mixed in)"""
    nb = nb or rng.choice([2, 3])
    leaves = []

    def collect(e):
        if e["cls"] == "Segment":
            for c in e["es"]:
                collect(c)
        elif any(k in VEC_POOL for k in e["kw"]):
            leaves.append(e)
    collect(lat)
    for e in rng.sample(leaves, min(len(leaves), rng.choice([1, 2]))):
        k = rng.choice([k for k in e["kw"] if k in VEC_POOL])
        e["kw"][k] = [rng.choice(VEC_POOL[k]) for _ in range(nb)]
        if e["cls"] == "Cavity" and k == "voltage":
            e["kw"]["phase"] = rng.choice([150.0, 200.0, 0.0])


def targeted_lattices(rng):
    """Lattices aimed at the combinations the quantifier names explicitly: energy-changing elements with vectorised settings
    (some entries switched off), non-mergeable elements between mergeable runs, zero-length elements that act on the beam."""
    def D(n, L=0.5):
        return {"cls": "Drift", "name": n, "kw": {"length": L, "tracking_method": "cheetah"}}

    def Q(n, k1=2.0):
        return {"cls": "Quadrupole", "name": n, "kw": {"length": 0.2, "k1": k1, "tracking_method": "cheetah"}}

    def C(n, V, ph):
        return {"cls": "Cavity", "name": n, "kw": {"length": 1.0, "voltage": V, "phase": ph, "frequency": 1.3e9}}
    out = []
    for V, ph in (([0.0, 2e6, 3e6], 150.0), ([-1e6, -2e6], 0.0), ([0.0, -1e6], 0.0), (-2e6, 0.0), ([2e6, 0.0], 200.0)):
        out.append({"cls": "Segment", "name": "t", "es": [D("d1"), C("c1", V, ph), Q("q1"), D("d2")]})
        out.append({"cls": "Segment", "name": "t", "es": [D("d1"), {"cls": "Segment", "name": "inner", "es": [C("c1", V, ph), Q("q1", -1.0)]}, D("d2")]})
    out.append({"cls": "Segment", "name": "t", "es": [D("d1"), {"cls": "HorizontalCorrector", "name": "h", "kw": {"length": 0.0, "angle": 2e-3}},
                                                      {"cls": "VerticalCorrector", "name": "v", "kw": {"length": 0.0, "angle": [1e-3, 0.0, -1e-3]}}, Q("q1"), D("d2")]})
    return out


def e2e_real(run, n):
    """Segment.track vs fold of element.track; flattened; nest; cut; length -- on real lattices."""
    import cheetah
    bad = []
    targeted = targeted_lattices(run.rng)
    for i in range(n + 2 * len(targeted)):
        if i < 2 * len(targeted):
            lat = targeted[i // 2]
            run.count("e2e_targeted")
        else:
            lat = realgen.gen_lattice(run.rng, n_max=6, depth=2)
            if run.rng.random() < 0.3:
                vectorise_some(run.rng, lat)
                run.count("e2e_vectorised_elements")
        bt = ["particle", "parameter"][i % 2] if i < 2 * len(targeted) else run.rng.choice(["particle", "parameter"])
        beam = realgen.gen_particle_beam(run.rng) if bt == "particle" else realgen.gen_parameter_beam(run.rng)
        try:
            seg = realgen.build(lat)
            b = realgen.build_beam(beam)
            ref = fold_track(seg, b)
        except Exception:
            run.count("e2e_input_rejected")     # the elements themselves reject this input (e.g. Bmad-X with a ParameterBeam): unspecified
            continue
        try:
            out = seg.track(b)
        except Exception as ex:  # noqa -- element-by-element tracking works but Segment.track raises: a violation of the property
            bad.append({"kind": "e2e", "lattice": lat, "beam": beam, "diffs": {"fold": [("Segment.track raised " + type(ex).__name__ + ": " + str(ex)[:120], float("inf"))]}})
            continue
        if has_nan(ref):
            run.count("e2e_skipped_reference_has_nan")   # garbage in (e.g. Bmad-X bend at angle 0, a C09 finding): unspecified here
            continue
        run.add_case(["e2e", lat, bt], True)
        run.count("e2e_" + bt)
        d = realgen.beams_close(out, ref, rtol=1e-9, atol=1e-13)
        d2 = realgen.beams_close(seg.flattened().track(b), out, rtol=1e-9, atol=1e-13)
        # cut into two consecutive sub-cells
        k = run.rng.randrange(0, len(seg.elements) + 1)
        try:
            els = list(seg.elements)
            mid = cheetah.Segment(els[:k]).track(b) if k > 0 else b
            cut = cheetah.Segment(els[k:]).track(mid) if k < len(els) else mid
            d3 = realgen.beams_close(cut, out, rtol=1e-9, atol=1e-13)
            tot = sum(torch.as_tensor(e.length, dtype=torch.float64) for e in seg.flattened().elements)     # broadcasts vectorised lengths
            dl = (torch.as_tensor(seg.length, dtype=torch.float64) - tot).abs().max()
            d4 = [] if float(dl) <= 1e-12 * max(1.0, float(torch.as_tensor(tot).abs().max())) else [("length", float(dl))]
        except Exception:
            d3, d4 = [], []
        if d or d2 or d3 or d4:
            bad.append({"kind": "e2e", "lattice": lat, "beam": beam, "diffs": {"fold": d, "flattened": d2, "cut": d3, "length": d4}})
    return bad


def has_nan(beam):
    return any(bool(torch.isnan(t).any()) for t in beam.buffers())


# ---------------------------------------------------------------- element names that collide with attributes of the Segment
# Segment.__init__ publishes every child as `segment.<child name>`.  A child may carry ANY name: one that equals an attribute or a
# method of Segment / Element / nn.Module (inherited ones included: `forward` is what `segment(beam)` dispatches to) must not change
# what any of the public ways of tracking through the segment computes.  The names are read off the live classes on every run.
def live_attribute_names():
    """{name: where it comes from} for every attribute name of a Segment instance: class body of Segment, of Element, of nn.Module /
    object (inherited), and the instance attributes set by the constructors"""
    import cheetah
    from cheetah.accelerator.element import Element
    probe = cheetah.Segment([])
    inst = set(vars(probe)) | set(probe._modules) | set(probe._buffers) | set(probe._parameters)
    out = {}
    for n in sorted(set(dir(cheetah.Segment)) | inst):
        if n in vars(cheetah.Segment):
            out[n] = "segment_body"
        elif n in vars(Element):
            out[n] = "element_body"
        elif n in inst and not hasattr(cheetah.Segment, n):
            out[n] = "instance"
        elif n in vars(torch.nn.Module):
            out[n] = "module_body"
        else:
            out[n] = "inherited_other"
    return out


def _acting_element(rng, name):
    """an element that visibly acts on the beam, so that tracking through it alone differs from tracking through the lattice"""
    k = rng.randrange(5)
    if k == 0:
        return {"cls": "Drift", "name": name, "kw": {"length": rng.choice([0.25, 0.5, 1.0]), "tracking_method": "cheetah"}}
    if k == 1:
        return {"cls": "Quadrupole", "name": name, "kw": {"length": rng.choice([0.1, 0.2]), "k1": rng.choice([4.0, -3.0, 2.0]), "tracking_method": "cheetah"}}
    if k == 2:
        return {"cls": rng.choice(["HorizontalCorrector", "VerticalCorrector"]), "name": name, "kw": {"length": rng.choice([0.0, 0.1]), "angle": rng.choice([2e-3, -1e-3])}}
    if k == 3:
        return {"cls": "Cavity", "name": name, "kw": {"length": 1.0, "voltage": rng.choice([2e6, 5e6]), "phase": rng.choice([0.0, 30.0]), "frequency": 1.3e9}}
    return {"cls": "Solenoid", "name": name, "kw": {"length": 0.2, "k": rng.choice([1.0, -2.0])}}


def gen_reserved_lattice(rng, reserved, counter):
    """A lattice (flat or nested) some of whose elements / sub-segments are called like attributes of the Segment; all top-level names
    are distinct; the other elements have ordinary names."""
    def ordinary():
        counter[0] += 1
        e = _acting_element(rng, f"el{counter[0]}")
        if rng.random() < 0.15:
            e = {"cls": "BPM", "name": e["name"], "kw": {"is_active": True}}       # a non-mergeable neighbour
        return e
    pending = list(reserved)
    top = [ordinary() for _ in range(rng.randrange(2, 5))]
    shape = rng.choice(["flat", "flat", "inside_sub", "sub_named", "both"])
    if shape == "flat":
        for n in pending:
            top.insert(rng.randrange(len(top) + 1), _acting_element(rng, n))
    elif shape == "inside_sub":
        counter[0] += 1
        inner = [ordinary()] + [_acting_element(rng, n) for n in pending]
        rng.shuffle(inner)
        top.insert(rng.randrange(len(top) + 1), {"cls": "Segment", "name": f"sub{counter[0]}", "es": inner})
    elif shape == "sub_named":
        inner = [ordinary(), ordinary()] + [_acting_element(rng, n) for n in pending[1:]]
        top.insert(rng.randrange(len(top) + 1), {"cls": "Segment", "name": pending[0], "es": inner})
    else:
        counter[0] += 1
        inner = [ordinary(), _acting_element(rng, pending[0])]
        rng.shuffle(inner)
        top.insert(rng.randrange(len(top) + 1), {"cls": "Segment", "name": f"sub{counter[0]}", "es": inner})
        for n in pending:                    # the same reserved name at both levels
            top.insert(rng.randrange(len(top) + 1), _acting_element(rng, n))
    return {"cls": "Segment", "name": "line", "es": top}, shape


def _spec_leaves(spec):
    if spec["cls"] == "Segment":
        return [l for c in spec["es"] for l in _spec_leaves(c)]
    return [spec]


def _build_as(spec, K):
    if spec["cls"] == "Segment":
        return K([_build_as(c, K) for c in spec["es"]], name=spec.get("name"))
    return realgen.build(spec)


def reserved_check(lat, beam, subclass, cut=None, reserved=()):
    """All public ways of tracking through the lattice vs the fold of element.track over its leaves (built separately from the spec).
    Returns {entry point: diffs}; empty = fine.  `subclass`: build every (sub-)segment as a trivial user subclass of Segment."""
    import cheetah
    if subclass:
        class MySeg(cheetah.Segment):
            pass
        K = MySeg
    else:
        K = cheetah.Segment
    b = realgen.build_beam(beam)
    ref = b
    for leaf in _spec_leaves(lat):
        ref = realgen.build(leaf).track(ref)
    if has_nan(ref):
        return None
    kids = [_build_as(c, K) for c in lat["es"]]
    seg = K(list(kids), name=lat.get("name"))
    names = [c["name"] for c in lat["es"]]
    k = len(names) // 2 if cut is None else cut

    def in_turn(call):
        def f():
            cur = b
            parts = ([seg.subcell(names[0], names[k - 1])] if k > 0 else []) + ([seg.subcell(names[k], names[-1])] if k < len(names) else [])
            for part in parts:
                cur = part(cur) if call else part.track(cur)
            return cur
        return f

    def children_called():
        cur = b
        for c in kids:
            cur = c(cur)
        return cur
    entries = {"segment.track(beam)": lambda: seg.track(b), "segment(beam)": lambda: seg(b), "segment.forward(beam)": lambda: seg.forward(b),
               "segment.flattened().track(beam)": lambda: seg.flattened().track(b), "segment.flattened()(beam)": lambda: seg.flattened()(b),
               "subcell(first..k-1).track then subcell(k..last).track": in_turn(False), "subcell(first..k-1)(beam) then subcell(k..last)(beam)": in_turn(True),
               "children called as modules in turn": children_called}
    bad = {}
    for what, f in entries.items():
        try:
            d = realgen.beams_close(f(), ref, rtol=1e-9, atol=1e-13)
        except Exception as ex:  # noqa -- element-by-element tracking works, this entry point raises
            d = [("raised " + type(ex).__name__ + ": " + str(ex)[:120], float("inf"))]
        if d:
            bad[what] = d
    try:
        tot = sum(float(l["kw"].get("length", 0.0)) for l in _spec_leaves(lat))
        if abs(float(seg.length) - tot) > 1e-12 * max(1.0, abs(tot)):
            bad["segment.length"] = [("length", abs(float(seg.length) - tot))]
    except Exception as ex:  # noqa
        bad["segment.length"] = [("raised " + type(ex).__name__ + ": " + str(ex)[:120], float("inf"))]
    # by-name handles of the ordinarily named children still work
    for c, obj in zip(lat["es"], kids):
        if c["name"] in reserved:
            continue
        try:
            got = getattr(seg, c["name"])
        except Exception as ex:  # noqa
            got = ex
        if got is not obj:
            bad[f"segment.{c['name']}"] = [("by-name handle is not the element: " + repr(got)[:80], float("inf"))]
    return bad


def reserved_name_stage(run, rounds):
    """every attribute name of a live Segment instance is used as an element / sub-segment name at least once per round"""
    where = live_attribute_names()
    run.cov["reserved_names_live"] = {w: sum(1 for v in where.values() if v == w) for w in sorted(set(where.values()))}
    bad = []
    counter = [0]
    for rd in range(rounds):
        names = sorted(where)
        run.rng.shuffle(names)
        i = 0
        while i < len(names):
            g = names[i:i + run.rng.choice([2, 3, 4, 5, 6])]
            i += len(g)
            lat, shape = gen_reserved_lattice(run.rng, g, counter)
            bt = run.rng.choice(["particle", "parameter"])
            beam = realgen.gen_particle_beam(run.rng, energy=1e8) if bt == "particle" else realgen.gen_parameter_beam(run.rng, energy=1e8)
            cut = run.rng.randrange(0, len(lat["es"]) + 1)
            for subclass in (False, True):
                try:
                    res = reserved_check(lat, beam, subclass, cut, g)
                except Exception as ex:  # noqa -- the segment could not even be constructed although its elements track alone
                    res = {"constructing the segment": [("raised " + type(ex).__name__ + ": " + str(ex)[:120], float("inf"))]}
                if res is None:
                    run.count("reserved_skipped_reference_has_nan")
                    continue
                run.add_case(["reserved", lat, bt, subclass], True)
                run.count("reserved_shape_" + shape)
                run.count("reserved_" + ("user_subclass" if subclass else "Segment"))
                for n in g:
                    run.count("reserved_from_" + where[n])
                if res:
                    bad.append({"kind": "reserved_names", "lattice": lat, "beam": beam, "segment_class": "trivial user subclass of Segment" if subclass else "Segment",
                                "cut": cut, "colliding_names": list(g), "diffs": res})
    return bad


def shrink_reserved(item):
    """keep one colliding name (the others become ordinary names) and drop elements while some entry point still differs"""
    subclass = item["segment_class"] != "Segment"

    def fails(lat, names):
        try:
            r = reserved_check(lat, item["beam"], subclass, None, names)
        except Exception:  # noqa
            return True
        return bool(r)

    def rename(spec, old, new):
        s = dict(spec)
        if s["name"] == old:
            s["name"] = new
        if s["cls"] == "Segment":
            s["es"] = [rename(c, old, new) for c in s["es"]]
        return s
    lat, names = item["lattice"], list(item["colliding_names"])
    for j, n in enumerate(list(names)):
        if len(names) == 1:
            break
        l2 = rename(lat, n, f"plain{j}")
        rest = [m for m in names if m != n]
        if fails(l2, rest):
            lat, names = l2, rest
    def all_names(spec):
        return [spec["name"]] + ([n for c in spec["es"] for n in all_names(c)] if spec["cls"] == "Segment" else [])

    def paths(e, pth=()):
        if e["cls"] == "Segment":
            for i, c in enumerate(e["es"]):
                yield pth + (i,)
                yield from paths(c, pth + (i,))
    changed = True
    while changed:
        changed = False
        for pth in list(paths(lat)):
            l2 = copy.deepcopy(lat)
            node = l2
            for i in pth[:-1]:
                node = node["es"][i]
            del node["es"][pth[-1]]
            if len(l2["es"]) >= 1 and any(n in names for n in all_names(l2)[1:]) and fails(l2, names):
                lat, changed = l2, True
                break
    try:
        res = reserved_check(lat, item["beam"], subclass, None, names)
    except Exception as ex:  # noqa
        res = {"constructing the segment": [("raised " + type(ex).__name__ + ": " + str(ex)[:120], float("inf"))]}
    return dict(item, lattice=lat, colliding_names=names, cut=None, diffs=res,
                relation="every public way of tracking through a Segment (track, call, forward, flattened, sub-cells in turn, children called as modules; "
                         "also for a trivial user subclass) == fold of element.track over its elements, whatever the elements are called")


def classify_real(run, bad):
    """known finding F1 (zero-voltage Cavity: track != its own transfer map) vs new violations"""
    new = []
    for item in bad:
        spec = item.get("spec") or item.get("lattice")
        if has_cavity_off(spec):
            run.known("Cavity(voltage=0) is skippable but its track() is not its transfer_map (second-order tau term): differs alone vs merged inside a Segment [F1]")
        else:
            new.append(item)
    return new


def replay_known(run):
    """Replay the stored input of each listed finding on the implementation."""
    import cheetah
    for f in common.load_known_findings(PID):
        if f.get("status") != "known":
            continue
        r = f["replay"]
        try:
            seg = realgen.build(r["lattice"])
            b = realgen.build_beam(r["beam"])
            d = realgen.beams_close(seg.track(b), fold_track(seg, b), rtol=1e-9, atol=1e-13)
        except Exception as ex:
            d = [("exception", str(ex))]
        if d:
            run.known(f["what"])
        else:
            run.cov["known_findings_not_reproduced"].append(f["id"])


def main(tier, replay=None):
    run = common.Run(PID, tier)
    common.setup_python_env()
    thorough = tier == "thorough"
    run.cov["rule"] = ("random integer-valued element trees (depth<=%d, nested/empty segments, repeated names; leaves: energy-dependent "
                       "skippable test maps, CustomTransferMap, Marker, non-linear energy-changing non-skippable test element) x both beam types, "
                       "exact comparison of Segment.track/flattened/subcell/length/is_skippable with vm_compute of the Coq model; plus leaf-contract "
                       "and end-to-end runs on real elements. Non-trivial = >=2 leaves and at least one non-identity leaf; distinct by full case content."
                       % (6 if thorough else 4))
    if replay:
        return do_replay(run, replay)
    proof_ok = run.proof_stage()
    # second tie (structural): segment.py, CustomTransferMap.from_merging_elements and Element.track are re-translated from
    # REPO's source text and proved equal to Lattice/{Track,Merge,Filter}.v / Beam/Moments.v (Gen/SegGenEquiv.v)
    import translate_stage
    trs = translate_stage.translator_obligation_seg(run)
    if trs["status"] != "ok":
        run.notes.append("translator obligation (segment): " + json.dumps(translate_stage.replay_fields_seg(trs))[:600])
    ok_aux, log_aux = common.coq_build("theories/Lattice/ZCheck.vo")     # used by the generated case files, not in the closure of the Props file
    if not ok_aux:
        proof_ok, run.proof_problem = False, "coq build of theories/Lattice/ZCheck.vo failed: " + log_aux[-800:]
    if not proof_ok:
        run.notes.append(run.proof_problem)

    cases, failing, impl_fail = structural(run, 6000 if thorough else 300, 6 if thorough else 4)
    bad_real = leaf_contract_real(run, 40 if thorough else 4) + e2e_real(run, 2000 if thorough else 80)
    replay_known(run)
    new_real = classify_real(run, bad_real)
    # element / sub-segment names equal to attributes of the Segment, through every public way of tracking (after the older stages,
    # which keep their random stream)
    bad_res = reserved_name_stage(run, 6 if thorough else 1)
    run.cov["tested_only"] = ["leaf contract of real element classes vs the code (float tolerance 1e-11)",
                              "end-to-end Segment.track vs fold on real lattices (float tolerance 1e-9)",
                              "every attribute name of a live Segment instance (dir(Segment) + instance attributes) as an element / sub-segment name: "
                              "track / call / forward / flattened / sub-cells in turn / children called as modules, Segment and a trivial user subclass, "
                              "vs the fold of element.track (float tolerance 1e-9); by-name handles of the other children (Python attribute lookup is outside the model)"]

    # ---- verdict
    if impl_fail:
        i = impl_fail[0]
        tree, beam, sub, obs = cases[i]

        if obs.get("sub_expected") is not None and obs["sub"]["names"] != obs["sub_expected"] and obs["out"] == obs["fold_out"] == obs["flat_out"]:
            run.violation({"kind": "integer_lattice", "tree": tree, "beam": beam, "subcell": sub, "subcell_names": obs["sub"]["names"],
                           "expected_slice": obs["sub_expected"], "relation": "subcell(start, end) is the contiguous slice of the children from start to end"})
        else:
            def pred(t, b, s):
                o = observe(t, b, None)
                return o["out"] != o["fold_out"] or o["out"] != o["flat_out"]
            tree = shrink_tree(tree, beam, None, pred)
            o = observe(tree, beam, None)
            run.violation({"kind": "integer_lattice", "tree": tree, "beam": beam, "segment_track": o["out"], "fold_of_element_tracks": o["fold_out"],
                           "flattened_track": o["flat_out"], "relation": "Segment.track(b) == fold(element.track) == flattened().track(b)"})
    elif new_real:
        run.violation(dict(new_real[0], relation="Segment.track == ordered composition of element.track (real elements)"))
    elif bad_res:
        run.violation(shrink_reserved(bad_res[0]))
    elif failing:
        # model and implementation disagree but the property oracle found no failing input
        i = failing[0]
        tree, beam, sub, obs = cases[i]
        run.violation({"kind": "correspondence", "broken": "coq model Lattice/ZInst.v (c01_check) disagrees with Segment on this case",
                       "tree": tree, "beam": beam, "subcell": sub, "observed": obs}, no_input=True)
    elif trs["status"] != "ok":
        # the structural source no longer translates to the proved model; none of this run's oracles found a failing input
        run.violation(translate_stage.replay_fields_seg(trs), no_input=True)
    elif not proof_ok:
        run.violation({"kind": "proof", "broken": run.proof_problem}, no_input=True)
    return run.finish("proof")


def do_replay(run, path):
    r = json.loads(open(path).read())
    if r.get("kind") == "integer_lattice" or r.get("kind") == "correspondence":
        o = observe(r["tree"], r["beam"], r.get("subcell"))
        ok = o["out"] == o["fold_out"] == o["flat_out"]
        print("replay:", "property holds on this input" if ok else "property FAILS on this input")
        print(json.dumps({"segment_track": o["out"], "fold": o["fold_out"], "flattened": o["flat_out"]}))
        return 0 if ok else 1
    if r.get("kind") == "reserved_names":
        d = reserved_check(r["lattice"], r["beam"], r.get("segment_class") != "Segment", r.get("cut"), r.get("colliding_names", []))
        print("replay:", "property holds on this input" if not d else f"property FAILS on this input: {json.dumps(d)[:1500]}")
        return 1 if d else 0
    spec = r.get("lattice") or {"cls": "Segment", "name": "s", "es": [r["spec"]]}
    seg = realgen.build(spec)
    b = realgen.build_beam(r["beam"])
    d = realgen.beams_close(seg.track(b), fold_track(seg, b), rtol=1e-9, atol=1e-13)
    print("replay:", "property holds on this input" if not d else f"property FAILS on this input: {d}")
    return 1 if d else 0
