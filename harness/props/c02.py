"""C02 -- Linear maps equal the exact flow of each element's linear optics."""
import copy
import json
import math
import time

import torch

import common
import optics
import realgen

PID = "C02"
PI = math.pi
ENERGIES = [1.5e6, 5e6, 2e7, 1e8, 6e9, 5e10]
TILTS = [0.0, 0.1, -0.1, PI / 4, PI / 2]
MIS = [[0.0, 0.0], [1e-3, 0.0], [0.0, -2e-3], [5e-4, 3e-4]]


# ---------------------------------------------------------------- parameter points
def _spec(cls, **kw):
    return {"cls": cls, "name": "e", "kw": kw}


def forced_points():
    """special-value points that every run contains (exact zeros, both signs, tilts, misalignments, L = 0 / small / typical)"""
    P = []
    for L in (0.0, 1e-3, 0.5, 2.0):
        P.append(_spec("Drift", length=L))
    P += [_spec("Quadrupole", length=0.25, k1=2.0, misalignment=[0.0, 0.0], tilt=0.0),
          _spec("Quadrupole", length=0.5, k1=-3.0, misalignment=[0.0, 0.0], tilt=0.0),
          _spec("Quadrupole", length=1.0, k1=0.0, misalignment=[0.0, 0.0], tilt=0.0),
          _spec("Quadrupole", length=2.0, k1=10.0, misalignment=[1e-3, 0.0], tilt=0.0),
          _spec("Quadrupole", length=0.5, k1=-10.0, misalignment=[0.0, 0.0], tilt=PI / 4),
          _spec("Quadrupole", length=0.5, k1=-3.0, misalignment=[1e-3, -2e-3], tilt=PI / 4),
          _spec("Quadrupole", length=0.25, k1=0.5, misalignment=[0.0, -2e-3], tilt=PI / 2),
          _spec("Quadrupole", length=0.0, k1=2.0, misalignment=[5e-4, 3e-4], tilt=0.1),
          _spec("Quadrupole", length=0.01, k1=1e-3, misalignment=[0.0, 0.0], tilt=-0.1),
          _spec("Quadrupole", length=1.0, k1=0.0, misalignment=[5e-4, 3e-4], tilt=0.1),
          _spec("Quadrupole", length=0.5, k1=-1e-3, misalignment=[0.0, 0.0], tilt=0.0)]
    dip = dict(length=0.5, angle=0.3, k1=0.0, dipole_e1=0.05, dipole_e2=-0.1, tilt=0.0, gap=0.02, fringe_integral=0.5)
    P += [_spec("Dipole", **dip),
          _spec("Dipole", **dict(dip, tilt=0.1, k1=0.5)),
          _spec("Dipole", **dict(dip, angle=-0.3, k1=-1.0, tilt=PI / 2, fringe_integral_exit=0.4)),
          _spec("Dipole", **dict(dip, angle=0.0, k1=0.5, dipole_e1=0.0, dipole_e2=0.0)),
          _spec("Dipole", **dict(dip, angle=0.0, k1=0.0)),
          _spec("Dipole", **dict(dip, angle=0.01, length=1.0, k1=-1.0, gap=0.0, fringe_integral=0.0)),
          _spec("Dipole", **dict(dip, length=0.0, angle=0.0)),
          _spec("Dipole", **dict(dip, length=0.0, angle=0.1, dipole_e1=0.0, dipole_e2=0.0, gap=0.0, fringe_integral=0.0)),
          _spec("Dipole", **dict(dip, angle=-0.02, dipole_e1=-0.1, dipole_e2=0.05, tilt=-0.1, k1=-0.0))]
    rb = dict(length=0.5, angle=0.3, k1=0.0, rbend_e1=0.0, rbend_e2=0.0, tilt=0.0, gap=0.02, fringe_integral=0.5)
    P += [_spec("RBend", **rb), _spec("RBend", **dict(rb, angle=-0.1, rbend_e1=0.05, rbend_e2=-0.1, k1=0.5, tilt=PI / 4)),
          _spec("RBend", **dict(rb, angle=0.0, rbend_e1=0.05))]
    for k, L, mis in ((0.0, 0.5, [0.0, 0.0]), (0.5, 1.0, [0.0, 0.0]), (-1.0, 0.25, [1e-3, 0.0]), (3.0, 2.0, [5e-4, 3e-4]), (3.0, 0.0, [0.0, -2e-3]),
                      (0.0, 1.0, [1e-3, 0.0])):
        P.append(_spec("Solenoid", length=L, k=k, misalignment=mis))
    for cls in ("HorizontalCorrector", "VerticalCorrector"):
        for L, a in ((0.0, 1e-3), (0.1, -2e-3), (1.0, 0.0), (0.5, 0.01)):
            P.append(_spec(cls, length=L, angle=a))
    for L in (0.0, 0.5, 2.0):
        P.append(_spec("Undulator", length=L, is_active=False))
    for L in (0.5, 1.0):
        P.append(_spec("Cavity", length=L, voltage=0.0, phase=0.0, frequency=1.3e9))
    P += [_spec("Marker"), _spec("BPM", is_active=False),
          _spec("Screen", resolution=[6, 4], pixel_size=[1e-3, 1e-3], binning=1, misalignment=[1e-3, 0.0], is_blocking=False, is_active=False),
          _spec("Aperture", x_max=1e-3, y_max=1e-3, shape="rectangular", is_active=True)]
    return P


def random_point(rng):
    cls = rng.choice(["Drift", "Quadrupole", "Quadrupole", "Quadrupole", "Dipole", "Dipole", "Dipole", "RBend", "Solenoid", "Solenoid",
                      "HorizontalCorrector", "VerticalCorrector", "Undulator", "Cavity"])
    L = rng.choice([0.0, 1e-3, 0.01, 0.1, 0.25, 0.5, 1.0, 2.0, round(rng.uniform(0.05, 3.0), 3)])
    if cls == "Drift":
        return _spec(cls, length=L)
    if cls == "Quadrupole":
        k1 = rng.choice([0.0, 1e-3, -1e-3, 0.5, -0.5, 2.0, -3.0, 10.0, -10.0, round(rng.uniform(-12, 12), 3)])
        return _spec(cls, length=L, k1=k1, misalignment=rng.choice(MIS), tilt=rng.choice(TILTS + [round(rng.uniform(-1.5, 1.5), 3)]))
    if cls in ("Dipole", "RBend"):
        e = "dipole_e" if cls == "Dipole" else "rbend_e"
        L = L if L >= 0.1 else rng.choice([0.5, 1.0])
        kw = dict(length=L, angle=rng.choice([0.0, 0.01, -0.02, 0.1, -0.3, 0.5, round(rng.uniform(-0.6, 0.6), 3)]),
                  k1=rng.choice([0.0, 0.0, 0.5, -1.0, 2.0]), tilt=rng.choice(TILTS), gap=rng.choice([0.0, 0.02]),
                  fringe_integral=rng.choice([0.0, 0.5]))
        kw[e + "1"] = rng.choice([0.0, 0.05, -0.1])
        kw[e + "2"] = rng.choice([0.0, 0.05, -0.1])
        if rng.random() < 0.3:
            kw["fringe_integral_exit"] = rng.choice([0.0, 0.4])
            kw["gap_exit"] = rng.choice([0.0, 0.03])
        return _spec(cls, **kw)
    if cls == "Solenoid":
        return _spec(cls, length=L, k=rng.choice([0.0, 0.5, -1.0, 3.0, round(rng.uniform(-3, 3), 3)]), misalignment=rng.choice(MIS))
    if cls in ("HorizontalCorrector", "VerticalCorrector"):
        return _spec(cls, length=L, angle=rng.choice([0.0, 1e-3, -2e-3, 0.01]))
    if cls == "Undulator":
        return _spec(cls, length=L, is_active=rng.choice([False, True]))
    return _spec("Cavity", length=L if L > 0 else 1.0, voltage=0.0, phase=rng.choice([0.0, 30.0]), frequency=1.3e9)


# ---------------------------------------------------------------- elements reached through a HISTORY of assignments (round 6, C02-7)
# The property speaks about the element's CURRENT parameter values.  A share of the points is therefore not built freshly: the element
# is constructed with OTHER values (spec["init_kw"]), optionally used once, and then every assignable parameter is re-assigned through
# the public attribute / property setter to the FINAL values spec["kw"] (random order).  The reference map is that of spec["kw"].
ALT = {"length": [0.0, 0.1, 0.3, 0.8, 1.5, 2.5], "angle": [0.0, 0.2, -0.15, 0.4, 2e-3], "k1": [0.0, 1.0, -2.0, 6.0], "tilt": [0.0, 0.3, -0.7, PI / 2],
       "dipole_e1": [0.0, 0.2, -0.05], "dipole_e2": [0.0, 0.2, -0.05], "rbend_e1": [0.0, 0.2, -0.05], "rbend_e2": [0.0, 0.2, -0.05],
       "gap": [0.0, 0.01, 0.04], "gap_exit": [0.0, 0.01, 0.04], "fringe_integral": [0.0, 0.3, 0.6], "fringe_integral_exit": [0.0, 0.3, 0.6],
       "k": [0.0, 1.5, -0.5], "misalignment": [[0.0, 0.0], [2e-3, -1e-3], [0.0, 4e-4]], "voltage": [0.0, 1e6, -2e6], "phase": [0.0, 45.0, -90.0],
       "frequency": [1.3e9, 2.856e9], "is_active": [False, True]}
HISTORY_CLASSES = ("Drift", "Quadrupole", "Dipole", "RBend", "Solenoid", "HorizontalCorrector", "VerticalCorrector", "Undulator", "Cavity")


def with_history(rng, spec, force=None):
    """the same final point, reached by construction with other values + re-assignment of every assignable parameter.
    `force`: {key: initial value} pinned by a forced point."""
    if spec["cls"] not in HISTORY_CLASSES:
        return spec
    s = copy.deepcopy(spec)
    kw = s["kw"]
    if s["cls"] in ("Dipole", "RBend"):
        # after construction fringe_integral_exit / gap_exit are tensors of their own (they follow fringe_integral / gap only inside
        # __init__): the final point names them explicitly so that "every parameter re-assigned" determines the element
        kw.setdefault("fringe_integral_exit", kw.get("fringe_integral", 0.0))
        if kw["fringe_integral_exit"] is None:
            kw["fringe_integral_exit"] = kw.get("fringe_integral", 0.0)
        if kw.get("gap_exit") is None:
            kw["gap_exit"] = kw.get("gap", 0.0)
    init = {}
    for k, v in kw.items():
        pool = [a for a in ALT.get(k, []) if a != v]
        if s["cls"] in ("Dipole", "RBend") and k == "length":
            pool = [a for a in pool if a == 0.0 or a >= 0.1]
        init[k] = rng.choice(pool) if (pool and (k in realgen.TENSOR_KW or k in realgen.ASSIGNABLE_PLAIN)) else v
    init.update(force or {})
    order = [k for k in kw if k in realgen.TENSOR_KW or k in realgen.ASSIGNABLE_PLAIN]
    rng.shuffle(order)
    if s["cls"] == "RBend" and "angle" in order:
        # RBend stores dipole_e = rbend_e + angle/2 when rbend_e is ASSIGNED: the rectangular pole-face angles are given after the angle
        order.remove("angle")
        order.insert(0, "angle")
    s["init_kw"], s["order"], s["warm"] = init, order, rng.random() < 0.5
    return s


def _build(spec, E=None):
    return realgen.build_history(spec, warm_energy=E)


def forced_history_points(rng):
    dip = dict(length=0.5, angle=0.3, k1=0.0, dipole_e1=0.05, dipole_e2=-0.1, tilt=0.0, gap=0.02, fringe_integral=0.5)
    rb = dict(length=0.5, angle=-0.2, k1=0.0, rbend_e1=0.05, rbend_e2=-0.1, tilt=0.1, gap=0.02, fringe_integral=0.5)
    P = [(_spec("Dipole", **dip), {"length": 1.25}), (_spec("Dipole", **dict(dip, length=2.0, k1=0.4, tilt=0.1)), {"length": 0.0}),
         (_spec("Dipole", **dict(dip, angle=-0.25)), {"angle": 0.0}), (_spec("RBend", **rb), {"length": 0.8}),
         (_spec("RBend", **dict(rb, angle=0.3, k1=0.5)), {"angle": -0.1}),
         (_spec("Quadrupole", length=0.5, k1=-3.0, misalignment=[1e-3, -2e-3], tilt=PI / 4), {"k1": 0.0, "length": 0.0}),
         (_spec("Quadrupole", length=0.25, k1=0.0, misalignment=[0.0, 0.0], tilt=0.0), {"k1": 6.0, "tilt": 0.3}),
         (_spec("Solenoid", length=1.0, k=0.5, misalignment=[5e-4, 3e-4]), {"k": 0.0}),
         (_spec("HorizontalCorrector", length=0.1, angle=-2e-3), {"angle": 0.0}), (_spec("VerticalCorrector", length=0.5, angle=0.01), {"length": 0.0}),
         (_spec("Cavity", length=1.0, voltage=0.0, phase=30.0, frequency=1.3e9), {"voltage": 1e6}),
         (_spec("Drift", length=2.0), {"length": 0.0}), (_spec("Undulator", length=0.5, is_active=False), {"length": 2.5})]
    return [with_history(rng, s, force=f) for s, f in P]


# ---- the two tracking methods of one element agree to first order around the design orbit (where both exist)
def method_consistency(spec, E):
    """Drift / Quadrupole / Dipole / RBend have a second tracking method (Bmad-X).  Both describe the same magnet, so its response to a
    probe displaced by a = 1e-6 along each phase-space axis must agree with transfer_map to first order (second-order terms are
    O(a^2)): list of (probe axis, coordinate, bmadx, linear, tol).  Compared where Bmad-X models the same physics: k1 = 0 for bends
    (its body has no gradient), angle != 0 and length != 0 (F8 / thin branch), gap_exit == gap."""
    import cheetah
    cls, kw = spec["cls"], spec["kw"]
    if cls not in ("Drift", "Quadrupole", "Dipole", "RBend") or kw.get("length", 0.0) == 0.0:
        return None
    if cls in ("Dipole", "RBend") and (kw.get("k1", 0.0) != 0.0 or kw.get("angle", 0.0) == 0.0 or abs(kw["angle"]) > 1.0
                                       or (kw.get("gap_exit") is not None and kw["gap_exit"] != kw.get("gap", 0.0))):
        return None
    if cls == "Quadrupole" and (abs(kw.get("k1", 0.0)) * kw["length"] ** 2 > 30 or any(kw.get("misalignment") or [0.0])):
        return None       # a misaligned quadrupole has a genuine second-order (offset x delta) term the linear map does not carry
    el = _build(spec, E)
    tm = el.transfer_map(torch.tensor(float(E), dtype=torch.float64))
    a = 1e-6
    P = torch.zeros(6, 7, dtype=torch.float64)
    P[:, 6] = 1.0
    for i in range(6):
        P[i, i] = a
    lin = P @ tm.T
    el.tracking_method = "bmadx"
    try:
        out = el.track(cheetah.ParticleBeam(P.clone(), torch.tensor(float(E), dtype=torch.float64), dtype=torch.float64)).particles
    finally:
        el.tracking_method = "cheetah"
    if not bool(torch.isfinite(out).all()):
        return None
    bad = []
    absmap = tm.abs()
    for i in range(6):
        for j in range(6):
            # first-order scale of coordinate j for this probe + everything a second-order term can contribute: a^2 * (1 + |R|_max)^2 * 1e2
            tol = 1e-6 * a * (float(absmap[j, i]) + 1.0) + 1e3 * a * a * (1.0 + float(absmap[:6, :6].max())) ** 2
            if not abs(float(out[i, j] - lin[i, j])) <= tol:
                bad.append((i, j, float(out[i, j]), float(lin[i, j]), tol))
    return bad


def unspecified(spec):
    """points the property does not speak about: kx2 = k1' + hx^2 at (or numerically at) zero"""
    if spec["cls"] in ("Dipole", "RBend"):
        kw = spec["kw"]
        L, a, k1 = kw["length"], kw["angle"], kw.get("k1", 0.0)
        if L != 0:
            hx = a / L
            k1g = 1e-12 if k1 == 0 else k1
            if abs(k1g + hx * hx) < 0.05 * (abs(k1g) + hx * hx):
                return True
    return False


# ---------------------------------------------------------------- the property oracle (implementation only, model-independent)
def _mm(A, B):
    return [[sum(A[i][k] * B[k][j] for k in range(7)) for j in range(7)] for i in range(7)]


def _eye():
    return [[1.0 if i == j else 0.0 for j in range(7)] for i in range(7)]


def expm(A, s):
    """exp(s A) by scaling and squaring of a 24-term Taylor series, pure Python floats"""
    nrm = max(sum(abs(x) for x in row) for row in A) * abs(s)
    k = 0
    while nrm > 0.25:
        nrm /= 2
        k += 1
    h = s / (2 ** k)
    term = _eye()
    acc = _eye()
    for n in range(1, 25):
        term = [[x * h / n for x in row] for row in _mm(term, A)]
        acc = [[acc[i][j] + term[i][j] for j in range(7)] for i in range(7)]
    for _ in range(k):
        acc = _mm(acc, acc)
    return acc


def gen_sbend(kx, ky, h, beta, ig):
    """S6 . Hess(H),  H = (px^2+py^2)/2 + kx x^2/2 + ky y^2/2 - h x delta/beta + ig delta^2/(2 beta^2),  S6 = diag(J2, J2, -J2)"""
    A = [[0.0] * 7 for _ in range(7)]
    A[0][1] = 1.0
    A[1][0] = -kx
    A[1][5] = h / beta
    A[2][3] = 1.0
    A[3][2] = -ky
    A[4][0] = h / beta
    A[4][5] = -ig / beta ** 2
    return A


def gen_sol(k, beta, ig):
    """H = ((px + k y)^2 + (py - k x)^2)/2 + ig delta^2/(2 beta^2)"""
    A = [[0.0] * 7 for _ in range(7)]
    A[0][1], A[0][2] = 1.0, k
    A[1][0], A[1][3] = -k * k, k
    A[2][0], A[2][3] = -k, 1.0
    A[3][1], A[3][2] = -k, -k * k
    A[4][5] = -ig / beta ** 2
    return A


def _rot(t):
    c, s = math.cos(t), math.sin(t)
    R = _eye()
    R[0][0] = R[1][1] = R[2][2] = R[3][3] = c
    R[0][2] = R[1][3] = s
    R[2][0] = R[3][1] = -s
    return R


def _shift(mx, my):
    R = _eye()
    R[0][6], R[2][6] = mx, my
    return R


def _edge(h, e, phi):
    R = _eye()
    R[1][0] = h * math.tan(e)
    R[3][2] = -h * math.tan(e - phi)
    return R


def expected_map(p, E):
    """the exact flow of the element's linear optics, from the Hamiltonian generator by a matrix-exponential series"""
    cls = p["cls"]
    if cls in optics.IDENTITY_CLASSES:
        return _eye()
    _, ig, beta = optics.rel(E)
    L = p["L"]
    drift = gen_sbend(0.0, 0.0, 0.0, beta, ig)
    if cls in ("Drift", "Undulator", "Cavity"):
        return expm(drift, L)
    if cls in ("HorizontalCorrector", "VerticalCorrector"):
        K = _eye()
        K[1 if cls == "HorizontalCorrector" else 3][6] = p["angle"]
        return _mm(K, expm(drift, L))
    if cls == "Quadrupole":
        M = expm(gen_sbend(p["k1"], -p["k1"], 0.0, beta, ig), L)
        M = _mm(_rot(-p["tilt"]), _mm(M, _rot(p["tilt"])))
        return _mm(_shift(p["mx"], p["my"]), _mm(M, _shift(-p["mx"], -p["my"])))
    if cls == "Solenoid":
        M = expm(gen_sol(p["k"], beta, ig), L)
        return _mm(_shift(p["mx"], p["my"]), _mm(M, _shift(-p["mx"], -p["my"])))
    if cls in ("Dipole", "RBend"):
        h = 0.0 if L == 0 else p["angle"] / L
        M = expm(gen_sbend(p["k1"] + h * h, -p["k1"], h, beta, ig), L)

        def phi(fi, e):
            return fi * h * p["gap"] / math.cos(e) * (1 + math.sin(e) ** 2)
        M = _mm(_edge(h, p["e2"], phi(p["fint_exit"], p["e2"])), _mm(M, _edge(h, p["e1"], phi(p["fint"], p["e1"]))))
        return _mm(_rot(-p["tilt"]), _mm(M, _rot(p["tilt"])))
    raise optics.BrokenCorrespondence(f"no oracle for {cls}")


def spec_params(spec, p):
    """The reference map is computed from the values the element was CONSTRUCTED with (the spec), not from what the built object reports:
    a constructor that stores another value than it was given (e.g. RBend deriving the exit pole-face angle from rbend_e1) must show up as
    a deviation of the map.  Parameters the spec does not give keep the value read from the element (defaults)."""
    kw, q = spec["kw"], dict(p)
    if q.get("cls") in optics.IDENTITY_CLASSES:
        return q
    direct = {"length": "L", "k1": "k1", "angle": "angle", "tilt": "tilt", "k": "k", "gap": "gap", "fringe_integral": "fint", "dipole_e1": "e1",
              "dipole_e2": "e2"}
    for a, b in direct.items():
        if a in kw and kw[a] is not None and b in q:
            q[b] = float(kw[a])
    if "misalignment" in kw and "mx" in q:
        q["mx"], q["my"] = float(kw["misalignment"][0]), float(kw["misalignment"][1])
    if spec["cls"] == "RBend":      # documented relation: pole-face rotation of a rectangular bend = rbend_e + angle / 2
        for a, b in (("rbend_e1", "e1"), ("rbend_e2", "e2")):
            if kw.get(a) is not None:
                q[b] = float(kw[a]) + float(kw.get("angle", 0.0)) / 2
    if "fint_exit" in q:
        fx = kw.get("fringe_integral_exit")
        q["fint_exit"] = float(fx) if fx is not None else q.get("fint", q["fint_exit"])
    return q


def oracle(spec, E):
    """list of (i, j, observed, expected, tol) where transfer_map deviates from the exact flow beyond 1e-9 relative"""
    e = _build(spec, E)
    p = spec_params(spec, optics.params(e))
    v = optics.observe(e, E)
    m = optics.model(e, E)
    x = expected_map(p, E)
    bad = []
    gb = optics.guard_bound(m.L) if (m.guarded and m.amp is not None) else 0.0
    for i in range(7):
        for j in range(7):
            tol = 1e-9 * (abs(x[i][j]) + m.absmat[i][j]) + 1e-15 + (8.0 * gb * m.amp[i][j] if gb else 0.0)
            if not (abs(v[i][j] - x[i][j]) <= tol):
                bad.append((i, j, v[i][j], x[i][j], tol))
    return bad


def classify(spec, bad):
    """known-finding signature of an oracle failure, or None (= new violation)"""
    kw = spec["kw"]
    ent = {(b[0], b[1]) for b in bad}
    if spec["cls"] == "Undulator" and kw["length"] != 0 and ent == {(4, 5)}:
        return "F3"
    if spec["cls"] in ("Dipole", "RBend") and kw["length"] == 0 and kw["angle"] != 0 and ent and all(j == 6 and i in (0, 2) for i, j in ent):
        return "F4"
    return None


def shrink(spec, E, still_fails):
    """coordinate-wise: reset parameters to neutral values while the failure persists"""
    spec = copy.deepcopy(spec)
    if "init_kw" in spec:
        # is the history needed at all?  then: which re-assigned parameters are needed (construct the others with their final value)
        t = {k: v for k, v in spec.items() if k not in ("init_kw", "order", "warm")}
        try:
            if still_fails(t, E):
                spec = t
        except Exception:
            pass
    if "init_kw" in spec:
        for key in list(spec["init_kw"].keys()):
            if spec["init_kw"][key] != spec["kw"].get(key):
                t = copy.deepcopy(spec)
                t["init_kw"][key] = copy.deepcopy(t["kw"][key])
                try:
                    if still_fails(t, E):
                        spec = t
                except Exception:
                    pass
        if spec.get("warm"):
            t = dict(copy.deepcopy(spec), warm=False)
            try:
                if still_fails(t, E):
                    spec = t
            except Exception:
                pass
    neutral = {"tilt": 0.0, "misalignment": [0.0, 0.0], "dipole_e1": 0.0, "dipole_e2": 0.0, "rbend_e1": 0.0, "rbend_e2": 0.0, "gap": 0.0,
               "fringe_integral": 0.0, "fringe_integral_exit": 0.0, "k1": 0.0, "angle": 0.0, "k": 0.0}
    for key, val in neutral.items():
        if key in spec["kw"] and spec["kw"][key] != val:
            t = copy.deepcopy(spec)
            t["kw"][key] = val
            if "init_kw" in t and t["init_kw"].get(key) == val:
                continue          # would remove the re-assignment of this parameter: handled above
            try:
                if not unspecified(t) and still_fails(t, E):
                    spec = t
            except Exception:
                pass
    return spec


# ---------------------------------------------------------------- "diagnostics, markers and apertures leave coordinates untouched"
# Implementation-level oracle on track() (the transfer_map of these classes is the identity, checked above; this is about what
# Marker / BPM / Screen / Aperture actually hand on).  Element alone: the 6 coordinates of every particle (mu and cov of a
# ParameterBeam) of the outgoing beam are bit-identical to the incoming ones.  Inside Segment([Drift, element, Drift]): the
# coordinates equal those of Segment([Drift, Drift]) (round-off: merged vs. sequential drifts).  Survival probabilities and
# charges may change (apertures, blocking screens); coordinates must not.
def untouched_specs():
    S = [_spec("Marker"), _spec("BPM", is_active=False), _spec("BPM", is_active=True)]
    for act in (False, True):
        for blk in (False, True):
            for mis in ([0.0, 0.0], [5e-4, -3e-4], [1e-3, 0.0]):
                S.append(_spec("Screen", resolution=[6, 4], pixel_size=[1e-3, 1e-3], binning=1, misalignment=mis, is_blocking=blk, is_active=act))
    for act in (False, True):
        for shape in ("rectangular", "elliptical"):
            for xm, ym in ((5e-4, 5e-4), (1.0, 2e-4), (float("inf"), float("inf"))):
                S.append(_spec("Aperture", x_max=xm, y_max=ym, shape=shape, is_active=act))
    return S


def untouched_beams(rng):
    B = [{"type": "particle", "particles": [[1e-3, 2e-4, -5e-4, 1e-4, 3e-4, 1e-2, 1.0], [-2e-4, 1e-4, 2e-4, -3e-4, -1e-4, -2e-2, 1.0],
                                            [0.0, 0.0, 0.0, 0.0, 0.0, 0.0, 1.0]],
          "energy": 2e7, "charges": [1e-12, 2e-12, 0.0], "survival": [1.0, 0.5, 1.0]},
         realgen.gen_particle_beam(rng, n=5), realgen.gen_parameter_beam(rng), realgen.gen_parameter_beam(rng, energy=5e6, scale=3e-3)]
    return B


def _coords(beam):
    import cheetah
    if isinstance(beam, cheetah.ParticleBeam):
        return {"particles[..., :6]": beam.particles[..., :6].detach().clone()}
    return {"mu[:6]": beam._mu[..., :6].detach().clone(), "cov": beam._cov.detach().clone()}


def untouched_check(spec, beam):
    """list of failures ({mode, observable, ...}) of one (element, beam) pair; [] = coordinates untouched"""
    import cheetah
    fails = []
    try:
        el = realgen.build(spec)
        b = realgen.build_beam(beam)
        inc = _coords(b)
        out = _coords(el.track(b))
        for k, v in inc.items():
            o = out.get(k)
            if o is None or o.shape != v.shape or not torch.equal(o, v):
                d = float((o - v).abs().max()) if (o is not None and o.shape == v.shape) else float("inf")
                fails.append({"mode": "element alone", "observable": k, "max_abs_change": d,
                              "what": "outgoing coordinates are not bit-identical to the incoming ones"})
        d1 = {"cls": "Drift", "name": "d1", "kw": {"length": 0.3}}
        d2 = {"cls": "Drift", "name": "d2", "kw": {"length": 0.7}}
        seg = cheetah.Segment([realgen.build(d1), realgen.build(dict(spec, name="e")), realgen.build(d2)])
        ref = cheetah.Segment([realgen.build(d1), realgen.build(d2)])
        o, r = _coords(seg.track(realgen.build_beam(beam))), _coords(ref.track(realgen.build_beam(beam)))
        for k, v in r.items():
            w = o.get(k)
            if w is None or w.shape != v.shape:
                fails.append({"mode": "Segment([Drift(0.3), element, Drift(0.7)])", "observable": k, "what": "shape differs from the two drifts alone"})
                continue
            if v.dim() >= 2:     # per column (coordinate) scale: everything that is added up to form it
                scale = v.abs().amax(dim=tuple(range(v.dim() - 1)), keepdim=True) if k != "cov" else v.abs().max()
            else:
                scale = v.abs().max()
            tol = 1e-12 * (v.abs() + scale) + 1e-300
            bad = (w - v).abs() > tol
            if bool(bad.any()):
                fails.append({"mode": "Segment([Drift(0.3), element, Drift(0.7)])", "observable": k, "max_abs_diff": float((w - v).abs().max()),
                              "what": "coordinates differ from Segment([Drift(0.3), Drift(0.7)])"})
    except Exception as ex:   # an exception of the implementation is an observation
        fails.append({"mode": "exception", "what": f"{type(ex).__name__}: {ex}"})
    return fails


def oracle_untouched(run):
    bad = []
    beams = untouched_beams(run.rng)
    for spec in untouched_specs():
        for beam in beams:
            run.add_case(["untouched", spec, beam], True)
            run.count("untouched_" + spec["cls"] + "_" + beam["type"])
            f = untouched_check(spec, beam)
            if f:
                bad.append({"kind": "untouched", "spec": spec, "beam": beam, "failures": f})
    run.cov["untouched_cases"] = len(untouched_specs()) * len(beams)
    return bad


# ---------------------------------------------------------------- main
def main(tier, replay=None):
    run = common.Run(PID, tier)
    common.setup_python_env()
    thorough = tier == "thorough"
    run.cov["rule"] = ("per element class (Drift, Quadrupole, Dipole, RBend, Solenoid, H/V corrector, Undulator, Cavity(V=0), Marker, BPM, Screen, "
                       "Aperture): forced special-value points (exact zeros, both signs of k1/angle/k, tilt in {0, +-0.1, pi/4, pi/2}, zero / non-zero "
                       "misalignment, L in {0, small, typical}) plus random points, each at an energy from 1.5 MeV to 50 GeV; transfer_map(energy) in "
                       "float64, all 49 entries compared with the Coq model: structural 0/1 entries exactly (`ring`), the others by `interval` with "
                       "tolerance 2^-40(|v| + sum of |terms|) (+ the proved k1=0 guard bound at guarded points). Non-trivial = element with a "
                       "non-identity map; distinct by (spec, energy).")
    if replay:
        return do_replay(run, replay)
    t0 = time.time()
    proof_ok = run.proof_stage()
    run.cov.setdefault('timing_s', {})['proof_stage'] = round(time.time() - t0, 1)
    if not proof_ok:
        run.notes.append(run.proof_problem)
    # second tie: the linear-optics core is re-translated from REPO's source and proved equal to Optics/Maps.v (Gen/MapsGenEquiv.v)
    import translate_stage
    t_tr = time.time()
    tr = translate_stage.translator_obligation(run)
    run.cov['timing_s']['translator_stage'] = round(time.time() - t_tr, 1)
    if tr["status"] != "ok":
        run.notes.append("translator obligation: " + json.dumps(translate_stage.replay_fields(tr))[:600])
    # finding F3 (Undulator R56): while it is listed `known` the faithful model is und_map (the code before the repair);
    # once it is flipped to `fixed` the faithful model is und_map_fixed (= drift_map) and a deviation is a regression
    f3_known = optics.f3_known(PID)
    optics.set_undulator_variant(not f3_known)
    run.cov["undulator_model"] = optics.undulator_variant_name()
    ok, log = True, ""
    for tgt in optics.COQ_TARGETS:
        ok1, log1 = common.coq_build(tgt)
        ok, log = ok and ok1, log + ("" if ok1 else log1)
    broken = []          # (name, detail, spec, E)
    if not ok:
        broken.append(("coq build of Optics/EntryTac.vo, Optics/UndFixed.vo (lemmas used by the correspondence)", log[-800:], None, None))
    try:
        optics.assert_constants()
    except optics.BrokenCorrespondence as ex:
        broken.append(("electron_mass_eV constant", str(ex), None, None))

    # ---- points
    pts = []
    forced = forced_points()
    for k, s in enumerate(forced):
        pts.append((s, ENERGIES[k % len(ENERGIES)]))
    hist_forced = forced_history_points(run.rng)
    for k, s in enumerate(hist_forced):
        pts.append((s, ENERGIES[(k + 2) % len(ENERGIES)]))
    forced = forced + hist_forced
    n_rand = 400 if thorough else 45
    tries = 0
    while len(pts) < len(forced) + n_rand and tries < 20 * n_rand:
        tries += 1
        s = random_point(run.rng)
        if unspecified(s):
            run.count("discarded_unspecified_kx2_near_0")
            continue
        if run.rng.random() < 0.4:
            s = with_history(run.rng, s)
        E = run.rng.choice(ENERGIES + [round(10 ** run.rng.uniform(math.log10(1.5e6), math.log10(5e10)), -3)])
        pts.append((s, E))
    if thorough:   # every forced point at every energy
        for s in forced:
            for E in ENERGIES:
                pts.append((s, E))

    # ---- correspondence goals + oracle on every point
    gl, owner = [], []
    oracle_bad, methods_bad = [], []
    for idx, (s, E) in enumerate(pts):
        cls = s["cls"]
        run.add_case([s, E], cls not in optics.IDENTITY_CLASSES)
        run.count("class_" + cls)
        run.count("energy_decade_1e%d" % int(math.log10(E)))
        kw = s["kw"]
        if kw.get("tilt"):
            run.count("tilt_nonzero")
        if kw.get("misalignment") and any(kw["misalignment"]):
            run.count("misalignment_nonzero")
        if kw.get("k1") == 0.0 and cls in optics.GUARDED_CLASSES or cls == "Cavity":
            run.count("k1_guard_active")
        if kw.get("length") == 0.0:
            run.count("length_zero")
        if "init_kw" in s:
            run.count("history_reassigned")
            run.count("history_" + cls)
            if s.get("warm"):
                run.count("history_used_before_reassignment")
        try:
            e = _build(s, E)
            g, meta = optics.goals(e, E)
            for gg, mm in zip(g, meta):
                gl.append(gg)
                owner.append((idx, mm))
            run.count("entries_exact", sum(len(mm["entries"]) for mm in meta if mm["kind"] == "exact"))
            run.count("entries_interval", sum(len(mm["entries"]) for mm in meta if mm["kind"] == "num"))
        except optics.BrokenCorrespondence as ex:
            broken.append(("model vs transfer_map (harness-level)", str(ex), s, E))
        except Exception as ex:  # the real code rejected / crashed on an input the model covers
            broken.append(("transfer_map raised", repr(ex), s, E))
        try:
            bad = oracle(s, E)
        except Exception as ex:
            bad = [(-1, -1, repr(ex), None, None)]
        if bad:
            oracle_bad.append((s, E, bad))
        try:
            mc = method_consistency(s, E)
        except Exception as ex:   # an exception of the implementation is an observation
            mc = [(-1, -1, repr(ex), None, None)]
        if mc is not None:
            run.count("two_methods_compared")
            if "init_kw" in s:
                run.count("two_methods_compared_after_history")
            if mc:
                methods_bad.append((s, E, mc))
    if pts:
        s0, E0 = pts[4]
        run.sample({"spec": s0, "energy": E0, "transfer_map": optics.observe(_build(s0, E0), E0)})
    run.cov['timing_s']['generate_observe_oracle'] = round(time.time() - t0, 1)
    # balance the shards: deal the goals, most expensive first, round-robin over the shards
    shard = 4 if not thorough else 8
    nsh = max(1, -(-len(gl) // shard))
    order = sorted(range(len(gl)), key=lambda k: -len(gl[k][0]))
    buckets = [[] for _ in range(nsh)]
    for pos, k in enumerate(order):
        buckets[pos % nsh].append(k)
    perm = [k for b in buckets for k in b]
    shard = max(len(b) for b in buckets) if buckets else shard
    gl, owner = [gl[k] for k in perm], [owner[k] for k in perm]
    t1 = time.time()
    failing, errs = ([], {})
    if ok and gl:
        failing, errs = common.run_real_goals(PID, "corr", optics.PREAMBLE, gl, shard=shard, jobs=16)
    run.cov['timing_s']['coq_goals'] = round(time.time() - t1, 1)
    run.cov["traces_validated_against_impl"] += len(pts)
    # Undulator points that disagree with the transcription selected by the status of F3: evaluate the OTHER transcription.
    # F3 known + code equals the repaired map -> the finding no longer reproduces (note, no alarm: the lead flips the status);
    # F3 fixed + code equals the old map      -> the repaired defect is back: stays broken, the oracle below has the input.
    und_fail = [k for k in failing if pts[owner[k][0]][0]["cls"] == "Undulator"]
    if und_fail and ok:
        idxs = sorted({owner[k][0] for k in und_fail})
        g2 = []
        for idx in idxs:
            s, E = pts[idx]
            try:
                g2 += optics.goals(_build(s, E), E, und_fixed=f3_known)[0]
            except Exception:
                g2.append(("False", "idtac."))
        f2, _ = common.run_real_goals(PID, "corr_und_other", optics.PREAMBLE, g2, shard=8, jobs=16)
        other = optics.undulator_variant_name(f3_known)
        if not f2:
            run.cov["undulator_other_model_matches"] = other
            if f3_known:
                run.cov["known_findings_not_reproduced"].append(
                    f"F3: Undulator.transfer_map equals {other} at all {len(idxs)} disagreeing points; the status of F3 is stale (flip it to fixed)")
                run.notes.append("F3 is listed known but the code computes the repaired Undulator map")
                failing = [k for k in failing if k not in und_fail]
            else:
                run.notes.append(f"F3 is listed fixed but Undulator.transfer_map equals {other}: the repaired defect is back")
    n_named = 0
    for k in failing[:8]:
        idx, mm = owner[k]
        s, E = pts[idx]
        entries, detail = mm["entries"], errs.get(k, "")[-300:]
        if mm["kind"] == "num" and n_named < 2:
            n_named += 1
            # name the failing entries: re-run this point with one goal per entry
            try:
                g2, m2 = optics.goals(_build(s, E), E, per_entry=True)
                sel = [(g, m) for g, m in zip(g2, m2) if m["kind"] == "num"]
                f2, e2 = common.run_real_goals(PID, f"corr_entries_{idx}", optics.PREAMBLE, [g for g, _ in sel], shard=4, jobs=16, max_fail=50)
                entries = [sel[i][1]["entries"][0] for i in f2]
                detail = json.dumps([{"entry": sel[i][1]["entries"][0], "observed": sel[i][1]["observed"], "tol": sel[i][1]["tol"]} for i in f2[:10]])
            except Exception as ex:  # noqa
                detail += f" (per-entry rerun failed: {ex!r})"
        broken.append((f"Coq model Optics/Maps.v vs transfer_map, entries {entries[:10]} ({mm['kind']})", detail, s, E))
    for k in failing[8:]:
        idx, mm = owner[k]
        broken.append((f"Coq model Optics/Maps.v vs transfer_map ({mm['kind']} goal)", errs.get(k, "")[-200:], pts[idx][0], pts[idx][1]))

    # ---- known findings: replay the stored inputs; classify oracle failures
    t2 = time.time()
    untouched_bad = oracle_untouched(run)
    run.cov['timing_s']['untouched_oracle'] = round(time.time() - t2, 1)
    regressed = replay_known(run)
    new = []
    for s, E, bad in oracle_bad:
        f = classify(s, bad)
        kf = f and common.known_signature_match(PID, lambda ent: ent["id"] == f)
        if kf:
            run.known(kf["what"])
        elif f in regressed:
            run.count("regression_hits_" + f)          # already reported with the stored input of the fixed finding
        else:
            new.append((s, E, bad))
    if "F3" in regressed:    # the Undulator disagreement is explained by the regression just reported (with its input)
        broken = [b for b in broken if not (b[2] and b[2]["cls"] == "Undulator")]
    run.cov["tested_only"] = ["agreement of the hand-written Coq model with transfer_map at the generated points (interval-checked, float64)",
                              "oracle: transfer_map vs matrix-exponential series of the Hamiltonian generator (1e-9 relative)",
                              "dipole pole-face (edge) maps are definition-level: the spec is the textbook hard-edge kick",
                              "Marker / BPM / Screen / Aperture track() leaves coordinates untouched (element alone: bit-identical; inside "
                              "Segment([Drift, element, Drift]): equal to the drifts alone within 1e-12), both beam types, active/inactive, "
                              "blocking/non-blocking, aligned/misaligned screens, both aperture shapes",
                              "elements reached through a history (constructed with other values, optionally used once, every assignable "
                              "parameter re-assigned through its setter in random order): same goals and oracle as fresh elements, reference = final values",
                              "Drift / Quadrupole / Dipole / RBend: tracking_method='bmadx' vs transfer_map to first order around the design orbit (probes of 1e-6)",
                              "vectorised (batched) elements are not exercised here (C04)"]

    # ---- verdict
    def fails(sp, EE):
        b = oracle(sp, EE)
        return bool(b) and classify(sp, b) is None
    if untouched_bad:
        item = untouched_bad[0]
        # prefer the simplest failing pair: element alone, fewest particles
        run.violation(dict(item, relation="Marker / BPM / Screen / Aperture: track() leaves the 6 coordinates of every particle (mu, cov) untouched: "
                                          "bit-identical for the element alone, equal to the two drifts alone inside Segment([Drift, element, Drift])",
                           n_failing=len(untouched_bad), others=[[b["spec"]["cls"], b["spec"]["kw"], b["beam"]["type"]] for b in untouched_bad[1:5]]))
    if new:
        s, E, bad = new[0]
        s2 = shrink(s, E, fails)
        bad2 = oracle(s2, E)
        run.violation({"kind": "oracle", "spec": s2, "energy": E, "original_spec": s,
                       "relation": "transfer_map(energy) == exp(L * S6.Hess(H)) (with edges / tilt / misalignment / kick as specified)",
                       "deviations": [{"entry": [b[0], b[1]], "observed": b[2], "expected": b[3], "tol": b[4]} for b in bad2[:12]]})
    elif methods_bad:
        s, E, mc = methods_bad[0]

        def mfails(sp, EE):
            return bool(method_consistency(sp, EE))
        s2 = shrink(s, E, mfails)
        mc2 = method_consistency(s2, E) or mc
        run.violation({"kind": "two_methods", "spec": s2, "energy": E, "original_spec": s,
                       "relation": "track() with tracking_method='bmadx' of a probe displaced by 1e-6 along each axis == transfer_map(energy) @ probe to first "
                                   "order (both methods describe the same magnet around the design orbit)",
                       "deviations": [{"probe_axis": b[0], "coordinate": b[1], "bmadx": b[2], "linear": b[3], "tol": b[4]} for b in mc2[:12]]})
    elif broken:
        # model/implementation disagree (or machinery broke) but the oracle sees nothing at the generated points: search the neighbourhood
        found = None
        for name, detail, s, E in broken[:6]:
            if s is None:
                continue
            for _ in range(40 if thorough else 12):
                t = copy.deepcopy(s)
                for key in ("length", "k1", "angle", "k", "tilt"):
                    if key in t["kw"] and run.rng.random() < 0.5:
                        t["kw"][key] = round(t["kw"][key] * run.rng.uniform(0.5, 2.0) + run.rng.choice([0.0, 0.1, -0.1]), 4)
                        if key == "length":
                            t["kw"][key] = abs(t["kw"][key])
                EE = run.rng.choice(ENERGIES)
                try:
                    if not unspecified(t) and fails(t, EE):
                        found = (t, EE)
                        break
                except Exception:
                    pass
            if found:
                break
        if found:
            t, EE = found
            t2 = shrink(t, EE, fails)
            b = oracle(t2, EE)
            run.violation({"kind": "oracle", "spec": t2, "energy": EE, "found_by": "neighbourhood search after a broken correspondence",
                           "broken": broken[0][0], "deviations": [{"entry": [x[0], x[1]], "observed": x[2], "expected": x[3], "tol": x[4]} for x in b[:12]]})
        else:
            name, detail, s, E = broken[0]
            run.violation({"kind": "correspondence", "broken": name, "detail": detail, "spec": s, "energy": E,
                           "n_broken": len(broken), "others": [[b[0], b[2], b[3]] for b in broken[1:6]]}, no_input=True)
    elif tr["status"] != "ok":
        # the source no longer translates to the model (or left the translated fragment) while every sampled point agrees:
        # search wider with the implementation-only oracle before giving up on a failing input
        found = None
        extra = [(sp, EE) for sp in forced for EE in ENERGIES]
        tries = 0
        while len(extra) < len(forced) * len(ENERGIES) + (1500 if thorough else 400) and tries < 20000:
            tries += 1
            sp = random_point(run.rng)
            if not unspecified(sp):
                extra.append((sp, run.rng.choice(ENERGIES + [round(10 ** run.rng.uniform(math.log10(1.5e6), math.log10(5e10)), -3)])))
        for sp, EE in extra:
            try:
                if fails(sp, EE):
                    found = (sp, EE)
                    break
            except Exception:
                pass
        run.cov["translator_search_points"] = len(extra)
        rec = translate_stage.replay_fields(tr)
        if found:
            sp, EE = found
            s2 = shrink(sp, EE, fails)
            b = oracle(s2, EE)
            run.violation(dict(rec, kind="oracle", spec=s2, energy=EE, found_by="search after the broken translator obligation",
                               relation="transfer_map(energy) == exp(L * S6.Hess(H)) (with edges / tilt / misalignment / kick as specified)",
                               deviations=[{"entry": [x[0], x[1]], "observed": x[2], "expected": x[3], "tol": x[4]} for x in b[:12]]))
        else:
            run.violation(rec, no_input=True)
    elif not proof_ok:
        run.violation({"kind": "proof", "broken": run.proof_problem}, no_input=True)
    return run.finish("proof")


def replay_known(run):
    """replays the stored input of every listed finding.  known + still failing -> KNOWN-FINDING; known + passing -> note;
    fixed + failing again -> VIOLATION (regression) with that input; returns the set of ids that regressed"""
    regressed = set()
    for f in common.load_known_findings(PID):
        r = f.get("replay")
        if not r or "spec" not in r:
            continue
        bad, exc = [], None
        try:
            bad = oracle(r["spec"], r["energy"])
        except Exception as ex:
            exc = repr(ex)
        if f.get("status") == "known":
            if exc or (bad and classify(r["spec"], bad) == f["id"]):
                run.known(f["what"])
            else:
                run.cov["known_findings_not_reproduced"].append(f["id"])
        elif f.get("status") == "fixed":
            run.cov.setdefault("fixed_findings_replayed", []).append(f["id"])
            if (exc or bad) and f["id"] not in regressed:
                regressed.add(f["id"])
                run.violation({"kind": "regression", "finding": f["id"], "what": f"fixed finding {f['id']} fails again on its stored input: " + f["what"],
                               "spec": r["spec"], "energy": r["energy"], "exception": exc,
                               "relation": "transfer_map(energy) == exp(L * S6.Hess(H)) (with edges / tilt / misalignment / kick as specified)",
                               "deviations": [{"entry": [b[0], b[1]], "observed": b[2], "expected": b[3], "tol": b[4]} for b in bad[:12]]})
    return regressed


def do_replay(run, path):
    r = json.loads(open(path).read())
    if r.get("spec") is None:
        print("replay: this replay names a broken proof/correspondence, not an input:", r.get("broken"))
        return 1
    if r.get("kind") == "untouched":
        f = untouched_check(r["spec"], r["beam"])
        print("replay:", "property holds on this input" if not f else f"property FAILS on this input: {json.dumps(f)[:1500]}")
        return 1 if f else 0
    if r.get("kind") == "two_methods":
        mc = method_consistency(r["spec"], r["energy"])
        print("replay:", "property holds on this input" if not mc else f"property FAILS on this input: {json.dumps(mc[:12])}")
        return 1 if mc else 0
    bad = oracle(r["spec"], r["energy"])
    if bad:
        print("replay: property FAILS on this input:", json.dumps([{"entry": [b[0], b[1]], "observed": b[2], "expected": b[3]} for b in bad[:12]]))
        f = classify(r["spec"], bad)
        if f:
            print(f"(matches known finding {f})")
        return 1
    # no oracle failure: does the model still agree?
    e = _build(r["spec"], r["energy"])
    try:
        gl, meta = optics.goals(e, r["energy"])
        failing, errs = common.run_real_goals(PID, "replay", optics.PREAMBLE, gl)
    except optics.BrokenCorrespondence as ex:
        print("replay: correspondence still broken:", ex)
        return 1
    if failing:
        print("replay: the Coq model still disagrees with transfer_map on entries", [meta[k]["entries"] for k in failing][:8])
        return 1
    print("replay: property holds on this input")
    return 0
