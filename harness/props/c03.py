"""C03 -- Maps conserve phase-space volume (symplectic; cavity damps by E_in/E_out); seventh component stays one.

Stages: proof (Props/C03.vo + audit) -> correspondence of transfer_map entries with Optics/Maps.v through `interval`
goals (drift, untilted quadrupole in all sign regimes incl. the k1=0 guard, solenoid, cavity transverse block) ->
model-independent oracles on the implementation alone:
  (i)   M^T S6 M = S6 and exact seventh row for transfer_map(E) of every element class over sampled parameters;
        cavity with voltage: each transverse block determinant == Ei/Ef;
  (iii) autograd Jacobian of track() on a one-particle beam (Bmad-X drift / quadrupole / dipole, TDC; Cavity block det);
        for the Bmad-X drift, quadrupole (eps := 0) and dipole the symplecticity of the Jacobian at every point is PROVED on the Coq models
        (Bmadx/SymplX.v, SymplXQuad.v, SymplXBend.v; Props C03_quadx_*, C03_sector_map_*, C03_bendx_*); the oracle remains the tie to the code;
  (iv)  emittance before/after for uncoupled elements (both beam types), cavity ratio Ei/Ef;
  seventh component of particles / mu exactly one after track.
"""
import json
import math

import torch

import common
import optics
from common import dyadic

PID = "C03"
M_E = 510998.95069          # Optics/Maps.v m_e; asserted against cheetah on every run
PREAMBLE = """From Coq Require Import Reals Lra.
From Interval Require Import Tactic.
From Cheetah Require Import Base.Mat Optics.Maps Optics.Sympl Optics.SymplProofs Optics.SymplCorr Bmadx.SymplX Optics.UndFixed.
Open Scope R_scope.
Ltac c03_und := lazy beta iota zeta delta [m7nth v7nth row c0 c1 c2 c3 c4 c5 c6 und_map]; rewrite ?und_igamma2_is; rewrite ?igamma2_pos by lra; unfold m_e, Rsqr; interval with (i_prec 80).
Ltac c03_und_fixed := rewrite und_map_fixed_is_drift; c03_drift.
Ltac c03_driftx := unfold driftx_dx, driftx_dy, driftx_dz, driftx_g, sqrt_one, dx_Pl, dx_Pxy2; interval with (i_prec 80)."""

S6 = torch.zeros(6, 6, dtype=torch.float64)
S6[0, 1] = 1.0
S6[1, 0] = -1.0
S6[2, 3] = 1.0
S6[3, 2] = -1.0
S6[4, 5] = -1.0      # the tau pair carries the negative sign (DESIGN 4)
S6[5, 4] = 1.0

T = lambda v: torch.tensor(v, dtype=torch.float64)  # noqa: E731
TENSOR_KW = {"length", "k1", "misalignment", "tilt", "angle", "dipole_e1", "dipole_e2", "rbend_e1", "rbend_e2", "gap", "gap_exit",
             "fringe_integral", "fringe_integral_exit", "k", "voltage", "phase", "frequency", "x_max", "y_max"}


def build(spec):
    import cheetah
    kw = {}
    for k, v in spec["kw"].items():
        kw[k] = T(v) if (k in TENSOR_KW and v is not None) else v
    if spec["cls"] not in ("Marker", "BPM"):
        kw["dtype"] = torch.float64
    return getattr(cheetah, spec["cls"])(name="e", **kw)


# ---------------------------------------------------------------- generators
LEN = [0.0, 1e-3, 0.1, 0.25, 0.5, 1.0, 2.0, 5.0]
K1 = [0.0, 1e-6, -1e-6, 0.5, -0.5, 2.0, -3.0, 10.0, -10.0, 30.0, -30.0]
TILT = [0.0, 0.0, 0.1, -0.2, math.pi / 4, math.pi / 2, -1.3]
MIS = [[0.0, 0.0], [0.0, 0.0], [1e-3, 0.0], [0.0, -2e-3], [5e-4, 3e-4]]
E_SPECIAL = [1.5e6, 5e6, 1e8, 6e9, 5e10]
LIN_CLASSES = ["Drift", "Quadrupole", "Dipole", "RBend", "Solenoid", "HorizontalCorrector", "VerticalCorrector", "Undulator",
               "CavityOff", "CavityOn", "Marker", "BPM", "Screen", "Aperture"]


def gen_energy(rng):
    if rng.random() < 0.4:
        return rng.choice(E_SPECIAL)
    return float(round(10 ** rng.uniform(math.log10(1.5e6), math.log10(5e10)), 0))


def pick(rng, pool, lo, hi, digits=4, p=0.6):
    return rng.choice(pool) if rng.random() < p else round(rng.uniform(lo, hi), digits)


def gen_len_k1(rng, lmin=0.0):
    """length and k1 with sqrt(|k1|) L <= 6 so that entries stay O(200) and the float test stays meaningful"""
    while True:
        L = pick(rng, [x for x in LEN if x >= lmin], max(lmin, 0.01), 3.0)
        k1 = pick(rng, K1, -12.0, 12.0)
        if abs(k1) * L * L <= 36.0:
            return L, k1


def gen_linear(rng, cls):
    if cls == "Drift":
        kw = dict(length=pick(rng, LEN, 0.0, 10.0))
    elif cls == "Quadrupole":
        L, k1 = gen_len_k1(rng)
        kw = dict(length=L, k1=k1, misalignment=rng.choice(MIS), tilt=rng.choice(TILT))
    elif cls in ("Dipole", "RBend"):
        L, k1 = gen_len_k1(rng)
        if rng.random() < 0.5:
            k1 = 0.0
        angle = pick(rng, [0.0, 0.01, -0.02, 0.3, -0.3, 1.0], -1.0, 1.0)
        e = "dipole_e" if cls == "Dipole" else "rbend_e"
        kw = dict(length=L, angle=angle, k1=k1, tilt=rng.choice(TILT), gap=rng.choice([0.0, 0.02, 0.05]),
                  fringe_integral=rng.choice([0.0, 0.5, 0.7]))
        kw[e + "1"] = pick(rng, [0.0, 0.05, -0.1, 0.4], -0.5, 0.5)
        kw[e + "2"] = pick(rng, [0.0, 0.05, -0.1, 0.4], -0.5, 0.5)
        if rng.random() < 0.3:
            kw["gap_exit"] = rng.choice([0.0, 0.03])
            kw["fringe_integral_exit"] = rng.choice([0.0, 0.4])
    elif cls == "Solenoid":
        kw = dict(length=pick(rng, LEN, 0.0, 3.0), k=pick(rng, [0.0, 0.5, -1.0, 3.0, -0.01], -4.0, 4.0), misalignment=rng.choice(MIS))
    elif cls in ("HorizontalCorrector", "VerticalCorrector"):
        kw = dict(length=pick(rng, LEN, 0.0, 3.0), angle=pick(rng, [0.0, 1e-3, -2e-3, 0.01], -0.02, 0.02))
    elif cls == "Undulator":
        kw = dict(length=pick(rng, LEN, 0.0, 3.0), is_active=rng.choice([False, True]))
    elif cls == "CavityOff":
        return {"cls": "Cavity", "kw": dict(length=pick(rng, LEN[1:], 0.01, 3.0), voltage=0.0, phase=rng.choice([0.0, 30.0, -20.0]),
                                            frequency=rng.choice([1.3e9, 2.998e9]))}
    elif cls == "CavityOn":
        return {"cls": "Cavity", "kw": dict(length=pick(rng, [0.1, 0.5, 1.0, 2.0], 0.05, 3.0),
                                            voltage=pick(rng, [1e6, 5e6, -1e6, 2e7, -4e5], -2e7, 4e7, 0),
                                            phase=pick(rng, [0.0, 30.0, -20.0, 60.0, 135.0, 180.0], -180.0, 180.0, 1),
                                            frequency=rng.choice([1.3e9, 2.998e9]))}
    elif cls == "Marker":
        kw = {}
    elif cls == "BPM":
        kw = dict(is_active=rng.choice([False, True]))
    elif cls == "Screen":
        kw = dict(misalignment=rng.choice(MIS), is_active=rng.choice([False, True]))
    elif cls == "Aperture":
        kw = dict(x_max=rng.choice([1e-3, 1.0]), y_max=rng.choice([1e-3, 1.0]), is_active=rng.choice([True, False]))
    return {"cls": cls, "kw": kw}


def cavity_ratio(spec, E):
    """(Ei/Ef, well_conditioned) for a cavity spec at entrance energy E; None if outside the property's domain"""
    kw = spec["kw"]
    phi = float(torch.deg2rad(T(kw["phase"])))
    dE = kw["voltage"] * math.cos(phi)
    if kw["voltage"] == 0 or abs(math.cos(phi)) < 1e-3 or E + dE <= 2 * M_E or abs(dE) < 1e-9 * E:
        return None
    return E / (E + dE)


# ---------------------------------------------------------------- oracle (i): transfer_map
def sympl_defect(M):
    """max |M6^T S M6 - S| and the scale used for the tolerance"""
    A = M[:6, :6]
    d = float((A.T @ S6 @ A - S6).abs().max())
    scale = float((A.abs().T @ S6.abs() @ A.abs()).max())
    return d, max(1.0, scale)


def seventh_row_ok(M):
    return bool(torch.equal(M[6], T([0.0, 0.0, 0.0, 0.0, 0.0, 0.0, 1.0])))


def check_map(spec, E):
    """Returns (status, detail): status in ok / skip / fail"""
    el = build(spec)
    M = el.transfer_map(T(E))
    if M.shape != (7, 7):
        return "fail", {"what": "transfer_map shape", "shape": list(M.shape)}
    if not bool(torch.isfinite(M).all()):
        return "skip", {"what": "non-finite map (unspecified region, C09)"}
    if not seventh_row_ok(M):
        return "fail", {"what": "seventh row of transfer_map is not (0,0,0,0,0,0,1)", "row": M[6].tolist()}
    if spec["cls"] == "Cavity" and spec["kw"]["voltage"] != 0:
        r = cavity_ratio(spec, E)
        if r is None:
            return "skip", {"what": "cavity outside domain (cos(phi)~0, Ef<=0 or no energy gain)"}
        dx = float(M[0, 0] * M[1, 1] - M[0, 1] * M[1, 0])
        dy = float(M[2, 2] * M[3, 3] - M[2, 3] * M[3, 2])
        mag = float(abs(M[0, 0] * M[1, 1]) + abs(M[0, 1] * M[1, 0]))
        tol = 1e-9 * max(abs(r), mag * 1e-4)
        coupled = float(M[:2, 2:6].abs().max() + M[2:4, :2].abs().max() + M[2:4, 4:6].abs().max() + M[4:6, :4].abs().max())
        if abs(dx - r) > tol or abs(dy - r) > tol or coupled != 0.0:
            return "fail", {"what": "cavity transverse block determinant != Ei/Ef", "xdet": dx, "ydet": dy, "Ei_over_Ef": r,
                            "coupling": coupled}
        return "ok", {"xdet": dx, "ratio": r}
    d, scale = sympl_defect(M)
    if d > 1e-11 * scale:
        return "fail", {"what": "M^T S6 M != S6", "defect": d, "tolerance": 1e-11 * scale}
    return "ok", {"defect": d}


def oracle_maps(run, n_per_class):
    bad = []
    for cls in LIN_CLASSES:
        k = 0
        tries = 0
        while k < n_per_class and tries < 4 * n_per_class:
            tries += 1
            spec = gen_linear(run.rng, cls)
            E = gen_energy(run.rng)
            try:
                st, det = check_map(spec, E)
            except AssertionError:
                run.count("map_rejected_" + cls)
                continue
            if st == "skip":
                run.count("map_skipped_" + cls)
                continue
            k += 1
            kw = spec["kw"]
            nontrivial = any(isinstance(v, float) and v != 0.0 for key, v in kw.items() if key not in ("frequency", "phase"))
            run.add_case(["map", spec, E], nontrivial)
            run.count("map_" + cls)
            if kw.get("tilt"):
                run.count("map_tilted")
            if kw.get("misalignment") and any(kw["misalignment"]):
                run.count("map_misaligned")
            if "k1" in kw:
                run.count("map_k1_" + ("zero" if kw["k1"] == 0 else "pos" if kw["k1"] > 0 else "neg"))
            run.count("map_energy_decade_%d" % int(math.log10(E)))
            if st == "fail":
                bad.append({"kind": "map", "spec": spec, "energy": E, "detail": det})
    return bad


def oracle_segments(run, n):
    """closure under product: merged transfer map of a Segment of energy-preserving elements"""
    import cheetah
    bad = []
    allow = ["Drift", "Quadrupole", "Dipole", "Solenoid", "HorizontalCorrector", "VerticalCorrector", "Undulator", "CavityOff", "Marker"]
    for _ in range(n):
        specs = []
        for _ in range(run.rng.randrange(2, 6)):
            s = gen_linear(run.rng, run.rng.choice(allow))
            for key in ("length",):
                if s["kw"].get(key, 0) > 1.0:
                    s["kw"][key] = 1.0
            if abs(s["kw"].get("k1", 0.0)) > 10:
                s["kw"]["k1"] = 2.0
            specs.append(s)
        E = gen_energy(run.rng)
        seg = cheetah.Segment([build(s) for s in specs])
        M = seg.transfer_map(T(E))
        if not bool(torch.isfinite(M).all()):
            run.count("segment_skipped_nonfinite")
            continue
        run.add_case(["segment", specs, E], True)
        run.count("segment_maps")
        d, scale = sympl_defect(M)
        # scale of a product: product of the factors' scales
        sc = 1.0
        for s in specs:
            Mi = build(s).transfer_map(T(E))
            sc *= max(1.0, float(Mi[:6, :6].abs().max())) ** 2
        if d > 1e-11 * max(scale, sc) or not seventh_row_ok(M):
            bad.append({"kind": "segment", "specs": specs, "energy": E, "detail": {"what": "merged Segment map not symplectic / not affine",
                                                                                   "defect": d, "row6": M[6].tolist()}})
    return bad


# ---------------------------------------------------------------- correspondence (ii): interval goals
def entry_goal(model, i, j, v, tol, tac):
    return (f"Rabs (m7nth ({model}) {i} {j} - {dyadic(v)}) <= {dyadic(tol)}", tac)


def und_fixed_by_status():
    """which Undulator transcription of Optics/Maps.v is the faithful one: und_map while finding F3 (Undulator R56) is listed
    `known` (F3 is a finding of C02/C09 -- both transcriptions are symplectic and affine, C03 holds either way), und_map_fixed
    once it has been flipped to `fixed`"""
    st = optics.finding_status(PID, "F3") or optics.finding_status("C02", "F3") or optics.finding_status("C09", "F3")
    return st != "known"


def und_model(kw, E, fixed):
    if fixed:
        return f"und_map_fixed {dyadic(kw['length'])} {dyadic(E)}", "c03_und_fixed."
    return f"und_map {dyadic(kw['length'])} {dyadic(E)}", "c03_und."


def corr_cases(rng, n):
    cases = []
    for _ in range(n):
        cases.append(("drift", {"cls": "Drift", "kw": dict(length=pick(rng, LEN, 0.0, 10.0))}, gen_energy(rng)))
    for q in range(max(3, n // 2)):
        L = [1.0, 0.0][q] if q < 2 else pick(rng, LEN, 0.0, 3.0)
        cases.append(("und", {"cls": "Undulator", "kw": dict(length=L, is_active=rng.choice([False, True]))}, gen_energy(rng)))
    regimes = [0.0, 2.0, -3.0, 1e-6, -1e-6]
    for q in range(max(n, len(regimes))):
        while True:
            L = pick(rng, LEN[1:], 0.01, 3.0)
            k1 = regimes[q] if q < len(regimes) else pick(rng, K1, -12.0, 12.0)
            if abs(k1) * L * L <= 36.0:
                break
        cases.append(("quad", {"cls": "Quadrupole", "kw": dict(length=L, k1=k1)}, gen_energy(rng)))
    for q in range(max(3, n // 2)):
        k = 0.0 if q == 0 else pick(rng, [0.5, -1.0, 3.0], -4.0, 4.0)
        cases.append(("sol", {"cls": "Solenoid", "kw": dict(length=pick(rng, LEN, 0.0, 3.0), k=k)}, gen_energy(rng)))
    q = 0
    while q < n:
        spec = gen_linear(rng, "CavityOn")
        E = gen_energy(rng)
        r = cavity_ratio(spec, E)
        phi = float(torch.deg2rad(T(spec["kw"]["phase"])))
        if r is None or abs(spec["kw"]["voltage"] * math.cos(phi)) < 1e-4 * E or abs(math.cos(phi)) < 0.05:
            continue
        cases.append(("cav", spec, E))
        q += 1
    return cases


NONTRIVIAL = {
    "drift": [(0, 1), (2, 3), (4, 5)],
    "und": [(0, 1), (2, 3), (4, 5)],
    "quad": [(0, 0), (0, 1), (1, 0), (1, 1), (2, 2), (2, 3), (3, 2), (3, 3), (4, 5)],
    "sol": [(i, j) for i in range(4) for j in range(4)] + [(4, 5)],
    "cav": [(0, 0), (0, 1), (1, 0), (1, 1)],
}


def correspondence(run, n):
    """Returns (structural_fail list, failing interval goals list with context)."""
    import cheetah.utils.physics as ph
    if float(ph.electron_mass_eV) != M_E:
        run.notes.append(f"electron_mass_eV={ph.electron_mass_eV!r} differs from the model constant {M_E}: entry correspondence skipped")
        return [], []
    cases = corr_cases(run.rng, n)
    # helper theories the generated goals load but Props/C03.v does not import: keep them up to date with the model
    for tgt in ("theories/Optics/SymplCorr.vo", "theories/Optics/UndFixed.vo"):
        ok, log = common.coq_build(tgt)
        if not ok:
            return [], [{"kind": "corr_build", "detail": f"coq build of {tgt} failed: {log[-600:]}"}]
    und_fixed = und_fixed_by_status()
    run.cov["undulator_model"] = optics.undulator_variant_name(und_fixed)
    goals, ctx, structural = [], [], []
    for kind, spec, E in cases:
        el = build(spec)
        try:
            M = el.transfer_map(T(E))
        except AssertionError:
            continue
        if not bool(torch.isfinite(M).all()):
            run.count("corr_skipped_nonfinite")
            continue
        kw = spec["kw"]
        if kind == "drift":
            model, tac = f"drift_map {dyadic(kw['length'])} {dyadic(E)}", "c03_drift."
        elif kind == "und":
            model, tac = und_model(kw, E, und_fixed)
        elif kind == "quad":
            model, tac = f"quad_map {dyadic(kw['length'])} {dyadic(kw['k1'])} 0 0 0 {dyadic(E)}", "c03_quad."
        elif kind == "sol":
            model, tac = f"sol_map {dyadic(kw['length'])} {dyadic(kw['k'])} 0 0 {dyadic(E)}", "c03_sol."
        else:
            phi = float(torch.deg2rad(T(kw["phase"])))
            model = (f"cavity_on_map {dyadic(kw['length'])} {dyadic(kw['voltage'])} {dyadic(phi)} {dyadic(kw['frequency'])} {dyadic(E)}")
            tac = "c03_cav."
        run.add_case(["corr", kind, spec, E], True)
        run.count("corr_" + kind)
        nt = set(NONTRIVIAL[kind])
        if kind == "cav":
            nt_struct = nt | {(2, 2), (2, 3), (3, 2), (3, 3), (4, 4), (4, 5), (5, 4), (5, 5)}
            if not (torch.equal(M[0:2, 0:2], M[2:4, 2:4])):
                structural.append({"kind": "corr_struct", "spec": spec, "energy": E, "detail": "cavity y block differs from x block"})
        else:
            nt_struct = nt
        # entries that are structurally 0/1 in the model are compared exactly
        for i in range(7):
            for j in range(7):
                if (i, j) in nt_struct:
                    continue
                want = 1.0 if i == j else 0.0
                if float(M[i, j]) != want:
                    structural.append({"kind": "corr_struct", "spec": spec, "energy": E,
                                       "detail": f"entry [{i},{j}] = {float(M[i, j])!r}, model has exactly {want}"})
        for (i, j) in sorted(nt):
            v = float(M[i, j])
            tol = (1e-9 if kind == "cav" else 1e-11) * max(1.0, abs(v))
            goals.append(entry_goal(model, i, j, v, tol, tac))
            ctx.append({"kind": "corr_entry", "class": kind, "spec": spec, "energy": E, "entry": [i, j], "observed": v})
    # Bmad-X exact drift: the literal Coq transcription (Bmadx/SymplX.v) vs cheetah.utils.bmadx.track_a_drift
    try:
        from cheetah.utils import bmadx as bx
        have = hasattr(bx, "track_a_drift")
    except Exception:
        have = False
    if have:
        for _ in range(max(4, n // 2)):
            L = pick(run.rng, LEN[1:], 0.01, 5.0)
            x, px, y, py, z, pz = gen_point(run.rng)
            E = gen_energy(run.rng)
            p0c = math.sqrt(E * E - M_E * M_E)
            try:
                xo, yo, zo = bx.track_a_drift(T(L), T([x]), T([px]), T([y]), T([py]), T([z]), T([pz]), T(p0c), T(M_E))
            except Exception:
                run.count("corr_driftx_api_changed")
                break
            run.add_case(["corr", "driftx", L, [x, px, y, py, z, pz], E], True)
            run.count("corr_driftx")
            args = f"{dyadic(px)} {dyadic(py)} {dyadic(pz)}"
            for name, model, q0, out in (("x", f"driftx_dx {dyadic(L)} {args}", x, float(xo[0])),
                                         ("y", f"driftx_dy {dyadic(L)} {args}", y, float(yo[0])),
                                         ("z", f"driftx_dz {dyadic(L)} {dyadic(p0c)} {dyadic(M_E)} {args}", z, float(zo[0]))):
                tol = 1e-11 * max(1e-3, abs(out))
                goals.append((f"Rabs ({dyadic(q0)} + {model} - {dyadic(out)}) <= {dyadic(tol)}", "c03_driftx."))
                ctx.append({"kind": "corr_driftx", "class": "bmadx.track_a_drift", "coordinate": name, "length": L,
                            "point": [x, px, y, py, z, pz], "energy": E, "observed": out})
    failing, errs = common.run_real_goals(PID, "entries", PREAMBLE, goals, shard=24)
    # Undulator entries that disagree with the transcription selected by the status of F3: evaluate the other one.  Both are
    # proved symplectic and affine (C03_sympl_undulator / C03_sympl_undulator_fixed ...), so for C03 a stale status is a note only.
    und_fail = [i for i in failing if ctx[i].get("class") == "und"]
    if und_fail:
        g2 = []
        for i in und_fail:
            c = ctx[i]
            m2, t2 = und_model(c["spec"]["kw"], c["energy"], not und_fixed)
            g2.append((goals[i][0].replace("(" + und_model(c["spec"]["kw"], c["energy"], und_fixed)[0] + ")", "(" + m2 + ")"), t2))
        f2, _ = common.run_real_goals(PID, "entries_und_other", PREAMBLE, g2, shard=24)
        if not f2:
            other = optics.undulator_variant_name(not und_fixed)
            run.notes.append(f"Undulator.transfer_map equals {other}, not the transcription selected by the status of finding F3 "
                             f"({'known' if not und_fixed else 'fixed'}): the status is stale; C03 is proved for both transcriptions")
            run.cov["undulator_model"] = other + " [status of F3 is stale]"
            failing = [i for i in failing if i not in und_fail]
    run.cov["traces_validated_against_impl"] += len(goals) - len(failing)
    run.cov["interval_goals"] = len(goals)
    out = []
    for i in failing:
        c = dict(ctx[i])
        c["coq_error"] = errs.get(i, "")[-300:]
        out.append(c)
    return structural, out


# ---------------------------------------------------------------- oracle (iii): autograd Jacobian of track
def jacobian(el, x6, E):
    import cheetah

    def f(x):
        p = torch.cat([x, torch.ones(1, dtype=x.dtype)]).unsqueeze(0)
        b = cheetah.ParticleBeam(p, T(E), dtype=torch.float64)
        return el.track(b).particles[0, :6]
    return torch.autograd.functional.jacobian(f, x6)


def gen_point(rng):
    return [round(rng.uniform(-2e-3, 2e-3), 6), round(rng.uniform(-1e-3, 1e-3), 6), round(rng.uniform(-2e-3, 2e-3), 6),
            round(rng.uniform(-1e-3, 1e-3), 6), round(rng.uniform(-1e-3, 1e-3), 6), round(rng.uniform(-5e-3, 5e-3), 6)]


def gen_nonlinear(rng, kind):
    if kind == "DriftX":
        return {"cls": "Drift", "kw": dict(length=pick(rng, LEN[1:], 0.01, 5.0), tracking_method="bmadx")}
    if kind == "QuadX":
        L = pick(rng, [0.1, 0.25, 0.5, 1.0], 0.05, 1.5)
        k1 = pick(rng, [0.0, 0.5, -0.5, 2.0, -3.0, 10.0, -10.0], -10.0, 10.0)
        return {"cls": "Quadrupole", "kw": dict(length=L, k1=k1, misalignment=rng.choice(MIS), tilt=rng.choice(TILT),
                                                num_steps=rng.choice([1, 2, 3, 5]), tracking_method="bmadx")}
    if kind == "DipoleX":
        # bends of 90 degrees and more take the other exit-position branch (c2) of the Bmad-X body: included on purpose
        angle = pick(rng, [0.01, -0.02, 0.1, -0.3, 0.5, 1.7, -1.9, 2.5], -0.5, 0.5)
        if angle == 0.0:
            angle = 0.05        # angle = 0 is F8 (C09): NaN, out of scope here
        return {"cls": "Dipole", "kw": dict(length=pick(rng, [0.25, 0.5, 1.0], 0.1, 1.5), angle=angle,
                                            dipole_e1=pick(rng, [0.0, 0.05, -0.1], -0.2, 0.2), dipole_e2=pick(rng, [0.0, 0.05, -0.1], -0.2, 0.2),
                                            tilt=rng.choice(TILT), gap=rng.choice([0.0, 0.02]), fringe_integral=rng.choice([0.0, 0.5]),
                                            fringe_at=rng.choice(["both", "both", "neither", "entrance", "exit"]),
                                            fringe_type="linear_edge", tracking_method="bmadx")}
    if kind == "TDC":
        return {"cls": "TransverseDeflectingCavity", "kw": dict(length=pick(rng, [0.25, 0.5, 1.0], 0.1, 1.5),
                                                                voltage=rng.choice([0.0, 1e5, 1e6, -1e6]), phase=rng.choice([0.0, 45.0, 90.0, -30.0]),
                                                                frequency=rng.choice([1e9, 2.856e9]), misalignment=rng.choice(MIS),
                                                                tilt=rng.choice(TILT), num_steps=rng.choice([1, 3]))}
    if kind == "CavityTrack":
        return gen_linear(rng, "CavityOn")
    if kind == "QuadLin":
        s = gen_linear(rng, "Quadrupole")
        return s
    if kind == "DipoleLin":
        return gen_linear(rng, "Dipole")
    raise ValueError(kind)


def check_jac(spec, x, E):
    if spec["cls"] == "Cavity" and spec["kw"]["voltage"] != 0 and cavity_ratio(spec, E) is None:
        return "skip", {"what": "cavity outside domain (Ef <= 0 is rejected by the code, cos(phi) ~ 0)"}
    el = build(spec)
    J = jacobian(el, T(x), E)
    if not bool(torch.isfinite(J).all()):
        return "skip", {"what": "non-finite Jacobian (unspecified region)"}
    if spec["cls"] == "Cavity" and spec["kw"]["voltage"] != 0:
        r = cavity_ratio(spec, E)
        if r is None:
            return "skip", {}
        dx, dy = float(torch.det(J[:2, :2])), float(torch.det(J[2:4, 2:4]))
        if abs(abs(dx) - r) > 1e-9 * abs(r) + 1e-12 or abs(abs(dy) - r) > 1e-9 * abs(r) + 1e-12:
            return "fail", {"what": "Cavity.track Jacobian: |det| of a transverse block != Ei/Ef", "xdet": dx, "ydet": dy, "Ei_over_Ef": r}
        return "ok", {}
    A = J
    d = float((A.T @ S6 @ A - S6).abs().max())
    scale = max(1.0, float((A.abs().T @ S6.abs() @ A.abs()).max()))
    if d > 1e-9 * scale:
        return "fail", {"what": "Jacobian of track: J^T S6 J != S6", "defect": d, "tolerance": 1e-9 * scale}
    return "ok", {"defect": d}


def oracle_jacobians(run, n_per_kind):
    bad = []
    for kind in ["DriftX", "QuadX", "DipoleX", "TDC", "CavityTrack", "QuadLin", "DipoleLin"]:
        k = tries = 0
        while k < n_per_kind and tries < 4 * n_per_kind:
            tries += 1
            spec = gen_nonlinear(run.rng, kind)
            E = gen_energy(run.rng)
            x = gen_point(run.rng)
            try:
                st, det = check_jac(spec, x, E)
            except AssertionError:
                run.count("jac_rejected_" + kind)
                continue
            if st == "skip":
                run.count("jac_skipped_" + kind)
                continue
            k += 1
            run.add_case(["jac", spec, x, E], True)
            run.count("jac_" + kind)
            if st == "fail":
                bad.append({"kind": "jacobian", "spec": spec, "point": x, "energy": E, "detail": det})
    return bad


# ---------------------------------------------------------------- oracle (iv): emittance, seventh component
def rand_cov(rng, scale=1e-3):
    a = [[rng.uniform(-scale, scale) for _ in range(6)] for _ in range(6)]
    cov = [[sum(a[i][k] * a[j][k] for k in range(6)) for j in range(6)] + [0.0] for i in range(6)] + [[0.0] * 7]
    return cov


def oracle_emittance(run, n):
    import cheetah
    bad = []
    kinds = ["Drift", "Quadrupole", "HorizontalCorrector", "VerticalCorrector", "Undulator", "CavityOff", "CavityOn", "Marker"]
    for q in range(n):
        kind = kinds[q % len(kinds)]
        spec = gen_linear(run.rng, kind)
        if kind == "Quadrupole":
            spec["kw"]["tilt"] = 0.0          # a tilted quadrupole couples the planes
        E = gen_energy(run.rng)
        ratio = 1.0
        if kind == "CavityOn":
            ratio = cavity_ratio(spec, E)
            if ratio is None:
                continue
        bt = run.rng.choice(["parameter", "particle"])
        mu = [run.rng.uniform(-1e-3, 1e-3) for _ in range(6)] + [1.0]
        try:
            if bt == "parameter":
                b = cheetah.ParameterBeam(T(mu), T(rand_cov(run.rng)), T(E), dtype=torch.float64)
            else:
                ps = [[run.rng.gauss(0, 1e-3) for _ in range(6)] + [1.0] for _ in range(40)]
                b = cheetah.ParticleBeam(T(ps), T(E), dtype=torch.float64)
            el = build(spec)
            out = el.track(b)
        except AssertionError:
            continue
        ex0, ey0, ex1, ey1 = float(b.emittance_x), float(b.emittance_y), float(out.emittance_x), float(out.emittance_y)
        if not all(math.isfinite(v) for v in (ex0, ey0, ex1, ey1)):
            run.count("emit_skipped_nonfinite")
            continue
        run.add_case(["emit", spec, bt, E], True)
        run.count("emit_" + kind + "_" + bt)
        # conditioning of sxx*spp - sxp^2 after the map: the moments grow like s^2 (s = largest matrix entry), the product like s^4
        s = max(1.0, float(el.transfer_map(T(E))[:6, :6].abs().max()))
        rtol = 1e-7 + 1e-13 * s ** 4
        fail = abs(ex1 - ratio * ex0) > rtol * ex0 or abs(ey1 - ratio * ey0) > rtol * ey0
        # seventh component
        if bt == "parameter":
            one = float(out._mu[..., 6])
            ok7 = one == 1.0
        else:
            ok7 = bool((out.particles[..., 6] == 1.0).all())
        if fail or not ok7:
            bad.append({"kind": "emittance", "spec": spec, "beam_type": bt, "energy": E,
                        "detail": {"what": "emittance not scaled by Ei/Ef (1 for energy-preserving elements)" if fail else "seventh component != 1",
                                   "emit_x_in": ex0, "emit_x_out": ex1, "emit_y_in": ey0, "emit_y_out": ey1, "expected_ratio": ratio}})
    return bad


# ---------------------------------------------------------------- oracle (v): the cavity clause per entry of a VECTORISED cavity (round 6, C03-7)
# "An accelerating or decelerating cavity multiplies the phase-space area of each transverse plane by exactly E_in/E_out": for a cavity
# whose voltage (phase, length, or the beam energy) carries a vector dimension this is a statement about every entry, with the E_out of
# the beam that actually LEAVES (entry by entry), and E_out = E_in + V cos(phi) of that entry.  Cavity alone and as the LAST element of
# a Segment (uncoupled elements in front).  Only transverse emittances and energies are compared: tau of a zero-voltage / decelerating
# entry of a mixed batch is NaN on the unchanged tree (findings F5 / F1 of C04), which does not reach x, px, y, py.
def gen_cavity_vector(rng):
    B = rng.choice([2, 2, 3, 4])
    style = rng.choice(["mixed_zero", "mixed_zero", "mixed_sign", "all_zero", "all_on", "any"])
    on = [1e6, 5e6, 2e7, 3.3e6]
    off = [-1e6, -4e5]
    if style == "mixed_zero":
        V = [0.0] + [rng.choice(on + off) for _ in range(B - 1)]
    elif style == "mixed_sign":
        V = [rng.choice(on), rng.choice(off)] + [rng.choice(on + off) for _ in range(B - 2)]
    elif style == "all_zero":
        V = [0.0] * B
    elif style == "all_on":
        V = [rng.choice(on) for _ in range(B)]
    else:
        V = [rng.choice(on + off + [0.0]) for _ in range(B)]
    rng.shuffle(V)
    ph_pool = [0.0, 30.0, -20.0, 60.0, 135.0, 180.0]
    phase = [rng.choice(ph_pool) for _ in range(B)] if rng.random() < 0.5 else rng.choice(ph_pool)
    length = [rng.choice([0.5, 1.0, 2.0]) for _ in range(B)] if rng.random() < 0.3 else rng.choice([0.5, 1.0, 2.0])
    E = rng.choice([2e7, 1e8, 6e9, float(round(10 ** rng.uniform(7.3, 10.5), 0))])
    energy = [E * f for f in ([1.0, 1.5, 0.8, 2.0][:B])] if rng.random() < 0.25 else E
    front = []
    if rng.random() < 0.6:
        for _ in range(rng.randrange(1, 4)):
            c = rng.choice(["Drift", "Quadrupole", "HorizontalCorrector", "Marker"])
            sp = gen_linear(rng, c)
            if c == "Quadrupole":
                sp["kw"]["tilt"] = 0.0
                sp["kw"]["length"] = min(sp["kw"]["length"], 1.0)
                sp["kw"]["k1"] = max(-10.0, min(10.0, sp["kw"]["k1"]))
            front.append(sp)
    return {"kind": "cavity_vector", "front": front, "beam_type": rng.choice(["parameter", "particle"]), "energy": energy,
            "cavity": {"length": length, "voltage": V, "phase": phase, "frequency": rng.choice([1.3e9, 2.998e9])},
            "beam_seed": rng.randrange(1 << 30)}


def check_cavity_vector(case):
    """-> (status, detail); fail names the entry, the observed emittance ratios / energies and the expected ones"""
    import random
    import cheetah
    cv = case["cavity"]
    V = cv["voltage"]
    B = len(V)
    bc = lambda v: [float(x) for x in (v if isinstance(v, list) else [v] * B)]  # noqa: E731
    Vs, phs, Es = bc(V), bc(cv["phase"]), bc(case["energy"])
    dE = [v * math.cos(float(torch.deg2rad(T(p)))) for v, p in zip(Vs, phs)]
    if any(e + d <= 2 * M_E for e, d in zip(Es, dE)) or any(v != 0 and abs(math.cos(math.radians(p))) < 1e-3 for v, p in zip(Vs, phs)):
        return "skip", {"what": "an entry is outside the cavity clause's domain"}
    cav = cheetah.Cavity(length=T(cv["length"]), voltage=T(V), phase=T(cv["phase"]), frequency=T(cv["frequency"]), name="cav", dtype=torch.float64)
    els = [build(sp) for sp in case["front"]]
    lat = cheetah.Segment(els + [cav]) if (els or case.get("in_segment")) else cav
    r = random.Random(case["beam_seed"])
    mu = [r.uniform(-1e-3, 1e-3) for _ in range(6)] + [1.0]
    if case["beam_type"] == "parameter":
        b = cheetah.ParameterBeam(T(mu), T(rand_cov(r)), T(case["energy"]), dtype=torch.float64)
    else:
        ps = [[r.gauss(0, 1e-3) for _ in range(6)] + [1.0] for _ in range(40)]
        b = cheetah.ParticleBeam(T(ps), T(case["energy"]), dtype=torch.float64)
    try:
        out = lat.track(b)
    except AssertionError:
        return "skip", {"what": "rejected by the code"}
    s = 1.0
    for e in els:
        s *= max(1.0, float(e.transfer_map(T(Es[0]))[:6, :6].abs().max()))
    rtol = 1e-7 + 1e-13 * s ** 4

    def vec(t):
        t = torch.as_tensor(t, dtype=torch.float64)
        if t.dim() > 1:
            raise ValueError(f"shape {tuple(t.shape)} for a batch of {B} entries")
        return [float(x) for x in t.expand(B)]
    try:
        Eo, ex1, ey1 = vec(out.energy), vec(out.emittance_x), vec(out.emittance_y)
        ex0, ey0 = vec(b.emittance_x), vec(b.emittance_y)
        seven = out._mu[..., 6] if case["beam_type"] == "parameter" else out.particles[..., 6]
    except Exception as ex:
        return "fail", {"what": "outgoing beam does not carry one entry per cavity entry: " + repr(ex)[:200],
                        "energy_shape": list(out.energy.shape), "emittance_shape": list(out.emittance_x.shape)}
    fails = []
    for k in range(B):
        if not all(math.isfinite(v) for v in (Eo[k], ex1[k], ey1[k], ex0[k], ey0[k])):
            fails.append({"entry": k, "what": "non-finite outgoing energy / transverse emittance", "E_out": Eo[k], "emit_x_out": ex1[k], "emit_y_out": ey1[k]})
            continue
        want_E = Es[k] + dE[k]
        if abs(Eo[k] - want_E) > 1e-12 * max(abs(want_E), abs(Es[k])):
            fails.append({"entry": k, "what": "E_out != E_in + V cos(phi) of this entry", "E_in": Es[k], "voltage": Vs[k], "phase_deg": phs[k],
                          "E_out": Eo[k], "expected_E_out": want_E})
        ratio = Es[k] / Eo[k]
        if abs(ex1[k] - ratio * ex0[k]) > rtol * ex0[k] or abs(ey1[k] - ratio * ey0[k]) > rtol * ey0[k]:
            fails.append({"entry": k, "what": "transverse emittance ratio != E_in/E_out of the outgoing beam of this entry", "voltage": Vs[k],
                          "phase_deg": phs[k], "E_in": Es[k], "E_out": Eo[k], "E_in_over_E_out": ratio, "emit_x_ratio": ex1[k] / ex0[k],
                          "emit_y_ratio": ey1[k] / ey0[k], "rtol": rtol})
    if not bool((seven == 1.0).all()):
        fails.append({"what": "seventh component != 1"})
    if fails:
        return "fail", {"what": fails[0]["what"], "entries": fails[:4], "n_entries": B}
    return "ok", {}


def shrink_cavity_vector(item):
    """drop the elements in front, then reduce the batch to two entries, while the failure persists"""
    case = json.loads(json.dumps({k: v for k, v in item.items() if k not in ("detail",)}))

    def fails(c):
        try:
            return check_cavity_vector(c)[0] == "fail"
        except Exception:
            return False
    had_front = bool(case["front"])
    while case["front"]:
        t = dict(case, front=case["front"][1:], in_segment=True)
        if not fails(t):
            break
        case = t
    if had_front and not case["front"]:
        t = dict(case, in_segment=False)
        if fails(t):
            case = t
    B = len(case["cavity"]["voltage"])
    if B > 2:
        sel = lambda v, idx: [v[i] for i in idx] if isinstance(v, list) else v  # noqa: E731
        done = False
        for i in range(B):
            for j in range(i + 1, B):
                t = json.loads(json.dumps(case))
                t["cavity"] = {k: sel(v, (i, j)) for k, v in case["cavity"].items()}
                t["energy"] = sel(case["energy"], (i, j))
                if fails(t):
                    case, done = t, True
                    break
            if done:
                break
    st, det = check_cavity_vector(case)
    return dict(case, detail=det) if st == "fail" else item


def oracle_cavity_vector(run, n):
    bad = []
    k = tries = 0
    while k < n and tries < 4 * n:
        tries += 1
        case = gen_cavity_vector(run.rng)
        try:
            st, det = check_cavity_vector(case)
        except Exception as ex:      # an exception of the implementation is an observation
            st, det = "fail", {"what": "exception: " + repr(ex)[:300]}
        if st == "skip":
            run.count("cavvec_skipped")
            continue
        k += 1
        run.add_case(["cavity_vector", case], True)
        V = case["cavity"]["voltage"]
        run.count("cavvec_" + ("segment_last" if case["front"] else "alone") + "_" + case["beam_type"])
        run.count("cavvec_" + ("mixed_zero_nonzero" if (0.0 in V and any(V)) else "all_zero" if not any(V) else
                               "mixed_sign" if (min(V) < 0 < max(V)) else "all_nonzero_one_sign"))
        if isinstance(case["cavity"]["phase"], list):
            run.count("cavvec_vector_phase")
        if isinstance(case["energy"], list):
            run.count("cavvec_vector_beam_energy")
        if st == "fail":
            bad.append(dict(case, detail=det))
    return bad


def oracle_seventh_track(run, n):
    """seventh component of every particle exactly one after track, for the non-linear paths too"""
    import cheetah
    bad = []
    for q in range(n):
        kind = ["DriftX", "QuadX", "DipoleX", "TDC", "CavityTrack"][q % 5]
        spec = gen_nonlinear(run.rng, kind)
        E = gen_energy(run.rng)
        ps = [gen_point(run.rng) + [1.0] for _ in range(5)]
        if spec["cls"] == "Cavity" and cavity_ratio(spec, E) is None:
            continue
        try:
            out = build(spec).track(cheetah.ParticleBeam(T(ps), T(E), dtype=torch.float64))
        except AssertionError:
            continue
        if not bool(torch.isfinite(out.particles).all()):
            continue
        run.add_case(["seventh", spec, E], True)
        run.count("seventh_" + kind)
        if not bool((out.particles[..., 6] == 1.0).all()):
            bad.append({"kind": "seventh", "spec": spec, "energy": E, "particles": ps,
                        "detail": {"what": "seventh component of particles != 1 after track", "got": out.particles[..., 6].tolist()}})
    return bad


# ---------------------------------------------------------------- replay / verdict
def recheck(item):
    k = item["kind"]
    if k == "map":
        return check_map(item["spec"], item["energy"])
    if k == "jacobian":
        return check_jac(item["spec"], item["point"], item["energy"])
    if k == "cavity_vector":
        return check_cavity_vector(item)
    return "fail", item.get("detail")


def shrink_map(item):
    """zero parameters one at a time while the failure persists"""
    spec = json.loads(json.dumps(item["spec"]))
    for key in list(spec["kw"].keys()):
        v = spec["kw"][key]
        for z in ([0.0, 0.0] if isinstance(v, list) else [0.0]) if key in ("misalignment", "tilt", "gap", "fringe_integral", "dipole_e1", "dipole_e2",
                                                                           "rbend_e1", "rbend_e2") else []:
            trial = json.loads(json.dumps(spec))
            trial["kw"][key] = [0.0, 0.0] if isinstance(v, list) else 0.0
            try:
                it = dict(item, spec=trial)
                if recheck(it)[0] == "fail":
                    spec = trial
            except Exception:
                pass
    out = dict(item, spec=spec)
    st, det = recheck(out)
    out["detail"] = det
    return out if st == "fail" else item


def do_replay(run, path):
    r = json.loads(open(path).read())
    common.setup_python_env()
    if r.get("kind") in ("map", "jacobian", "cavity_vector"):
        st, det = recheck(r)
        print("replay:", "property holds on this input" if st != "fail" else f"property FAILS on this input: {det}")
        return 1 if st == "fail" else 0
    if r.get("kind") == "corr_entry":
        M = build(r["spec"]).transfer_map(T(r["energy"]))
        i, j = r["entry"]
        print(f"replay: entry [{i},{j}] now {float(M[i, j])!r}, was {r['observed']!r}; symplectic check:", check_map(r["spec"], r["energy"]))
        return 1 if check_map(r["spec"], r["energy"])[0] == "fail" else 0
    print("replay: nothing to re-run for kind", r.get("kind"))
    return 0


def main(tier, replay=None):
    run = common.Run(PID, tier)
    common.setup_python_env()
    thorough = tier == "thorough"
    run.cov["rule"] = ("per element class: parameters from special values (0, tiny, both signs, large) mixed with uniform draws; tilt, misalignment; "
                       "energies log-uniform 1.5 MeV..50 GeV plus special values. transfer_map(E) in float64: M^T S6 M = S6 within 1e-11*scale, "
                       "seventh row exact, cavity block determinant = Ei/Ef; entries of drift/quadrupole/solenoid/cavity maps vs the Coq model via "
                       "`interval` goals; autograd Jacobian of track at random paraxial off-axis points for Bmad-X drift/quadrupole/dipole, TDC, cavity; "
                       "emittance before/after on random beams. Non-trivial = at least one non-zero length/strength; distinct by full case content.")
    if replay:
        return do_replay(run, replay)
    proof_ok = run.proof_stage()
    # second tie (Bmad-X / conversions): re-translated from REPO's source and proved equal to Bmadx/*.v, Beam/SI.v (Gen/BmadxGenEquiv.v)
    import translate_stage
    trx = translate_stage.translator_obligation_bmadx(run)
    if trx["status"] != "ok":
        run.notes.append("translator obligation (bmadx): " + json.dumps(translate_stage.replay_fields_bmadx(trx))[:600])
    # second tie: the linear-optics core is re-translated from REPO's source and proved equal to Optics/Maps.v (Gen/MapsGenEquiv.v)
    import translate_stage
    tr = translate_stage.translator_obligation(run)
    if tr["status"] != "ok":
        run.notes.append("translator obligation: " + json.dumps(translate_stage.replay_fields(tr))[:600])
    if not proof_ok:
        run.notes.append(run.proof_problem)

    import time
    import warnings
    warnings.filterwarnings("ignore", category=UserWarning)
    timing = run.cov.setdefault("stage_seconds", {})

    def stage(name, fn, *a):
        t0 = time.time()
        r = fn(run, *a)
        timing[name] = round(time.time() - t0, 1)
        return r
    timing["proof"] = round(time.time() - run.t0, 1)
    structural, corr_fail = stage("correspondence", correspondence, 40 if thorough else 8)
    bad = []
    bad += stage("maps", oracle_maps, 150 if thorough else 14)
    bad += stage("segments", oracle_segments, 200 if thorough else 15)
    bad += stage("jacobians", oracle_jacobians, 120 if thorough else 8)
    bad += stage("emittance", oracle_emittance, 800 if thorough else 64)
    bad += stage("seventh", oracle_seventh_track, 200 if thorough else 20)
    bad += stage("cavity_vector", oracle_cavity_vector, 600 if thorough else 60)
    run.cov["proved_nonlinear"] = [
        "Bmad-X drift: Jacobian symplectic at every point of the paraxial region (C03_driftx_*)",
        "Bmad-X quadrupole (Coq model Bmadx/QuadX.v of C07, eps := 0): the explicit matrix quadx_jac is the derivative of the coded step along every "
        "direction at every point with 1+pz > 0, k1 != 0, and J^T S J = S (C03_quadx_step_symplectic); whole element with num_steps, misalignment, "
        "tilt (C03_quadx_element_symplectic); transfer to Cheetah coordinates (C03_bmadx_cheetah_symplectic)",
        "Bmad-X dipole (Coq model Bmadx/BendX.v of C07): the exact sector map's 6x6 Jacobian (all 36 entries) = shear * rotation * shear, symplectic "
        "(C03_sector_map_symplectic); the coded fringe ; body ; fringe with tilt at every point around which the code is defined and arctan2 does "
        "not wrap (C03_bendx_element_symplectic)",
    ]
    run.cov["tested_only"] = [
        "Bmad-X quadrupole with the CODED eps = 2^-52 in sqrt(|k1|+eps): symplectic only up to eps; the defect 1 -+ eps*sx^2 of the (x,px) entry is proved "
        "(C03_quadx_eps_defect_partial); k1 = 0 (code: sqrt(eps) branch) and the branch threshold of low_energy_z_correction (a jump of < 4e-13*L in z) "
        "are outside the theorem; the autograd oracle (1e-9) covers them",
        "Bmad-X dipole: that the region where the code is defined (bb_defined) and arctan2 does not wrap is OPEN is not proved in general (BendXJacLoc has it "
        "along the axes at the design orbit): the theorem assumes a neighbourhood along every line; bends below -pi (finding F70 of C07) are outside",
        "chain rule through the non-linear coordinate change (tau,delta) <-> (z,pz): proved at the level of matrices (any Jc with N_out Jc = Jb N_in), "
        "the Jacobians N themselves only through C03_dpz_ddelta",
        "TDC kick, Cavity.track: Jacobian symplecticity / block determinant checked numerically (autograd, 1e-9), not proved",
        "the Coq models of the Bmad-X quadrupole and dipole are tied to the code value by value by C07's correspondence; here the autograd Jacobian of "
        "the real track() at random off-axis points (incl. tilt, misalignment, num_steps, bends >= 90 degrees) is the tie",
        "tilted / misaligned quadrupole, dipole, rbend, corrector, undulator entries are tied to the model only through the symplectic/affine oracle "
        "and the closure theorems, not entry by entry (that is C02's correspondence)",
        "six-dimensional determinant = 1 (follows from M^T S M = S; not proved as a separate Coq statement)",
        "emittance invariance on real beams (1e-7 relative)",
        "cavity clause per entry of a vectorised cavity (voltage / phase / length / beam energy vectors; zero, non-zero, mixed-sign entries), alone and "
        "as the last element of a Segment, both beam types: emittance ratio == E_in/E_out of the outgoing beam of that entry, E_out == E_in + V cos(phi)",
    ]
    for f in common.load_known_findings(PID):
        run.cov["known_findings_not_reproduced"].append(f["id"])  # none are expected for C03

    # ---- verdict
    if bad:
        item = bad[0]
        if item["kind"] == "map":
            item = shrink_map(item)
        if item["kind"] == "cavity_vector":
            item = shrink_cavity_vector(item)
        rel = ("per entry of a vectorised cavity (alone / last element of a Segment): emittance_out / emittance_in == E_in / E_out of the outgoing beam "
               "of that entry, and E_out == E_in + V cos(phi) of that entry") if item["kind"] == "cavity_vector" else \
            "J^T S6 J = S6 (S6 = diag(J2,J2,-J2)), seventh row/component = 1, cavity block det = Ei/Ef"
        run.violation(dict(item, relation=rel,
                           n_failing=len(bad), others=[b["detail"] for b in bad[1:4]]))
    elif structural or corr_fail:
        item = (structural or corr_fail)[0]
        run.violation(dict(item, broken="transfer_map entry disagrees with the Coq model Optics/Maps.v", n_failing=len(structural) + len(corr_fail)),
                      no_input=True)
    elif tr["status"] != "ok":
        # the source no longer translates to the proved model; none of this run's oracles found a failing input
        run.violation(translate_stage.replay_fields(tr), no_input=True)
    elif trx["status"] != "ok":
        # the Bmad-X / conversion source no longer translates to the proved model; none of this run's oracles found a failing input
        run.violation(translate_stage.replay_fields_bmadx(trx), no_input=True)
    elif not proof_ok:
        run.violation({"kind": "proof", "broken": run.proof_problem}, no_input=True)
    return run.finish("proof")
