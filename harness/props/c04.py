"""C04 -- Vectorised tracking equals tracking each setting separately."""
import itertools
import json

import torch

import ast_sites
import common
import realgen

PID = "C04"
TRAILING = {"misalignment": 1, "predefined_transfer_map": 2, "pixel_size": 1}   # non-batch trailing dims of tensor kwargs
NO_VEC = {"pixel_size", "predefined_transfer_map", "x_max", "y_max", "kde_bandwidth", "grid_extend_x", "grid_extend_y", "grid_extend_tau"}
CLASSES = ["Drift", "Quadrupole", "Dipole", "RBend", "Solenoid", "HorizontalCorrector", "VerticalCorrector", "Cavity", "Undulator",
           "TransverseDeflectingCavity", "Marker", "BPM", "Aperture", "CustomTransferMap", "SpaceChargeKick"]
SPECIAL = {
    "length": [0.0, 0.3, 1.0], "k1": [0.0, 2.0, -3.0], "angle": [0.0, 0.05, -0.1], "tilt": [0.0, 0.2, -0.4], "k": [0.0, 1.0, -0.5],
    "voltage": [0.0, 2e6, -1e6, -3e6, 5e6], "phase": [0.0, 30.0, 200.0, 180.0], "frequency": [1.3e9, 2.998e9], "misalignment": [[0.0, 0.0], [1e-3, -2e-3]],
    "dipole_e1": [0.0, 0.05], "dipole_e2": [0.0, -0.05], "rbend_e1": [0.0, 0.05], "rbend_e2": [0.0, -0.05], "gap": [0.0, 0.02],
    "fringe_integral": [0.0, 0.5], "effect_length": [0.1, 0.4], "gap_exit": [0.0, 0.03], "fringe_integral_exit": [0.0, 0.4],
}
BATCH_SHAPES = [(), (1,), (2,), (3,), (2, 1), (1, 3), (2, 3)]


def bshape(a, b):
    try:
        return tuple(torch.broadcast_shapes(a, b))
    except RuntimeError:
        return None


def nested(rng, shape, pool):
    if not shape:
        return rng.choice(pool)
    return [nested(rng, shape[1:], pool) for _ in range(shape[0])]


def gen_vec_element(rng, cls, eshape, method):
    spec = realgen.gen_element(rng, cls=cls, name="e", method=method)
    vec = []
    for k in list(spec["kw"]):
        if k in realgen.TENSOR_KW and k not in NO_VEC and k in SPECIAL and eshape and rng.random() < 0.6:
            spec["kw"][k] = nested(rng, eshape, SPECIAL[k])
            vec.append(k)
    if eshape and not vec:
        k = next((k for k in spec["kw"] if k in SPECIAL and k not in NO_VEC), None)
        if k:
            spec["kw"][k] = nested(rng, eshape, SPECIAL[k])
    return spec


def gen_vec_beam(rng, btype, bs, n):
    if btype == "particle":
        def one():
            return realgen.gen_particle_beam(rng, n=n, energy=1e7)["particles"]
        ps = one() if not bs else nested_call(bs, one)
        en = rng.choice([1e7, 5e7]) if (not bs or rng.random() < 0.5) else nested(rng, bs, [1e7, 5e7, 2e8])
        return {"type": "particle", "particles": ps, "energy": en, "charges": [1e-12] * n, "survival": [1.0] * n}
    def onep():
        return realgen.gen_parameter_beam(rng, energy=1e7)
    if not bs:
        b = onep()
        b["energy"] = rng.choice([1e7, 5e7])
        return b
    bb = nested_call(bs, onep)
    return {"type": "parameter", "mu": map_nested(bb, bs, lambda x: x["mu"]), "cov": map_nested(bb, bs, lambda x: x["cov"]),
            "energy": nested(rng, bs, [1e7, 5e7, 2e8]) if rng.random() < 0.5 else 1e7, "total_charge": 1e-12}


def nested_call(shape, f):
    if not shape:
        return f()
    return [nested_call(shape[1:], f) for _ in range(shape[0])]


def map_nested(x, shape, f):
    if not shape:
        return f(x)
    return [map_nested(y, shape[1:], f) for y in x]


def proj(t, trailing, idx):
    """entry of tensor t (batch shape = shape[:-trailing]) for the full batch index idx"""
    bs = t.shape[: t.dim() - trailing]
    if not bs:
        return t
    sub = idx[len(idx) - len(bs):]
    sub = tuple(0 if bs[d] == 1 else sub[d] for d in range(len(bs)))
    return t[sub]


def scalar_spec(spec, idx):
    if spec["cls"] == "Segment":
        return {"cls": "Segment", "name": spec["name"], "es": [scalar_spec(c, idx) for c in spec["es"]]}
    kw = {}
    for k, v in spec["kw"].items():
        if k in realgen.TENSOR_KW and v is not None:
            t = torch.tensor(v, dtype=torch.float64)
            kw[k] = proj(t, TRAILING.get(k, 0), idx).tolist()
        else:
            kw[k] = v
    return {"cls": spec["cls"], "name": spec["name"], "kw": kw}


def scalar_beam(beam, idx):
    b = dict(beam)
    if beam["type"] == "particle":
        b["particles"] = proj(torch.tensor(beam["particles"], dtype=torch.float64), 2, idx).tolist()
    else:
        b["mu"] = proj(torch.tensor(beam["mu"], dtype=torch.float64), 1, idx).tolist()
        b["cov"] = proj(torch.tensor(beam["cov"], dtype=torch.float64), 2, idx).tolist()
    b["energy"] = proj(torch.tensor(beam["energy"], dtype=torch.float64), 0, idx).tolist()
    return b


def elem_batch_shape(spec):
    shapes = [()]
    specs = spec["es"] if spec["cls"] == "Segment" else [spec]
    for s in specs:
        if s["cls"] == "Segment":
            shapes.append(elem_batch_shape(s))
            continue
        for k, v in s["kw"].items():
            if k in realgen.TENSOR_KW and v is not None:
                t = torch.tensor(v, dtype=torch.float64)
                shapes.append(tuple(t.shape[: t.dim() - TRAILING.get(k, 0)]))
    return tuple(torch.broadcast_shapes(*shapes))


def beam_batch_shape(beam):
    if beam["type"] == "particle":
        s = torch.tensor(beam["particles"]).shape[:-2]
    else:
        s = torch.tensor(beam["mu"]).shape[:-1]
    return tuple(torch.broadcast_shapes(s, torch.tensor(beam["energy"]).shape))


TRAIL_OUT = {"particles": 2, "energy": 0, "particle_charges": 1, "survival_probabilities": 1, "_mu": 1, "_cov": 2, "total_charge": 0}


LAST = {}      # structured description of the last non-ok comparison: {"name": observable, "idx": batch index}


def _energy_agrees(out, ref, idx):
    """does the reference energy of batch entry idx equal the scalar run's?  (the listed cavity findings F1 / F5 concern tau and NaN
    coordinates only: an entry whose ENERGY differs is a different defect)"""
    try:
        x = proj(out.energy, TRAIL_OUT["energy"], idx)
        y = ref.energy
        x, y = torch.broadcast_tensors(x, y)
        return bool(torch.all((x - y).abs() <= 1e-10 * torch.maximum(x.abs(), y.abs()) + 1e-16))
    except Exception:
        return False


def compare_case(spec, beam):
    """Returns (status, detail).  status in ok / skip / mismatch / nan_from_neighbour / shape / exception."""
    LAST.clear()
    try:
        full = bshape(elem_batch_shape(spec), beam_batch_shape(beam))
    except RuntimeError:
        return "skip", "incompatible shapes"
    if full is None:
        return "skip", "incompatible shapes"
    try:
        out = realgen.build(spec).track(realgen.build_beam(beam))
    except Exception as ex:
        # does every scalar run work?  then the batch raising is a violation of "broadcasts to the combined shape"
        try:
            for idx in itertools.product(*[range(n) for n in full]):
                realgen.build(scalar_spec(spec, idx)).track(realgen.build_beam(scalar_beam(beam, idx)))
        except Exception:
            return "skip", "scalar run raises too"
        return "exception", f"{type(ex).__name__}: {str(ex)[:200]}"
    names = ["particles", "energy", "particle_charges", "survival_probabilities"] if beam["type"] == "particle" else ["_mu", "_cov", "energy", "total_charge"]
    for n in names:
        t = getattr(out, n)
        bs = tuple(t.shape[: t.dim() - TRAIL_OUT[n]])
        if bshape(bs, full) != full:
            return "shape", f"{n} has batch shape {bs}, expected broadcastable to {full}"
    for idx in itertools.product(*[range(k) for k in full]):
        try:
            ref = realgen.build(scalar_spec(spec, idx)).track(realgen.build_beam(scalar_beam(beam, idx)))
        except Exception:
            return "skip", "scalar run raises"
        for n in names:
            x = getattr(out, n)
            if n == "total_charge" and x.dim() == 1 and x.shape[0] == 1:
                x = x[0]
            x = proj(x, TRAIL_OUT[n], idx)
            y = getattr(ref, n)
            if n == "total_charge" and y.dim() == 1 and y.shape[0] == 1:
                y = y[0]
            try:
                x, y = torch.broadcast_tensors(x, y)
            except RuntimeError:
                return "shape", f"{n} entry {idx}: {tuple(x.shape)} vs scalar {tuple(y.shape)}"
            fin_y = torch.isfinite(y)
            if torch.any(fin_y & ~torch.isfinite(x)):
                LAST.update(name=n, idx=list(idx), energy_ok=_energy_agrees(out, ref, idx))
                return "nan_from_neighbour", f"{n} entry {idx} is finite alone but NaN/inf in the batch"
            m = fin_y & torch.isfinite(x)
            d = (x - y).abs()[m]
            tol = (1e-10 * torch.maximum(x.abs(), y.abs()) + 1e-16)[m]
            if d.numel() and torch.any(d > tol):
                LAST.update(name=n, idx=list(idx), energy_ok=_energy_agrees(out, ref, idx))
                return "mismatch", f"{n} entry {idx}: max |batch - scalar| = {float(d.max()):.3e}"
    return "ok", ""


# ---------------------------------------------------------------- known-finding signatures
def flat(v):
    return [float(x) for x in torch.tensor(v, dtype=torch.float64).flatten().tolist()]


def entry_value(v, trailing, idx):
    """value of a (possibly vectorised) keyword argument at the batch index idx"""
    t = torch.tensor(v, dtype=torch.float64)
    return proj(t, trailing, tuple(idx)) if idx is not None else t


def sig_F4(spec):
    """Dipole/RBend whose vectorised length mixes zero and non-zero entries (whole-tensor branch dipole.py)"""
    for s in (spec["es"] if spec["cls"] == "Segment" else [spec]):
        if s["cls"] in ("Dipole", "RBend"):
            ls = flat(s["kw"].get("length", 0.0))
            if any(x == 0.0 for x in ls) and any(x != 0.0 for x in ls) and any(a != 0.0 for a in flat(s["kw"].get("angle", 0.0))):
                return True
    return False


def sig_F5(spec, beam):
    """Cavity batch mixing accelerating (dE>0) with non-accelerating (dE<=0) entries"""
    import math
    for s in (spec["es"] if spec["cls"] == "Segment" else [spec]):
        if s["cls"] == "Cavity":
            v = torch.tensor(s["kw"].get("voltage", 0.0), dtype=torch.float64)
            ph = torch.deg2rad(torch.tensor(s["kw"].get("phase", 0.0), dtype=torch.float64))
            try:
                de = (v * torch.cos(ph)).flatten()
            except RuntimeError:
                return True
            if torch.any(de > 0) and torch.any(de <= 0):
                return True
    return False


def sig_F1(spec):
    """inside a Segment, a Cavity whose voltage batch mixes zero and non-zero entries: the batch is not skippable (tracked by
    Cavity.track with its second-order tau term), the zero-voltage entry alone is skippable (merged linear map only)"""
    if spec["cls"] != "Segment":
        return False
    for s in spec["es"]:
        if s["cls"] == "Cavity":
            v = flat(s["kw"].get("voltage", 0.0))
            if any(x == 0.0 for x in v) and any(x != 0.0 for x in v):
                return True
    return False


def sig_F23(spec, beam):
    """TransverseDeflectingCavity whose misalignment (or tilt) carries a batch shape different from the beam's: the final torch.stack
    is not preceded by broadcast_tensors (Drift and Quadrupole do broadcast)"""
    for s in (spec["es"] if spec["cls"] == "Segment" else [spec]):
        if s["cls"] == "TransverseDeflectingCavity":
            ms = tuple(torch.tensor(s["kw"].get("misalignment", [0.0, 0.0])).shape[:-1])
            ts = tuple(torch.tensor(s["kw"].get("tilt", 0.0)).shape)
            es = tuple(torch.broadcast_shapes(ms, ts))
            if es and es != beam_batch_shape(beam):
                return True
    return False


def sig_F21(spec, beam):
    for s in (spec["es"] if spec["cls"] == "Segment" else [spec]):
        if s["cls"] == "SpaceChargeKick" and torch.tensor(s["kw"]["effect_length"]).dim() > 0:
            return True
    return False


def classify(run, spec, beam, status, detail):
    """A failing case counts as a listed finding only if the entry that fails is one the finding is about (so that a different
    defect in the same configuration is still reported)."""
    idx = LAST.get("idx")
    name = LAST.get("name")
    elems = spec["es"] if spec["cls"] == "Segment" else [spec]

    def at_entry(cls_names, key, pred, default=0.0):
        if idx is None:
            return True
        for s in elems:
            if s["cls"] in cls_names:
                try:
                    if pred(float(entry_value(s["kw"].get(key, default), 0, idx))):
                        return True
                except Exception:
                    return True
        return False

    if sig_F4(spec) and status in ("mismatch", "nan_from_neighbour") and at_entry(("Dipole", "RBend"), "length", lambda L: L == 0.0) \
            and name in ("particles", "_mu", "_cov", None):
        run.known("Dipole/RBend with a vectorised length mixing zero and non-zero entries: the zero-length entry is tracked differently than alone (whole-tensor branch `torch.any(self.length != 0.0)`) [F4]")
        return True
    def f5_entry():
        import math
        if idx is None:
            return True
        for s_ in elems:
            if s_["cls"] == "Cavity":
                try:
                    V = float(entry_value(s_["kw"].get("voltage", 0.0), 0, idx))
                    ph = math.radians(float(entry_value(s_["kw"].get("phase", 0.0), 0, idx)))
                    if V * math.cos(ph) <= 0:
                        return True
                except Exception:
                    return True
        return False
    if sig_F5(spec, beam) and status in ("mismatch", "nan_from_neighbour") and name in ("particles", "_mu", "_cov", None) \
            and f5_entry() and LAST.get("energy_ok", True):
        run.known("Cavity batch mixing accelerating and non-accelerating entries: the latter get NaN / wrong tau (whole-tensor branch `torch.any(delta_energy > 0)`) [F5]")
        return True
    if sig_F1(spec) and status == "mismatch" and at_entry(("Cavity",), "voltage", lambda V: V == 0.0) and name in ("particles", "_mu", "_cov", None) \
            and LAST.get("energy_ok", True):
        run.known("Segment containing a Cavity whose voltage batch mixes zero and non-zero entries: the zero-voltage entry is tracked with Cavity.track's second-order tau term in the batch but by its linear map alone (same root as F1: Cavity(voltage=0).track != its transfer_map) [F1]")
        return True
    if sig_F23(spec, beam) and status == "exception":
        run.known("TransverseDeflectingCavity with vectorised misalignment/tilt and a beam of a different (broadcast-compatible) batch shape raises in torch.stack instead of broadcasting [F23]")
        return True
    if sig_F21(spec, beam) and status in ("exception", "shape"):
        run.known("SpaceChargeKick with a vectorised effect_length and a beam without that batch dimension raises instead of broadcasting [F21]")
        return True
    return False


def replay_known(run):
    """Replay the stored input of every listed finding: a known one must still fail (else it is noted as not reproduced);
    a fixed one must now pass (else the defect has returned: VIOLATION)."""
    for f in common.load_known_findings(PID):
        st, detail = compare_case(f["replay"]["spec"], f["replay"]["beam"])
        failing = st in ("mismatch", "nan_from_neighbour", "exception", "shape")
        if f.get("status") == "known":
            if failing:
                run.known(f["what"])
            else:
                run.cov["known_findings_not_reproduced"].append(f["id"])
        elif failing:
            run.violation({"kind": "fixed_finding_returned", "finding": f["id"], "spec": f["replay"]["spec"], "beam": f["replay"]["beam"],
                           "status": st, "detail": detail, "line": f.get("line")})


# ---------------------------------------------------------------- regenerated inventory obligation
def sites_obligation(run):
    _, branch = ast_sites.scan(common.REPO)
    src = ("From Coq Require Import List Bool String.\nFrom Cheetah Require Import Ops.BatchSites.\nImport ListNotations. Open Scope string_scope.\n"
           + ast_sites.coq_sites("found", branch) + "\n"
           "Theorem sites_covered_now : sites_covered found = true. Proof. vm_compute. reflexivity. Qed.\n"
           "Theorem sites_present_now : sites_present found = true. Proof. vm_compute. reflexivity. Qed.\n")
    path = common.BUILD / PID / "BranchSites.v"
    path.parent.mkdir(parents=True, exist_ok=True)
    path.write_text(src)
    rc, out, err = common.coqc(path)
    run.cov["obligations"] += 2
    run.cov["branch_sites_found"] = len(branch)
    if rc == 0:
        run.cov["discharged"] += 2
        return None
    return f"whole-tensor branch inventory changed: {err[-600:]}"


def main(tier, replay=None):
    run = common.Run(PID, tier)
    thorough = tier == "thorough"
    run.cov["rule"] = ("batch-vs-scalar differential runs on the real code: every element class (and 2-3 element segments), both beam types, both "
                       "tracking methods, batch shapes (),(1,),(2,),(3,),(2,1),(1,3),(2,3) on element parameters and/or beam, values drawn from "
                       "special-value pools (zero/non-zero, both signs, tilted/untilted, aligned/misaligned, zero/non-zero length); entry i of the batch "
                       "result is compared with the scalar run on entry i (1e-10 relative; NaN/inf channel). Non-trivial = combined batch size >= 2. "
                       "Plus: the inventory of whole-tensor branches regenerated from the source must equal the analysed list (vm_compute).")
    if replay:
        r = json.loads(open(replay).read())
        st, detail = compare_case(r["spec"], r["beam"])
        print("replay:", st, detail)
        return 0 if st in ("ok", "skip") else 1
    proof_ok = run.proof_stage()
    site_problem = sites_obligation(run)
    n = 5000 if thorough else 260
    bad = []
    # targeted: the element whose is_active / is_skippable flag a Segment consults carries strengths of MIXED SIGN (and an exact zero):
    # a flag computed from the sign (voltage > 0) or from the whole batch decides differently for the batch than for an entry alone
    STRENGTH = {"Cavity": ("voltage", [2e6, -2e6, 0.0]), "TransverseDeflectingCavity": ("voltage", [1e6, -1e6, 0.0]), "Quadrupole": ("k1", [2.0, -3.0, 0.0]),
                "Solenoid": ("k", [0.8, -0.5, 0.0]), "HorizontalCorrector": ("angle", [1e-3, -2e-3, 0.0]), "VerticalCorrector": ("angle", [1e-3, -2e-3, 0.0]),
                "Dipole": ("angle", [0.05, -0.02, 0.0]), "RBend": ("angle", [0.05, -0.02, 0.0])}
    targeted = []
    for cls, (key, vals) in STRENGTH.items():
        for btype in (["particle"] if cls == "TransverseDeflectingCavity" else ["particle", "parameter"]):
            vs = list(vals)
            run.rng.shuffle(vs)
            el = gen_vec_element(run.rng, cls, (), "cheetah")
            el["kw"][key] = vs
            if cls == "Cavity":
                el["kw"]["phase"] = run.rng.choice([0.0, 180.0, 30.0])
            d1, d2 = gen_vec_element(run.rng, "Drift", (), "cheetah"), gen_vec_element(run.rng, "Drift", (), "cheetah")
            spec = {"cls": "Segment", "name": "s", "es": [d1, el, d2]}
            for j, c in enumerate(spec["es"]):
                c["name"] = f"e{j}"
            targeted.append((spec, gen_vec_beam(run.rng, btype, (), 3), btype))
    for i in range(n + len(targeted)):
        rng = run.rng
        if i < len(targeted):
            spec, beam, btype = targeted[i]
            run.count("targeted_mixed_sign_" + spec["es"][1]["cls"])
            try:
                st, detail = compare_case(spec, beam)
            except Exception as ex:
                run.count("harness_exception_" + type(ex).__name__)
                continue
            if st == "skip":
                run.count("skipped_" + detail.replace(" ", "_"))
                continue
            run.add_case([spec, beam], True)
            if st != "ok" and not classify(run, spec, beam, st, detail):
                bad.append({"spec": spec, "beam": beam, "status": st, "detail": detail})
            continue
        seg = rng.random() < 0.25
        es = rng.choice(BATCH_SHAPES)
        bs = rng.choice(BATCH_SHAPES)
        if bshape(es, bs) is None:
            bs = ()
        btype = rng.choice(["particle", "particle", "parameter"])
        method = rng.choice(["cheetah", "cheetah", "bmadx"]) if btype == "particle" else "cheetah"
        if seg:
            classes = [rng.choice(CLASSES[:9] + ["Marker", "Aperture", "CustomTransferMap"]) for _ in range(rng.choice([2, 3]))]
            spec = {"cls": "Segment", "name": "s", "es": [gen_vec_element(rng, c, es if rng.random() < 0.7 else (), method) for c in classes]}
            for j, c in enumerate(spec["es"]):
                c["name"] = f"e{j}"
        else:
            cls = rng.choice(CLASSES)
            if cls in ("TransverseDeflectingCavity", "SpaceChargeKick"):
                btype = "particle"
            spec = gen_vec_element(rng, cls, es, method)
        beam = gen_vec_beam(rng, btype, bs, rng.choice([2, 3]))
        try:
            st, detail = compare_case(spec, beam)
        except Exception as ex:
            run.count("harness_exception_" + type(ex).__name__)
            continue
        if st == "skip":
            run.count("skipped_" + detail.replace(" ", "_"))
            continue
        full = bshape(elem_batch_shape(spec), beam_batch_shape(beam)) or ()
        size = 1
        for k in full:
            size *= k
        run.add_case([spec, beam], size >= 2)
        run.count("shape_" + "x".join(map(str, full)) if full else "shape_scalar")
        run.count("cls_" + (spec["cls"] if spec["cls"] != "Segment" else "Segment"))
        run.count("beam_" + btype)
        run.sample({"spec": spec, "beam_type": btype, "batch_shape": list(full)}, limit=3)
        if st != "ok" and not classify(run, spec, beam, st, detail):
            bad.append({"spec": spec, "beam": beam, "status": st, "detail": detail})
    replay_known(run)
    run.cov["traces_validated_against_impl"] = run.cov["evaluations"]
    run.cov["tested_only"] = ["PyTorch broadcasting kernels (modelled, not verified): entry-wise equality is observed by differential runs",
                              "Bmad-X paths, space charge and apertures: differential runs only"]
    if bad:
        run.violation(dict(bad[0], relation="entry i of the vectorised result == scalar simulation of entry i (finite alone => finite in batch)"))
    elif site_problem:
        run.violation({"kind": "obligation", "broken": "Ops/BatchSites.v sites_covered / sites_present on the regenerated inventory", "detail": site_problem},
                      no_input=True)
    elif not proof_ok:
        run.violation({"kind": "proof", "broken": run.proof_problem}, no_input=True)
    return run.finish("proof")
