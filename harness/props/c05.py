"""C05 -- Autograd gradients of tracking equal the true derivatives and are finite.      LEVEL: partial.

Stages
  1. proof stage: Props/C05.v (closed-form derivatives of the modelled linear maps, product rule, limits at the removable
     points, refutations F6/F60/F61/F7 on the faithful model).
  2. correspondence (model <-> code): torch.autograd.grad of individual transfer_map entries w.r.t. element buffers (float64)
     at special points (exact zeros, both signs) and random points vs the Coq derivative matrices of Optics/Deriv.v, by
     `interval` goals  Rabs (dM_theta(params)[i][j] - observed) <= tol.
  3. oracle on the implementation alone -- this is TESTING and is labelled so: autograd vs central finite differences with one
     Richardson step, for every element class x differentiable parameter x beam type x tracking method x outgoing-beam
     quantity, incl. the exactly-zero points, 2-4 element segments and beam parameters.
     Degenerate beams (exactly-on-axis particles, zero moments) are tracked behind an upstream element with a live parameter so
     that the gradient has to flow THROUGH the coordinate transformation of every class x tracking method.
  4. known findings (F6, F7, F60, F61, F62, F63, F64, F65) are classified by signature = WHERE (class, parameter, point) + WHAT (the
     characterised wrong value: exactly 0 / None / NaN / the F64 band of Optics/DerivF64.v / the F63 cut-graph value) +
     ATTRIBUTION (the case passes with the exact-zero point moved off zero); anything else at the same point is a violation.
     A signature suppresses a failure only while known_findings.json lists that finding with status `known` for C05.  Once a
     finding is flipped to `fixed` (F62: Dipole.__init__ registered fringe_integral_exit with torch.tensor(...), a detached copy,
     so its gradient was always None; repaired by torch.as_tensor) its signature suppresses nothing: the gradient must exist and
     match finite differences (forced Dipole / RBend cases with an effective exit fringe are generated in every run), and the
     stored input of the finding is replayed as a regression test (fails again -> VIOLATION with that input).  A finding listed
     `known` whose stored input no longer fails is noted as stale, without alarm.

case = {"lattice": [elem, ...],              elem = {"cls": str, "kw": {name: float | [float, float] | other}}
        "beam": realgen beam spec,
        "wrt":  ["elem", k, pname, idx|None] | ["beam", "mu", i] | ["beam", "cov", i, j] | ["beam", "energy"]
                | ["beam", "particles", p, i],
        "segment": bool}                     track through cheetah.Segment (merging of transfer maps) or element by element
"""
import json
import math

import torch

import common

PID = "C05"
D = torch.float64

# class -> [(parameter, index or None, natural scale, relative FD step)]
PARAMS = {
    "Drift": [("length", None, 1.0, 1e-3)],
    "Quadrupole": [("length", None, 1.0, 1e-3), ("k1", None, 1.0, 1e-3), ("misalignment", 0, 1e-3, 1e-2), ("misalignment", 1, 1e-3, 1e-2),
                   ("tilt", None, 1.0, 1e-3)],
    "Dipole": [("length", None, 1.0, 1e-3), ("angle", None, 0.1, 1e-3), ("k1", None, 1.0, 1e-3), ("dipole_e1", None, 0.1, 1e-3),
               ("dipole_e2", None, 0.1, 1e-3), ("tilt", None, 1.0, 1e-3), ("gap", None, 0.02, 1e-2), ("gap_exit", None, 0.02, 1e-2),
               ("fringe_integral", None, 0.5, 1e-3), ("fringe_integral_exit", None, 0.5, 1e-3)],
    "RBend": [("length", None, 1.0, 1e-3), ("angle", None, 0.1, 1e-3), ("k1", None, 1.0, 1e-3), ("rbend_e1", None, 0.1, 1e-3),
              ("rbend_e2", None, 0.1, 1e-3), ("tilt", None, 1.0, 1e-3), ("gap", None, 0.02, 1e-2), ("gap_exit", None, 0.02, 1e-2),
              ("fringe_integral", None, 0.5, 1e-3), ("fringe_integral_exit", None, 0.5, 1e-3)],
    "Solenoid": [("length", None, 1.0, 1e-3), ("k", None, 1.0, 1e-3), ("misalignment", 0, 1e-3, 1e-2), ("misalignment", 1, 1e-3, 1e-2)],
    "HorizontalCorrector": [("length", None, 1.0, 1e-3), ("angle", None, 1e-2, 1e-3)],
    "VerticalCorrector": [("length", None, 1.0, 1e-3), ("angle", None, 1e-2, 1e-3)],
    "Cavity": [("length", None, 1.0, 1e-3), ("voltage", None, 1e6, 1e-3), ("phase", None, 30.0, 1e-3), ("frequency", None, 1e9, 1e-3)],
    "Undulator": [("length", None, 1.0, 1e-3)],
    "TransverseDeflectingCavity": [("length", None, 1.0, 1e-3), ("voltage", None, 1e6, 1e-3), ("phase", None, 30.0, 1e-3),
                                   ("frequency", None, 1e9, 1e-3), ("misalignment", 0, 1e-3, 1e-2), ("misalignment", 1, 1e-3, 1e-2),
                                   ("tilt", None, 1.0, 1e-3)],
    "SpaceChargeKick": [("effect_length", None, 0.1, 1e-3)],
    "CustomTransferMap": [("predefined_transfer_map", (0, 1), 1.0, 1e-3), ("predefined_transfer_map", (1, 0), 1.0, 1e-3),
                          ("predefined_transfer_map", (0, 6), 1e-3, 1e-2)],
}
TENSOR_KW = {p for ps in PARAMS.values() for (p, _, _, _) in ps}
BEAM_SCALE = {"mu": 1e-3, "cov": 1e-6, "energy": 1e7, "particles": 1e-3}


def _t(v):
    return torch.tensor(v, dtype=D)


def _inject(base, idx, theta):
    """tensor equal to `base` except that component `idx` is the graph leaf `theta`"""
    if idx is None:
        return theta
    base = _t(base)
    mask = torch.zeros_like(base)
    mask[idx] = 1.0
    return base * (1.0 - mask) + theta * mask


def build_elem(spec, wrt_p=None, wrt_idx=None, theta=None):
    import cheetah
    cls = getattr(cheetah, spec["cls"])
    kw = {}
    for k, v in spec["kw"].items():
        if k in TENSOR_KW and v is not None:
            kw[k] = _inject(v, wrt_idx, theta) if (k == wrt_p and theta is not None) else _t(v)
        else:
            kw[k] = v
    return cls(dtype=D, **kw)


def build_beam(b, wrt=None, theta=None):
    import cheetah
    parts = {"energy": _t(b["energy"])}
    if b["type"] == "particle":
        parts["particles"] = _t(b["particles"])
    else:
        parts["mu"], parts["cov"] = _t(b["mu"]), _t(b["cov"])
    if wrt is not None:
        what = wrt[1]
        idx = tuple(wrt[2:]) if len(wrt) > 2 else None
        parts[what] = _inject(parts[what].tolist(), idx, theta)
    if b["type"] == "particle" and b.get("from_si"):
        # `particles` holds SI coordinates (x, px, y, py, z, pz, 1): the beam is made by the documented constructor for them
        return cheetah.ParticleBeam.from_xyz_pxpypz(parts["particles"], parts["energy"], particle_charges=_t(b["charges"]),
                                                    survival_probabilities=_t(b["survival"]), dtype=D)
    if b["type"] == "particle":
        return cheetah.ParticleBeam(parts["particles"], parts["energy"], particle_charges=_t(b["charges"]),
                                    survival_probabilities=_t(b["survival"]), dtype=D)
    return cheetah.ParameterBeam(parts["mu"], parts["cov"], parts["energy"], total_charge=_t(b["total_charge"]), dtype=D)


def theta0(case):
    w = case["wrt"]
    if w[0] == "elem":
        v = case["lattice"][w[1]]["kw"][w[2]]
        idx = w[3]
        if idx is None:
            return float(v)
        for i in (idx if isinstance(idx, (list, tuple)) else [idx]):
            v = v[i]
        return float(v)
    v = case["beam"][w[1]]
    for i in w[2:]:
        v = v[i]
    return float(v)


def param_scale(case):
    w = case["wrt"]
    if w[0] == "beam":
        if case["beam"].get("from_si") and w[1] == "particles" and w[3] in (1, 3, 5):
            return abs(theta0(case)), 1e-3           # SI momenta (kg m/s): the natural scale is the value itself
        return BEAM_SCALE[w[1]], (1e-4 if w[1] == "energy" else 1e-2)
    cls = case["lattice"][w[1]]["cls"]
    for (p, idx, sc, hr) in PARAMS[cls]:
        if p == w[2] and (idx == w[3] or (isinstance(idx, tuple) and list(idx) == list(w[3] or []))):
            return sc, hr
    raise KeyError(w)


def outputs(beam):
    """names and 1-D tensor of the outgoing-beam observables"""
    import cheetah
    names, vals = [], []
    co = ["x", "px", "y", "py", "tau", "p"]
    if isinstance(beam, cheetah.ParameterBeam):
        for i, c in enumerate(co):
            names.append("mu_" + c)
            vals.append(beam._mu[..., i].reshape(()))
        for i in range(6):
            for j in range(i, 6):
                names.append(f"cov_{co[i]}_{co[j]}")
                vals.append(beam._cov[..., i, j].reshape(()))
        for c in co:
            names.append("sigma_" + c)
            vals.append(getattr(beam, "sigma_" + c).reshape(()))
    else:
        n = beam.particles.shape[-2]
        for p in range(n):
            for i, c in enumerate(co):
                names.append(f"particle{p}_{c}")
                vals.append(beam.particles[..., p, i].reshape(()))
        for c in co:
            names.append("mu_" + c)
            vals.append(getattr(beam, "mu_" + c).reshape(()))
        if n >= 2:
            for c in co:
                names.append("sigma_" + c)
                vals.append(getattr(beam, "sigma_" + c).reshape(()))
    names.append("energy")
    vals.append(torch.as_tensor(beam.energy, dtype=D).reshape(()))
    # NB: the outputs are kept as separate graph roots (no torch.stack): the backward pass of one output must not run through
    # the graph of another (sqrt of a zero variance would inject 0 * inf = NaN into every gradient)
    return names, [v.to(D) for v in vals]


def evaluate(case, th, grad=False, insert=None):
    """track the case with the differentiated parameter set to th; returns (theta tensor, names, outputs).
    insert = (k, element): an extra cheetah element placed in front of position k of the lattice (used by the F64 signature)"""
    import cheetah
    theta = torch.tensor(float(th), dtype=D, requires_grad=grad)
    w = case["wrt"]
    elems = []
    for k, spec in enumerate(case["lattice"]):
        if insert is not None and insert[0] == k:
            elems.append(insert[1])
        if w[0] == "elem" and w[1] == k:
            idx = w[3]
            idx = tuple(idx) if isinstance(idx, list) else idx
            elems.append(build_elem(spec, w[2], idx, theta))
        else:
            elems.append(build_elem(spec))
    if insert is not None and insert[0] == len(case["lattice"]):
        elems.append(insert[1])
    beam = build_beam(case["beam"], w if w[0] == "beam" else None, theta)
    if case.get("segment"):
        out = cheetah.Segment(elems).track(beam)
    else:
        out = beam
        for e in elems:
            out = e.track(out)
    names, y = outputs(out)
    return theta, names, y


def _graph_nodes(roots):
    seen, stack, out = set(), [r.grad_fn for r in roots if r.grad_fn is not None], []
    while stack:
        n = stack.pop()
        if n is None or n in seen:
            continue
        seen.add(n)
        out.append(n)
        stack.extend(m for (m, _) in n.next_functions)
    return out


def autograd_jac(case, cut_abs_below=None):
    """d outputs / d theta by reverse-mode autograd, one output at a time.  Entries: float, nan/inf, or None.
    cut_abs_below = c: the gradient through every |.| node of the graph whose argument is <= c in magnitude is set to 0 (this is what
    the subgradient 0 of torch.absolute does AT an argument of exactly 0; used to reproduce the wrong value of F63 at a neighbour)"""
    theta, names, y = evaluate(case, theta0(case), grad=True)
    if cut_abs_below is not None:
        for n in _graph_nodes(y):
            if n.name() == "AbsBackward0" and float(n._saved_self.abs().max()) <= cut_abs_below:
                n.register_hook(lambda gi, go: tuple(torch.zeros_like(g) if g is not None else None for g in gi))
    res = []
    for n, yi in zip(names, y):
        if not yi.requires_grad:
            res.append(None)
            continue
        if n.startswith("sigma_") and float(yi) == 0.0:
            res.append(0.0)          # sqrt at a zero variance: not differentiable, unspecified (compared as 0 against FD noise floor)
            continue
        g = torch.autograd.grad(yi, theta, retain_graph=True, allow_unused=True)[0]
        res.append(None if g is None else float(g))
    return names, [float(v) for v in y], res


def fd_jac(case):
    """central differences with one Richardson step; returns (derivative estimate, error estimate, |f| scale) per output"""
    t0 = theta0(case)
    sc, hrel = param_scale(case)
    h = hrel * max(abs(t0), sc)

    def f(th):
        with torch.no_grad():
            return torch.stack([v.detach() for v in evaluate(case, th)[2]])
    d1 = (f(t0 + h) - f(t0 - h)) / (2 * h)
    d2 = (f(t0 + h / 2) - f(t0 - h / 2)) / h
    d3 = (f(t0 + h / 4) - f(t0 - h / 4)) / (h / 2)
    r1 = (4 * d2 - d1) / 3
    rich = (4 * d3 - d2) / 3
    # error estimate: truncation (difference of the two Richardson values) and round-off noise of the function values themselves
    # (difference of the two finest plain estimates: noise grows as 1/h while truncation shrinks as h^2)
    err = torch.maximum((rich - r1).abs(), (d3 - d2).abs())
    return [float(v) for v in rich], [float(v) for v in err], h


def group_ref(names, y):
    """natural magnitude of each output: the largest |value| within its group (particle coords / mu / cov / sigma / energy)"""
    def grp(n):
        if n.startswith("particle") or n.startswith("mu_"):
            return "coord"
        return n.split("_")[0]
    mx = {}
    for n, v in zip(names, y):
        if math.isfinite(v):
            mx[grp(n)] = max(mx.get(grp(n), 0.0), abs(v))
    floor = {"coord": 1e-4, "cov": 1e-8, "sigma": 1e-4, "energy": 1e6}
    return [max(mx.get(grp(n), 0.0), floor[grp(n)]) for n in names]


RTOL = 1e-5
SIGMA_FLOOR = 1e-9      # sigma_* outputs not above this are treated as the non-differentiable sqrt(0) (coordinates are ~1e-3)


def _try(f):
    """an exception raised by the implementation is an observation, not a crash of the check"""
    try:
        return f(), None
    except Exception as ex:  # noqa
        return None, type(ex).__name__ + ": " + str(ex)[:160]


def compare(case):
    """returns dict(status, bad=[...]); status in ok | rejected | nonfinite_reference | mismatch
    bad entries: {"output", "autograd", "fd", "tol", "kind": nan|none|value|exception}"""
    import warnings
    with warnings.catch_warnings():
        warnings.simplefilter("ignore")
        fwd, exc = _try(lambda: evaluate(case, theta0(case))[2])
        if exc is not None:
            return {"status": "rejected", "bad": [], "exception": exc}     # the code rejects this input: unspecified region
        fdr, exc = _try(lambda: fd_jac(case))
        if exc is not None:
            return {"status": "rejected", "bad": [], "exception": exc}
        fd, err, h = fdr
        agr, exc = _try(lambda: autograd_jac(case))
    if exc is not None:
        return {"status": "mismatch", "bad": [{"output": "*", "autograd": exc, "fd": None, "tol": None, "kind": "exception"}]}
    names, y, ag = agr
    # sigma_* = sqrt(variance) at a variance of (almost) zero (degenerate beams: a coordinate shared by all particles, a zero row
    # of cov): not differentiable / NaN under finite differences -- unspecified, dropped; every other output is still compared
    # likewise a sigma_* that the finite-difference step itself changes by more than 10 % (sqrt next to its branch point)
    keep = [not (n.startswith("sigma_") and not (abs(v) > SIGMA_FLOOR and (abs(f) + e) * h <= 0.1 * abs(v)))
            for n, v, f, e in zip(names, y, fd, err)]
    names, y, ag, fd, err = ([v for v, k in zip(lst, keep) if k] for lst in (names, y, ag, fd, err))
    if any(not math.isfinite(v) for v in y) or any(not math.isfinite(v) for v in fd):
        # the forward pass itself (or its neighbours) is not finite: C09's business, unspecified here
        return {"status": "nonfinite_reference", "bad": [], "names": names}
    sc, _ = param_scale(case)
    ref = group_ref(names, y)
    bad = []
    for n, yi, a, f, e, r in zip(names, y, ag, fd, err, ref):
        tol = RTOL * max(abs(f), abs(a) if (a is not None and math.isfinite(a)) else 0.0) + 50 * e + 1e-6 * r / sc + 1e-13 * r / h
        if a is None:
            if abs(f) > tol:
                bad.append({"output": n, "autograd": None, "fd": f, "tol": tol, "kind": "none"})
        elif not math.isfinite(a):
            bad.append({"output": n, "autograd": repr(a), "fd": f, "tol": tol, "kind": "nan"})
        elif abs(a - f) > tol:
            bad.append({"output": n, "autograd": a, "fd": f, "tol": tol, "kind": "value"})
    return {"status": "mismatch" if bad else "ok", "bad": bad, "names": names, "n_outputs": len(names),
            "n_dependent": sum(1 for f in fd if f != 0.0), "autograd": ag, "fd": fd, "y": y}


# =====================================================================================================================
# known-finding signatures (class, parameter, predicate on the point, observable)
# =====================================================================================================================
def _zero2(v):
    return v is None or (float(v[0]) == 0.0 and float(v[1]) == 0.0)


def _method(e):
    return e["kw"].get("tracking_method", "cheetah")


KNOWN_IDS = None        # ids listed with status `known` for C05 (read once per run)


def known_ids():
    global KNOWN_IDS
    if KNOWN_IDS is None:
        KNOWN_IDS = {f["id"] for f in common.load_known_findings(PID) if f.get("status") == "known"}
    return KNOWN_IDS


def classify(case, res):
    """id of the finding LISTED AS KNOWN that explains the failing case, else None (fixed entries suppress nothing).
    A finding explains a failure only if (1) WHERE: class / parameter / predicate on the point match (`signature`), (2) WHAT: the
    observation is the finding's characterised wrong value (exact 0, None, NaN, the F64 band, the F63 cut-graph value, an F65
    kink), and (3) ATTRIBUTION: the same case with the finding's exact-zero point moved off zero passes (`confirm`).  The reason
    for a refusal is stored in res["not_known_because"] and ends up in the replay file."""
    fid = signature(case, res)
    if fid not in known_ids():
        return None
    ok, why = _try(lambda: confirm(case, res, fid))
    ok, why = (ok if ok is not None else (False, "exception while confirming: " + str(why)))
    if not ok:
        res["not_known_because"] = f"point matches {fid} but the observation does not: {why}"
        return None
    return fid


def _bad_all(res, pred):
    return all(pred(b) for b in res["bad"])


def signature(case, res):
    """WHERE + kind of observation: id of the finding whose (class, parameter, predicate on the point, kind of wrong value) the failing
    case matches, else None.  Pure (no re-evaluation); `confirm` bounds the VALUE and attributes the failure."""
    bad = res["bad"]
    kinds = {b["kind"] for b in bad}
    w = case["wrt"]
    lat = case["lattice"]
    cav_off = [k for k, e in enumerate(lat) if e["cls"] == "Cavity" and float(e["kw"].get("voltage", 0.0)) == 0.0]
    first = 0 if w[0] == "beam" else w[1] + 1
    sck = [k for k, e in enumerate(lat) if e["cls"] == "SpaceChargeKick" and k >= first]
    if sck and kinds == {"value"} and _bad_all(res, lambda b: math.isfinite(b["autograd"])) and on_node_particle(case, sck[0]):
        return "F65"
    if w[0] == "beam":
        if w[1] == "energy" and cav_off and kinds == {"nan"}:
            return "F7"
        return None
    e = lat[w[1]]
    cls, kw, p = e["cls"], e["kw"], w[2]
    if cls in ("Quadrupole", "Dipole", "RBend") and p == "k1" and float(kw.get("k1", 0.0)) == 0.0 and kinds == {"value"}:
        if _method(e) == "cheetah" and all(b["autograd"] == 0.0 for b in bad):
            return "F6"
        if _method(e) == "bmadx" and cls == "Quadrupole" and _bad_all(res, lambda b: math.isfinite(b["autograd"])):
            return "F63"     # torch.absolute(k1) has subgradient 0 at 0: the cos/sin coefficients get no gradient, a21 = k1*sx does
    if cls == "Solenoid" and float(kw.get("k", 0.0)) == 0.0 and p in ("k", "length") and kinds == {"nan"}:
        return "F7"
    if cls == "Cavity" and float(kw.get("voltage", 0.0)) == 0.0 and p in ("length", "voltage", "phase") and "nan" in kinds \
            and kinds <= {"nan", "none"} and all(b["output"] == "energy" for b in bad if b["kind"] == "none"):
        # inside a Segment the switched-off cavity is merged as a linear map: the outgoing energy then has no dependence on the
        # voltage at all (None), every other quantity is NaN
        return "F7"
    if cav_off and any(k > w[1] for k in cav_off) and kinds == {"nan"} and any(x["cls"] == "Cavity" and float(x["kw"].get("voltage", 0.0)) != 0.0
                                                                               for x in lat[:max(cav_off)]) and cls == "Cavity":
        return "F7"      # an active cavity upstream makes the energy seen by the switched-off cavity depend on the parameter
    if cls in ("Quadrupole", "Solenoid") and p == "misalignment" and _method(e) == "cheetah" and _zero2(kw.get("misalignment")) \
            and kinds == {"none"}:
        return "F60"
    if cls == "Quadrupole" and p == "tilt" and _method(e) == "cheetah" and float(kw.get("tilt", 0.0)) == 0.0 and kinds == {"none"}:
        return "F61"
    if cls in ("Dipole", "RBend") and p == "fringe_integral_exit" and kinds == {"none"}:
        return "F62"
    if cls in ("Dipole", "RBend") and p == "angle" and _method(e) == "cheetah" and float(kw.get("angle", 0.0)) == 0.0 \
            and float(kw.get("k1", 0.0)) == 0.0 and kinds == {"value"}:
        # (1 - cos(1e-6 L)) / 1e-12: the magnitude is bounded in `f64_band` (Optics/DerivF64.v)
        if all(b["autograd"] is not None and math.isfinite(b["autograd"]) for b in bad):
            return "F64"
    return None


# ---- WHAT is observed (value) and ATTRIBUTION (the failure belongs to the finding's exact-zero point) ----------------
NUDGE = {"k1": 1.3e-3, "misalignment": 3.3e-6, "tilt": 3.3e-4, "voltage": 3.3e3, "k": 3.3e-4, "coordinate": 3.1e-5}
F64_ETA = 2.0 ** -51        # |error of the stored cos(1e-6 L)|: four units in the last place below 1 (DerivF64.disp_float_bound)
M_E = 510998.95069


def nudged(case, fid):
    """the same case with every exact-zero point named by finding `fid` moved off zero by a small amount"""
    import copy
    c = copy.deepcopy({k: case[k] for k in ("lattice", "beam", "wrt", "segment")})
    w = c["wrt"]
    if fid == "F7":
        for e in c["lattice"]:
            if e["cls"] == "Cavity" and float(e["kw"].get("voltage", 0.0)) == 0.0:
                e["kw"]["voltage"] = NUDGE["voltage"]
            if e["cls"] == "Solenoid" and float(e["kw"].get("k", 0.0)) == 0.0:
                e["kw"]["k"] = NUDGE["k"]
    elif fid in ("F6", "F63"):
        c["lattice"][w[1]]["kw"]["k1"] = NUDGE["k1"]
    elif fid == "F60":
        m = list(c["lattice"][w[1]]["kw"].get("misalignment") or [0.0, 0.0])
        m[w[3]] = NUDGE["misalignment"]
        c["lattice"][w[1]]["kw"]["misalignment"] = m
    elif fid == "F61":
        c["lattice"][w[1]]["kw"]["tilt"] = NUDGE["tilt"]
    elif fid == "F65":
        for q, r_ in enumerate(c["beam"]["particles"]):
            for i in range(5):
                if r_[i] == 0.0:
                    r_[i] = NUDGE["coordinate"] * (1 + 0.1 * q + 0.037 * i)
        for e in c["lattice"]:          # a zero kick leaves a particle on its node: move that too
            if e["cls"] in ("HorizontalCorrector", "VerticalCorrector") and float(e["kw"].get("angle", 0.0)) == 0.0:
                e["kw"]["angle"] = 1.3e-5
    return c


def beam_at(case, k):
    """the beam arriving at element k (tracked element by element, no gradient)"""
    with torch.no_grad():
        b = build_beam(case["beam"])
        for spec in case["lattice"][:k]:
            b = build_elem(spec).track(b)
    return b


def on_node_particle(case, k):
    """does the ParticleBeam arriving at the SpaceChargeKick at position k contain a particle with x, y or tau exactly 0 (the grid
    is centred on 0 and has an even number of points: such a particle sits exactly on a grid node)"""
    if case["beam"]["type"] != "particle":
        return False
    b, exc = _try(lambda: beam_at(case, k))
    if exc is not None:
        return False
    return bool((b.particles[..., [0, 2, 4]] == 0.0).any())


def f64_band(case, res):
    """F64 bounds WHAT is observed: with N = E16 + E52 the autograd of the dipole's map is  dR/dangle|true + delta * rot(-tilt) N rot(tilt)
    with ONE number |delta| <= (F64_ETA / 1e-12 + 1e-12 L^4/24) / (L beta)  (Optics/DerivF64.v: f64_observation_band).  Hence for
    every outgoing quantity y:  |autograd(y) - fd(y)| <= delta_max * |dy/d eps| where eps is the strength of a unit dispersion map
    I + eps rot(-tilt) N rot(tilt) inserted right behind the magnet (measured on the implementation by central differences)."""
    import cheetah
    k = case["wrt"][1]
    kw = case["lattice"][k]["kw"]
    L, t = float(kw["length"]), float(kw.get("tilt", 0.0))
    if not L > 0.0:
        return False, "length is not positive"
    E_k = float(torch.as_tensor(beam_at(case, k).energy).reshape(-1)[0])
    beta = math.sqrt(1.0 - (M_E / E_k) ** 2)
    c_, s_ = math.cos(t), math.sin(t)

    def rot(cs, sn):
        m = torch.eye(7, dtype=D)
        m[0, 0] = m[1, 1] = m[2, 2] = m[3, 3] = cs
        m[0, 2] = m[1, 3] = sn
        m[2, 0] = m[3, 1] = -sn
        return m
    N = torch.zeros(7, 7, dtype=D)
    N[0, 5] = N[4, 1] = 1.0
    P = rot(c_, -s_) @ N @ rot(c_, s_)

    def y_of(eps):
        ctm = cheetah.CustomTransferMap(predefined_transfer_map=torch.eye(7, dtype=D) + eps * P, length=_t(0.0), dtype=D)
        with torch.no_grad():
            _, names, y = evaluate(case, theta0(case), insert=(k + 1, ctm))
        return dict(zip(names, (float(v) for v in y)))
    eps = 1e-2
    yp, ym = y_of(eps), y_of(-eps)
    dmax = (F64_ETA / 1e-12 + 1e-12 * L ** 4 / 24) / (L * beta)
    for b in res["bad"]:
        sens = abs(yp[b["output"]] - ym[b["output"]]) / (2 * eps)
        allowed = dmax * sens * 1.01 + b["tol"]
        if not abs(b["autograd"] - b["fd"]) <= allowed:
            return False, (f"{b['output']}: |autograd - fd| = {abs(b['autograd'] - b['fd']):.3e} exceeds the F64 band {allowed:.3e} "
                           f"(= {dmax:.3e} [bound on the error of d R16/d angle, DerivF64.f64_observation_band] x {sens:.3e} "
                           f"[sensitivity of the output to a unit dispersion map] + tolerance)")
    return True, None


def f63_value(case, res):
    """F63 bounds WHAT is observed: the gradient at k1 = 0 is the gradient of the program with the |k1| path cut (subgradient 0 of
    torch.absolute at 0).  It is reproduced at the neighbours k1 = +-1e-9 by cutting every |.| edge of the graph whose argument is
    below 1e-7, and must agree with the observation on ALL outputs."""
    import copy
    names, ag0 = res["names"], res["autograd"]
    ref = group_ref(names, res["y"])
    for kk in (1e-9, -1e-9):
        c2 = copy.deepcopy({k: case[k] for k in ("lattice", "beam", "wrt", "segment")})
        c2["lattice"][c2["wrt"][1]]["kw"]["k1"] = kk
        n2, _, ag2 = autograd_jac(c2, cut_abs_below=1e-7)
        cut = dict(zip(n2, ag2))
        for n, a, r in zip(names, ag0, ref):
            a2 = cut.get(n)
            if a is None or a2 is None or not math.isfinite(a) or not math.isfinite(a2):
                if not (a is None and a2 is None):
                    return False, f"{n}: autograd {a!r} at k1 = 0, cut-graph value {a2!r} at k1 = {kk}"
                continue
            if abs(a - a2) > 1e-6 * max(abs(a), abs(a2)) + 1e-9 * r:
                return False, f"{n}: autograd {a!r} at k1 = 0 is not the value {a2!r} of the program with the |k1| path cut (k1 = {kk})"
    return True, None


def confirm(case, res, fid):
    """(True, None) if the observation is the characterised wrong value of `fid` and the failure is attributable to it"""
    if fid == "F62":
        return True, None            # fixed: never suppresses (classify filters on the listed status)
    if fid == "F64":
        return f64_band(case, res)
    if fid == "F63":
        ok, why = f63_value(case, res)
        if not ok:
            return ok, why
    # F6: exactly 0, F60/F61: None, F7: NaN, F65: finite -- already required by `signature`.  Attribution: off the exact-zero point
    # (F65: every exactly-zero coordinate moved off the grid node by 3e-5, more than the finite-difference step) the case passes
    c2 = nudged(case, fid)
    r2 = compare(c2)
    if r2["status"] == "ok":
        return True, None
    if r2["status"] == "mismatch":
        other = signature(c2, r2)
        if other is not None and other != fid and other in known_ids():
            return True, None        # what remains is another listed finding (judged on its own when it is generated)
        return False, ("the failure persists with the exact-zero point moved off zero (" + json.dumps(c2["lattice"])[:300] + "): "
                       + json.dumps(r2["bad"][:2], default=str))
    return False, "the nudged case is " + r2["status"]


# =====================================================================================================================
# case generation for the oracle
# =====================================================================================================================
ENERGIES = [5e6, 2e7, 1e8, 6e9]
LENGTHS = [0.1, 0.25, 0.5, 1.0, 2.0]


def rr(rng, lo, hi, digits=3):
    v = round(rng.uniform(lo, hi), digits)
    return v if v != 0 else lo


def gen_kw(rng, cls, method, zero_point):
    """keyword arguments of one element; zero_point: all optional strengths exactly zero (where optimisers start)"""
    z = zero_point
    L = rng.choice(LENGTHS)
    mis = [0.0, 0.0] if (z or rng.random() < 0.3) else rng.choice([[1e-3, 0.0], [0.0, -2e-3], [5e-4, 3e-4]])
    tilt = 0.0 if (z or rng.random() < 0.3) else rng.choice([0.1, -0.2, math.pi / 4, rr(rng, -1.0, 1.0)])
    if cls == "Drift":
        return dict(length=rng.choice([0.0] + LENGTHS) if method == "cheetah" or not z else L, tracking_method=method)
    if cls == "Quadrupole":
        k1 = 0.0 if z else rng.choice([0.5, -0.5, 2.0, -3.0, 10.0, -10.0, 1e-3, -1e-3, rr(rng, -5, 5)])
        return dict(length=L, k1=k1, misalignment=mis, tilt=tilt, num_steps=rng.choice([1, 2, 3]), tracking_method=method)
    if cls in ("Dipole", "RBend"):
        e = "dipole_e" if cls == "Dipole" else "rbend_e"
        angle = 0.0 if (z and method == "cheetah") else rng.choice([0.01, -0.02, 0.1, -0.3, rr(rng, -0.4, 0.4)])
        kw = dict(length=L, angle=angle, k1=0.0 if z else rng.choice([0.0, 0.5, -1.0, rr(rng, -2, 2)]), tilt=tilt,
                  gap=0.0 if z else rng.choice([0.0, 0.02]), fringe_integral=0.0 if z else rng.choice([0.0, 0.5]),
                  fringe_at=rng.choice(["both", "both", "neither", "entrance", "exit"]), tracking_method=method)
        kw[e + "1"] = 0.0 if z else rng.choice([0.0, 0.05, -0.1])
        kw[e + "2"] = 0.0 if z else rng.choice([0.0, 0.05, -0.1])
        if rng.random() < 0.4:
            kw["gap_exit"] = 0.0 if z else rng.choice([0.0, 0.03])
            kw["fringe_integral_exit"] = 0.0 if z else rng.choice([0.0, 0.4])
        return kw
    if cls == "Solenoid":
        return dict(length=L, k=0.0 if z else rng.choice([0.5, -1.0, 3.0, rr(rng, -2, 2)]), misalignment=mis)
    if cls in ("HorizontalCorrector", "VerticalCorrector"):
        return dict(length=rng.choice([0.0] + LENGTHS), angle=0.0 if z else rng.choice([1e-3, -2e-3, 0.01]))
    if cls == "Cavity":
        # phase = +-90 deg is excluded (F90 of C09: cos(phi) = 0 is a pole of _cavity_rmatrix)
        return dict(length=L, voltage=0.0 if z else rng.choice([1e6, 5e6, -1e6]), phase=rng.choice([0.0, 30.0, -20.0, rr(rng, -60, 60, 1)]),
                    frequency=rng.choice([1.3e9, 2.998e9]))
    if cls == "Undulator":
        return dict(length=L)
    if cls == "TransverseDeflectingCavity":
        return dict(length=L, voltage=0.0 if z else rng.choice([1e5, 1e6]), phase=0.0 if z else rng.choice([0.0, 45.0, 90.0]),
                    frequency=rng.choice([1e9, 2.856e9]), misalignment=mis, tilt=tilt, num_steps=rng.choice([1, 3]), tracking_method="bmadx")
    if cls == "SpaceChargeKick":
        return dict(effect_length=rng.choice([0.1, 0.5]), num_grid_points_x=8, num_grid_points_y=8, num_grid_points_tau=8)
    if cls == "CustomTransferMap":
        m = [[1.0 if i == j else 0.0 for j in range(7)] for i in range(7)]
        m[0][1] = m[2][3] = L
        m[1][0] = 0.0 if z else rng.choice([-0.5, 0.25])
        m[0][6] = 0.0 if z else 1e-4
        return dict(predefined_transfer_map=m, length=L)
    raise KeyError(cls)


def methods_of(cls):
    if cls in ("Drift", "Quadrupole", "Dipole", "RBend"):
        return ["cheetah", "bmadx"]
    if cls == "TransverseDeflectingCavity":
        return ["bmadx"]
    return ["cheetah"]


def gen_beam(rng, btype, energy=None):
    import realgen
    energy = energy or rng.choice(ENERGIES)
    if btype == "particle":
        b = realgen.gen_particle_beam(rng, n=rng.choice([2, 3, 4]), energy=energy)
        b["survival"] = [rng.choice([1.0, 1.0, 0.5]) for _ in b["particles"]]     # sigma_* need positive weights
        b["charges"] = [1e-12 for _ in b["particles"]]
        return b
    return realgen.gen_parameter_beam(rng, energy=energy)


def params_present(cls, kw):
    out = []
    for (p, idx, sc, hr) in PARAMS[cls]:
        if p in kw and kw[p] is not None:
            out.append((p, list(idx) if isinstance(idx, tuple) else idx))
    return out


def skip_case(case):
    """configurations that are known NaN forward passes of C09 (F8: Bmad-X dipole at angle 0, zero-length Bmad-X quadrupole /
    dipole) or otherwise unspecified for this property"""
    for e in case["lattice"]:
        kw = e["kw"]
        if _method(e) == "bmadx" and e["cls"] in ("Dipole", "RBend") and float(kw.get("angle", 0.0)) == 0.0:
            return "F8"
        if _method(e) == "bmadx" and e["cls"] in ("Quadrupole", "Dipole", "RBend") and float(kw.get("length", 1.0)) == 0.0:
            return "F8"
        if e["cls"] == "Cavity" and abs(abs(float(kw.get("phase", 0.0))) - 90.0) < 1e-9:
            return "F90"
    return None


def gen_single_cases(rng, reps):
    """every class x differentiable parameter x beam type x tracking method, at a zero point and at `reps` random points"""
    cases = []
    for cls in PARAMS:
        for method in methods_of(cls):
            for zero in [True] + [False] * reps:
                kw = gen_kw(rng, cls, method, zero)
                for (p, idx) in params_present(cls, kw):
                    for btype in ("particle", "parameter"):
                        if btype == "parameter" and (method == "bmadx" or cls == "SpaceChargeKick"):
                            continue
                        cases.append({"lattice": [{"cls": cls, "kw": kw}], "beam": gen_beam(rng, btype), "wrt": ["elem", 0, p, idx],
                                      "segment": False, "zero_point": zero})
    return cases


ZEROABLE = {"k1", "k", "angle", "tilt", "phase", "voltage", "misalignment", "dipole_e1", "dipole_e2", "rbend_e1", "rbend_e2"}


def gen_one_zero_cases(rng):
    """round 7 (seeded change C05-8): every class x method x beam type with ONE differentiable parameter exactly zero while all the
    others are live (an active cavity exactly on crest, a powered magnet with tilt / one misalignment component / one edge angle
    exactly 0), differentiated with respect to THAT parameter: a branch of the form `if torch.any(p != 0)` around a term that
    vanishes at p = 0 keeps every value and loses the derivative.  The all-zero point of gen_single_cases takes other branches
    (V = 0, angle = 0) and random points hit an exact zero of one parameter only by chance."""
    cases = []
    for cls in PARAMS:
        for method in methods_of(cls):
            for (p, idx, sc, hr) in PARAMS[cls]:
                if p not in ZEROABLE:
                    continue
                kw = gen_kw(rng, cls, method, False)
                if p not in kw:
                    continue
                if cls == "Cavity":
                    kw["phase"] = rng.choice([30.0, -20.0])
                if cls in ("Quadrupole", "Solenoid", "TransverseDeflectingCavity"):
                    kw["misalignment"] = [1e-3, -5e-4]
                if "tilt" in kw:
                    kw["tilt"] = rng.choice([0.1, -0.2])
                if idx is None:
                    kw[p] = 0.0
                else:
                    v = list(kw[p])
                    v[idx] = 0.0
                    kw[p] = v
                for btype in ("particle", "parameter"):
                    if btype == "parameter" and (method == "bmadx" or cls == "SpaceChargeKick"):
                        continue
                    cases.append({"lattice": [{"cls": cls, "kw": kw}], "beam": gen_beam(rng, btype), "wrt": ["elem", 0, p, idx],
                                  "segment": False, "zero_point": False, "one_zero": p})
    return cases


SEG_CLASSES = ["Drift", "Quadrupole", "Dipole", "Solenoid", "HorizontalCorrector", "VerticalCorrector", "Cavity", "Undulator", "RBend"]


def gen_fringe_exit_cases(rng):
    """forced cases for the parameter of finding F62: Dipole / RBend built WITH fringe_integral_exit, exit fringe switched on and a
    non-zero gap, so that outgoing quantities really depend on it (the random cases often have gap = 0 or fringe_at without the
    exit face, where every derivative is 0 and a missing gradient goes unnoticed); alone and behind a drift inside a Segment"""
    cases = []
    for cls in ("Dipole", "RBend"):
        for btype, method in (("parameter", "cheetah"), ("particle", "cheetah"), ("particle", "bmadx")):
            e = "dipole_e" if cls == "Dipole" else "rbend_e"
            kw = dict(length=rng.choice([0.5, 1.0]), angle=rng.choice([0.1, -0.3, 0.05]), k1=rng.choice([0.0, 0.5]) if method == "cheetah" else 0.0,
                      tilt=rng.choice([0.0, 0.1]), gap=rng.choice([0.02, 0.035]), gap_exit=rng.choice([0.02, 0.03]),
                      fringe_integral=0.5, fringe_integral_exit=rng.choice([0.4, 0.3, 0.0]), fringe_at=rng.choice(["both", "exit"]),
                      tracking_method=method)
            kw[e + "1"] = rng.choice([0.0, 0.05])
            kw[e + "2"] = rng.choice([0.05, -0.1])
            seg = rng.random() < 0.5
            lat = [{"cls": cls, "kw": kw}]
            if seg:
                lat.insert(0, {"cls": "Drift", "kw": dict(length=0.5, tracking_method="cheetah")})
            cases.append({"lattice": lat, "beam": gen_beam(rng, btype, energy=rng.choice([2e7, 1e8])), "wrt": ["elem", len(lat) - 1, "fringe_integral_exit", None],
                          "segment": seg, "zero_point": False, "forced": "fringe_integral_exit"})
    return cases


# ---------------------------------------------------------------------------------------------------------------------
# constructor arguments that feed OTHER stored quantities: a parameter whose default is derived from another argument
# (Dipole: gap_exit <- gap, fringe_integral_exit <- fringe_integral) or a stored quantity computed from several arguments
# (RBend: dipole_e1/2 = rbend_e1/2 + angle/2).  The pairs are DISCOVERED on the live classes (which buffers move when the source
# argument moves, with each optional argument in turn left at its default), not listed; every discovered pair is then tracked
# w.r.t. the source argument for every tracking method x beam type x every combination of the class's Literal flags (fringe_at),
# with the derived argument left at its DEFAULT and, as a control, given explicitly (then also differentiated w.r.t. it).
# ---------------------------------------------------------------------------------------------------------------------
def ctor_info(cls_name):
    """(optional tensor parameters of the constructor [default None], {flag: choices} for Literal parameters with several values
    other than tracking_method)"""
    import inspect
    import typing
    import cheetah
    optional, flags = [], {}
    for p in inspect.signature(getattr(cheetah, cls_name).__init__).parameters.values():
        if p.name in ("self", "name", "device", "dtype", "tracking_method"):
            continue
        lit = None
        for a in [p.annotation] + list(typing.get_args(p.annotation) or ()):
            if typing.get_origin(a) is typing.Literal:
                lit = list(typing.get_args(a))
        if lit is not None:
            if len(lit) > 1:
                flags[p.name] = lit
        elif p.default is None and p.name in TENSOR_KW:
            optional.append(p.name)
    return optional, flags


def live_kw(rng, cls, method):
    """keyword arguments with EVERY continuous scalar parameter given and non-zero (so that every stored quantity matters)"""
    kw = dict(gen_kw(rng, cls, method, False))
    alt = {"gap": [0.02, 0.035], "gap_exit": [0.03, 0.025], "fringe_integral": [0.5, 0.3], "fringe_integral_exit": [0.4, 0.45],
           "angle": [0.1, -0.3, 0.05], "dipole_e1": [0.05, -0.1], "dipole_e2": [0.05, -0.1], "rbend_e1": [0.05, -0.1], "rbend_e2": [0.05, -0.1]}
    for (p, idx, sc, hr) in PARAMS[cls]:
        if idx is not None:
            continue
        if p not in kw or kw[p] is None or float(kw[p]) == 0.0:
            kw[p] = rng.choice(alt[p]) if p in alt else round(sc * rng.choice([0.5, 0.3, -0.4]), 9) if p not in ("length", "frequency") else sc
    return kw


def discover_derived(rng):
    """[(class, source argument, omitted argument or None, [stored buffers that move with the source])], found by constructing the
    real classes: with each optional argument in turn left at its default (None: none omitted), which registered buffers other than
    the source's own change value when the source argument changes.  Value-level (no autograd involved)."""
    found = []
    for cls in PARAMS:
        method = methods_of(cls)[0]
        kw = live_kw(rng, cls, method)
        optional, _ = ctor_info(cls)
        sources = [p for (p, idx, sc, hr) in PARAMS[cls] if idx is None]

        def moved(kw_, src):
            # remove_duplicate=False: a default that registers the SAME tensor under a second name is a derived quantity too
            a = dict(build_elem({"cls": cls, "kw": kw_}).named_buffers(remove_duplicate=False))
            kw2 = dict(kw_)
            kw2[src] = float(kw_[src]) * 1.25 + 0.0625
            b = dict(build_elem({"cls": cls, "kw": kw2}).named_buffers(remove_duplicate=False))
            out = sorted(n for n in a if n != src and (a[n].shape != b[n].shape or not torch.equal(a[n], b[n])))
            # with nothing omitted, a buffer that simply holds the argument's value is where the argument is stored (a property
            # alias such as dipole_e1 -> _e1), not a derived quantity
            alias = [n for n in out if b[n].shape == torch.Size([]) and float(b[n]) == float(kw2[src])]
            return out, alias
        base = {}
        for src in sources:
            r, exc = _try(lambda: moved(kw, src))
            base[src], alias = r or ([], [])
            if [n for n in base[src] if n not in alias]:
                found.append((cls, src, None, [n for n in base[src] if n not in alias]))
        for o in optional:
            if o not in kw:
                continue
            kwo = {k: v for k, v in kw.items() if k != o}
            for src in sources:
                if src == o:
                    continue
                r, exc = _try(lambda: moved(kwo, src))
                extra = [n for n in (r or ([], []))[0] if n not in base[src]]
                if extra:
                    found.append((cls, src, o, extra))
    return found


def gen_derived_default_cases(rng, found, full):
    """tracking cases for every discovered (class, source, omitted argument): every tracking method x beam type x every combination
    of the Literal flags, the omitted argument at its DEFAULT (differentiated w.r.t. the source; also at a source value of exactly 0)
    and given explicitly (w.r.t. the source and w.r.t. the explicit argument); alone or behind a drift inside a Segment"""
    import itertools
    cases = []
    for (cls, src, o, moved) in found:
        _, flags = ctor_info(cls)
        names = sorted(flags)
        combos = list(itertools.product(*[flags[n] for n in names])) or [()]
        for method in methods_of(cls):
            for btype in ("particle", "parameter"):
                if btype == "parameter" and (method == "bmadx" or cls == "SpaceChargeKick"):
                    continue
                for combo in combos:
                    variants = ["default"] + (["explicit"] if o else [])
                    if o and (full or rng.random() < 0.5):
                        variants.append("default_source_zero")
                    for variant in variants:
                        kw = live_kw(rng, cls, method)
                        kw.update(dict(zip(names, combo)))
                        wrt_p = src
                        if variant.startswith("default") and o:
                            kw.pop(o, None)
                        if variant == "default_source_zero":
                            kw[src] = 0.0
                        if variant == "explicit" and rng.random() < 0.5:
                            wrt_p = o
                        seg = rng.random() < 0.4
                        lat = [{"cls": cls, "kw": kw}]
                        if seg:
                            lat.insert(0, {"cls": "Drift", "kw": dict(length=0.5, tracking_method="cheetah")})
                        cases.append({"lattice": lat, "beam": gen_beam(rng, btype, energy=rng.choice([2e7, 1e8])),
                                      "wrt": ["elem", len(lat) - 1, wrt_p, None], "segment": seg, "zero_point": variant == "default_source_zero",
                                      "forced": "derived_default",
                                      "derived": {"cls": cls, "source": src, "left_at_default": o if variant.startswith("default") else None,
                                                  "stored": moved, "method": method, "flags": dict(zip(names, combo)), "variant": variant}})
    return cases


def gen_si_beam_cases(rng, n):
    """beams given in SI coordinates (ParticleBeam.from_xyz_pxpypz, the constructor SpaceChargeKick itself uses on the way back):
    gradient of the outgoing beam w.r.t. each SI coordinate column and the reference energy, alone (empty lattice: the constructor
    itself) and through 1-2 elements"""
    cases = []
    for k in range(n):
        b = gen_beam(rng, "particle", energy=rng.choice([5e6, 2e7, 1e8]))
        for r_ in b["particles"]:
            for i in (1, 3):
                if r_[i] == 0.0:
                    r_[i] = 1.3e-4
        real, exc = _try(lambda: build_beam(b).to_xyz_pxpypz().tolist())
        if exc is not None:
            continue
        si = dict(b, particles=real, from_si=True)
        lat = []
        for _k in range(rng.choice([0, 1, 1, 2])):
            cls = rng.choice(["Drift", "Quadrupole", "HorizontalCorrector", "Dipole", "SpaceChargeKick"])
            lat.append({"cls": cls, "kw": gen_kw(rng, cls, rng.choice(methods_of(cls)), False)})
        col = k % 7
        wrt = ["beam", "energy"] if col == 6 else ["beam", "particles", rng.randrange(len(real)), col]
        cases.append({"lattice": lat, "beam": si, "wrt": wrt, "segment": bool(lat) and rng.random() < 0.5, "zero_point": False, "forced": "si_beam"})
    return cases


def gen_segment_cases(rng, n):
    cases = []
    for _ in range(n):
        m = rng.choice([2, 3, 4])
        btype = rng.choice(["particle", "parameter"])
        lat = []
        for _k in range(m):
            cls = rng.choice(SEG_CLASSES)
            method = "cheetah" if btype == "parameter" else rng.choice(methods_of(cls) + ["cheetah"])
            lat.append({"cls": cls, "kw": gen_kw(rng, cls, method, rng.random() < 0.25)})
        # an active cavity upstream of a switched-off one is generated rarely; classification handles it
        k = rng.randrange(m)
        p, idx = rng.choice(params_present(lat[k]["cls"], lat[k]["kw"]))
        cases.append({"lattice": lat, "beam": gen_beam(rng, btype), "wrt": ["elem", k, p, idx], "segment": rng.random() < 0.7,
                      "zero_point": False})
    return cases


def gen_beam_param_cases(rng, n):
    cases = []
    for _ in range(n):
        btype = rng.choice(["particle", "parameter"])
        m = rng.choice([1, 2, 3])
        lat = []
        for _k in range(m):
            cls = rng.choice(SEG_CLASSES + ["TransverseDeflectingCavity"] if btype == "particle" else SEG_CLASSES)
            method = "cheetah" if btype == "parameter" else rng.choice(methods_of(cls))
            lat.append({"cls": cls, "kw": gen_kw(rng, cls, method, rng.random() < 0.3)})
        beam = gen_beam(rng, btype)
        if btype == "particle":
            wrt = rng.choice([["beam", "particles", rng.randrange(len(beam["particles"])), rng.randrange(6)], ["beam", "energy"]])
        else:
            i, j = rng.randrange(6), rng.randrange(6)
            wrt = rng.choice([["beam", "mu", rng.randrange(6)], ["beam", "cov", i, j], ["beam", "energy"]])
        cases.append({"lattice": lat, "beam": beam, "wrt": wrt, "segment": rng.random() < 0.5, "zero_point": False})
    return cases



# ---------------------------------------------------------------------------------------------------------------------
# degenerate beams behind a live upstream parameter: the gradient has to flow THROUGH the coordinate transformation of
# every element class x tracking method, evaluated at particles that sit exactly on an axis
# ---------------------------------------------------------------------------------------------------------------------
PARTICLE_DEGENERACIES = ["reference_particle", "on_axis_momenta", "zero_divergence", "zero_column", "duplicates", "on_axis_positions"]
PARAMETER_DEGENERACIES = ["zero_mean", "zero_cov_row", "diagonal_cov", "zero_cov"]


def degenerate_beam(rng, btype, kind, energy=None):
    """(beam spec, index of the degenerate particle or coordinate).  All other entries stay generic so that outgoing quantities
    really depend on the upstream parameter."""
    b = gen_beam(rng, btype, energy)
    if btype == "particle":
        ps = b["particles"]
        while len(ps) < 3:
            ps.append([rr(rng, -1e-3, 1e-3, 6) for _ in range(6)] + [1.0])
        b["charges"] = [1e-12] * len(ps)
        b["survival"] = [1.0] * len(ps)
        q = rng.randrange(len(ps))
        if kind == "reference_particle":          # the all-zero reference particle carried along with the bunch
            ps[q] = [0.0] * 6 + [1.0]
        elif kind == "on_axis_momenta":           # px = py = 0 exactly, x, y != 0
            ps[q][1] = ps[q][3] = 0.0
        elif kind == "on_axis_positions":         # x = y = 0 exactly, momenta != 0
            ps[q][0] = ps[q][2] = 0.0
        elif kind == "zero_divergence":           # laminar beam: every particle has px = py = 0
            for r_ in ps:
                r_[1] = r_[3] = 0.0
        elif kind == "zero_column":               # one coordinate exactly 0 for every particle
            q = rng.randrange(6)
            for r_ in ps:
                r_[q] = 0.0
            return b, ("column", q)
        elif kind == "duplicates":                # two identical particles (one of them on the axis in half of the cases)
            if rng.random() < 0.5:
                ps[q] = [0.0] * 6 + [1.0]
            ps[(q + 1) % len(ps)] = list(ps[q])
        return b, ("particle", q)
    i = rng.randrange(6)
    if kind == "zero_mean":
        b["mu"] = [0.0] * 6 + [1.0]
    elif kind == "zero_cov_row":                  # coordinate i has no spread and no correlation
        for j in range(7):
            b["cov"][i][j] = b["cov"][j][i] = 0.0
    elif kind == "diagonal_cov":
        b["cov"] = [[b["cov"][a][c] if a == c else 0.0 for c in range(7)] for a in range(7)]
    elif kind == "zero_cov":                      # a pencil beam
        b["cov"] = [[0.0] * 7 for _ in range(7)]
        if rng.random() < 0.5:
            b["mu"] = [0.0] * 6 + [1.0]
    return b, ("coordinate", i)


def upstream_element(rng):
    """an element with a live parameter to be placed in front (linear tracking: it keeps an on-axis particle on the axis)"""
    c = rng.choice(["Quadrupole", "Quadrupole", "Drift", "HorizontalCorrector"])
    if c == "Quadrupole":
        kw = dict(length=rng.choice([0.1, 0.25, 0.5]), k1=rng.choice([2.0, -3.0, 0.5, rr(rng, -5, 5)]), misalignment=[0.0, 0.0], tilt=0.0,
                  num_steps=1, tracking_method="cheetah")
        return {"cls": c, "kw": kw}, rng.choice([("k1", None), ("k1", None), ("length", None)])
    if c == "Drift":
        return {"cls": c, "kw": dict(length=rng.choice([0.25, 0.5, 1.0]), tracking_method="cheetah")}, ("length", None)
    return {"cls": c, "kw": dict(length=rng.choice([0.0, 0.25]), angle=rng.choice([0.0, 1e-3]))}, ("angle", None)


def gen_degenerate_cases(rng, reps):
    """every element class x tracking method x beam type behind an upstream element with a live parameter, on beams that contain
    exactly-on-axis particles / zero moments; differentiated w.r.t. the upstream parameter and w.r.t. the incoming beam"""
    cases = []
    for cls in PARAMS:
        for method in methods_of(cls):
            for btype in ("particle", "parameter"):
                if btype == "parameter" and (method == "bmadx" or cls == "SpaceChargeKick"):
                    continue
                kinds = PARTICLE_DEGENERACIES if btype == "particle" else PARAMETER_DEGENERACIES
                # the reference particle / zero mean in every run, plus `reps` others
                chosen = [kinds[0]] + [rng.choice(kinds[1:]) for _ in range(reps)]
                if cls == "SpaceChargeKick":
                    chosen = chosen[:1 + (reps > 2)]
                for kind in chosen:
                    kw = gen_kw(rng, cls, method, rng.random() < 0.3)
                    up, (p, idx) = upstream_element(rng)
                    beam, (what, q) = degenerate_beam(rng, btype, kind)
                    lat = [up, {"cls": cls, "kw": kw}]
                    wrts = [["elem", 0, p, idx]]
                    if btype == "particle":
                        n = len(beam["particles"])
                        pq = q if what == "particle" else rng.randrange(n)
                        cols = [1, 3, 0] if what == "particle" else [q, rng.randrange(6)]
                        wrts.append(["beam", "particles", pq, rng.choice(cols)])
                        wrts.append(rng.choice([["beam", "particles", pq, rng.randrange(6)], ["beam", "energy"]]))
                    else:
                        wrts.append(["beam", "mu", q])
                        wrts.append(rng.choice([["beam", "cov", q, q], ["beam", "cov", q, rng.randrange(6)], ["beam", "energy"]]))
                    seg = rng.random() < 0.5
                    for w in wrts:
                        cases.append({"lattice": lat, "beam": beam, "wrt": w, "segment": seg, "zero_point": False,
                                      "degenerate": kind, "through": cls + "/" + method})
    return cases


def shrink(case, same):
    """drop elements of the lattice (other than the differentiated one) while the failure persists"""
    import copy
    changed = True
    while changed and len(case["lattice"]) > 1:
        changed = False
        for k in range(len(case["lattice"])):
            if case["wrt"][0] == "elem" and k == case["wrt"][1]:
                continue
            c2 = copy.deepcopy(case)
            del c2["lattice"][k]
            if c2["wrt"][0] == "elem" and c2["wrt"][1] > k:
                c2["wrt"][1] -= 1
            try:
                if same(c2):
                    case, changed = c2, True
                    break
            except Exception:  # noqa
                pass
    return case


def run_oracle(run, cases):
    """returns (violations, known) lists of (case, result, finding id)"""
    viol, known = [], []
    for case in cases:
        sk = skip_case(case)
        if sk:
            run.count("oracle_skipped_" + sk)
            continue
        res = compare(case)
        w = case["wrt"]
        tag = (case["lattice"][w[1]]["cls"] + "." + w[2]) if w[0] == "elem" else "beam." + w[1]
        run.count("oracle_" + res["status"])
        if res["status"] in ("rejected", "nonfinite_reference"):
            continue
        run.add_case(["oracle", case], res.get("n_dependent", 1) > 0)
        run.count("oracle_param_" + tag)
        if case.get("zero_point"):
            run.count("oracle_zero_points")
        if case.get("degenerate"):
            run.count("degenerate_beam_" + case["degenerate"])
            run.count("degenerate_through_" + case["through"])
        if case.get("forced") == "derived_default":
            d = case["derived"]
            key = f"{d['cls']}.{d['source']}_{'default_' + d['left_at_default'] if d['left_at_default'] else ('explicit' if d['variant'] == 'explicit' else 'stored_' + '+'.join(d['stored']))}_{d['method']}"
            run.count("derived_default_cases")
            run.count("derived_" + key)
            if res.get("n_dependent", 0) > 0:
                run.count("derived_default_cases_outputs_depend_on_source")
        if case.get("forced") == "si_beam":
            run.count("beam_from_si_coordinates_cases")
        if case.get("forced") == "fringe_integral_exit":
            run.count("fringe_integral_exit_forced_cases")
            if res.get("n_dependent", 0) > 0:
                run.count("fringe_integral_exit_outputs_depend_on_it")
                if res["status"] == "ok":
                    run.count("fringe_integral_exit_gradient_present_and_equal_to_finite_differences")
        if res["status"] == "mismatch":
            fid = classify(case, res)
            (known if fid else viol).append((case, res, fid))
    return viol, known


# =====================================================================================================================
# correspondence: autograd of transfer_map entries vs the Coq derivative matrices
# =====================================================================================================================
PREAMBLE = """From Coq Require Import Reals Lra.
From Interval Require Import Tactic.
From Cheetah Require Import Base.Mat Optics.Maps Optics.CS Optics.Flow Optics.Deriv Optics.DerivTac Optics.DerivRefute Optics.DerivF64.
Open Scope R_scope."""

M_E_IN_MAPS_V = 510998.95069
BLOCK8 = [(0, 0), (0, 1), (1, 0), (1, 1), (2, 2), (2, 3), (3, 2), (3, 3)]


class Env:
    """non-zero parameters become universally quantified variables pinned by `lit <= p <= lit`; zeros stay the literal 0"""

    def __init__(self):
        self.binders = []

    def __call__(self, name, x):
        x = float(x)
        if x == 0.0:
            return "0"
        if ("p" + name, x) not in self.binders:
            self.binders.append(("p" + name, x))
        return "p" + name


def lit(x):
    return "0" if float(x) == 0.0 else common.dyadic(float(x))


def _cs(k, L):
    if k > 0:
        w = math.sqrt(k)
        return math.cos(w * L), math.sin(w * L) / w
    if k < 0:
        w = math.sqrt(-k)
        return math.cosh(w * L), math.sinh(w * L) / w
    return 1.0, L


def tm_jacobian(make_tm, theta_value, entries):
    """autograd of selected entries of a 7x7 map w.r.t. a scalar leaf; make_tm(theta) -> tensor (7,7)"""
    import warnings
    theta = torch.tensor(float(theta_value), dtype=D, requires_grad=True)
    with warnings.catch_warnings():
        warnings.simplefilter("ignore")
        tm = make_tm(theta)
    out = {}
    for (i, j) in entries:
        if not tm[i, j].requires_grad:
            out[(i, j)] = None
            continue
        g = torch.autograd.grad(tm[i, j], theta, retain_graph=True, allow_unused=True)[0]
        out[(i, j)] = None if g is None else float(g)
    return out


def corr_points(rng, n_random):
    """(family, parameters) points: special values (exact zeros, both signs, small |k1|) and random points"""
    pts = []
    E0 = 1e8
    for k1 in (2.0, -3.0, 1e-3, -1e-3, 10.0):
        pts.append(("quad_k1", dict(L=0.5, k1=k1, E=E0)))
    pts.append(("quad_k1_zero", dict(L=0.5, k1=0.0, E=E0)))
    pts.append(("quad_k1_zero", dict(L=2.0, k1=0.0, E=5e6)))
    pts.append(("dipole_k1_zero", dict(L=1.0, k1=0.0, E=E0, cls="Dipole")))
    pts.append(("dipole_k1_zero", dict(L=1.0, k1=0.0, E=E0, cls="RBend")))
    pts.append(("cavity_off", dict(L=1.0, E=E0)))
    pts.append(("sol_zero", dict(L=0.5, E=E0)))
    pts.append(("quad_L", dict(L=0.5, k1=2.0, E=E0)))
    pts.append(("quad_L", dict(L=0.0, k1=-3.0, E=2e7)))
    pts.append(("quad_tilt", dict(L=0.5, k1=2.0, t=0.1, E=E0)))
    pts.append(("quad_tilt_zero", dict(L=0.5, k1=2.0, E=E0)))
    pts.append(("quad_mis", dict(L=0.5, k1=2.0, mx=1e-3, my=-2e-3, E=E0)))
    pts.append(("quad_mis_zero", dict(L=0.5, k1=2.0, E=E0)))
    pts.append(("drift_L", dict(L=1.0, E=E0)))
    pts.append(("drift_L", dict(L=0.0, E=5e6)))
    pts.append(("hcor", dict(L=0.5, a=0.0, E=E0)))
    pts.append(("vcor", dict(L=0.5, a=1e-3, E=E0)))
    pts.append(("sol_k", dict(L=0.5, k=0.5, E=E0)))
    pts.append(("sol_k", dict(L=1.0, k=-1.0, E=2e7)))
    pts.append(("sol_L", dict(L=0.5, k=3.0, E=E0)))
    pts.append(("dipole_k1", dict(L=1.0, k1=0.5, E=E0, cls="Dipole")))
    pts.append(("dipole_k1", dict(L=1.0, k1=-1.0, E=E0, cls="RBend")))
    pts.append(("bend_k1", dict(L=1.0, k1=0.5, a=0.1, E=E0, cls="Dipole")))
    pts.append(("bend_k1", dict(L=0.5, k1=-1.0, a=-0.3, E=2e7, cls="RBend")))
    pts.append(("bend_angle", dict(L=1.0, k1=0.5, a=0.1, E=E0, cls="Dipole")))
    pts.append(("bend_angle", dict(L=0.5, k1=-2.0, a=0.2, E=E0, cls="Dipole")))
    pts.append(("bend_angle_zero", dict(L=1.0, E=E0, cls="Dipole")))
    pts.append(("bend_angle_zero", dict(L=0.5, E=2e7, cls="RBend")))
    pts.append(("bend_angle_zero", dict(L=rng.choice([0.1, 0.25, 2.0]), E=rng.choice(ENERGIES), cls=rng.choice(["Dipole", "RBend"]))))
    pts.append(("seg_k1", dict(L=0.3, k1=2.0, Ld=0.5, E=E0)))
    pts.append(("seg_Ld", dict(L=0.3, k1=-1.5, Ld=0.5, E=E0)))
    for _ in range(n_random):
        E = rng.choice(ENERGIES)
        L = rng.choice(LENGTHS)
        fam = rng.choice(["quad_k1", "quad_k1", "quad_k1", "quad_L", "quad_L", "drift_L", "sol_k", "sol_k", "sol_L", "seg_k1", "seg_Ld",
                          "dipole_k1", "hcor", "vcor", "bend_k1", "bend_angle"])
        k1 = rr(rng, -8, 8) if rng.random() < 0.8 else rng.choice([1e-3, -1e-3, 1e-2])
        p = dict(L=L, E=E)
        if fam in ("quad_k1", "quad_L", "seg_k1", "seg_Ld"):
            p["k1"] = k1
        if fam in ("seg_k1", "seg_Ld"):
            p["Ld"] = rng.choice(LENGTHS)
        if fam == "dipole_k1":
            p.update(k1=k1, cls=rng.choice(["Dipole", "RBend"]))
        if fam in ("bend_k1", "bend_angle"):
            a = rng.choice([0.01, -0.02, 0.1, -0.3, rr(rng, -0.4, 0.4)])
            while abs(k1 + (a / L) ** 2) < 1e-2:          # kx2 = k1 + hx^2 = 0 is a pole of the formulas (unspecified point)
                k1 = rr(rng, -8, 8)
            p.update(k1=k1, a=a, cls="Dipole" if fam == "bend_angle" else rng.choice(["Dipole", "RBend"]))
        if fam in ("sol_k", "sol_L"):
            p["k"] = rr(rng, -3, 3)
        if fam in ("hcor", "vcor"):
            p["a"] = rng.choice([0.0, 1e-3, -2e-3])
        pts.append((fam, p))
    return pts


def corr_goal(fam, p):
    """returns dict(kind=..., goals=[(stmt, tactic)], notes) for one point.
    kind: 'num' (autograd finite: compare with the model), 'finding' (observation matches the refuted trace model),
    'broken' (observation matches neither)"""
    import cheetah
    env = Env()
    E = float(p["E"])
    Et = torch.tensor(E, dtype=D)
    lE = env("E", E)

    def T(x):
        return torch.tensor(float(x), dtype=D)

    cond = {}
    exact_zero = []
    finding = None
    if fam in ("quad_k1", "quad_k1_zero", "dipole_k1", "dipole_k1_zero"):
        L, k1 = p["L"], p["k1"]
        if fam.startswith("quad"):
            mk = lambda th: cheetah.Quadrupole(length=T(L), k1=th, dtype=D).transfer_map(Et)     # noqa: E731
        else:
            mk = lambda th: getattr(cheetah, p["cls"])(length=T(L), angle=T(0.0), k1=th, dtype=D).transfer_map(Et)     # noqa: E731
        entries = BLOCK8
        obs = tm_jacobian(mk, k1, [(i, j) for i in range(7) for j in range(7)])
        if k1 == 0.0:
            finding = "F6"
            term = f"(dquad_dk1_lim {env('L', L)})"
            for ij in entries:
                cond[ij] = 1e-12 * L ** 4 * 2 ** 36 + L + L ** 3     # the 1e-12 guard moves the derivative by <= 1e-12 L^4/6
        else:
            term = f"(dquad_dk1 {env('L', L)} {env('k1', k1)} {lE})"
            c1, s1 = _cs(k1, L)
            c2, s2 = _cs(-k1, L)
            kap = L * (abs(c1) + abs(s1) + abs(c2) + abs(s2)) / (2 * abs(k1)) * (1 + abs(k1)) + L * (abs(s1) + abs(s2))
            for ij in entries:
                cond[ij] = kap
            exact_zero = [(0, 2), (0, 5), (1, 5), (4, 0), (4, 5), (6, 6)]
    elif fam == "bend_angle_zero":
        # F64: Dipole / RBend at angle = 0, k1 = 0 (edge angles 0: the edge maps are identities and their derivative w.r.t. the
        # angle vanishes).  The guarded program is differentiable there (DerivF64.sbend_dangle_guard_at0); the entries other than
        # the dispersion pair must match its closed form to 2^-36; the dispersion pair R16, R52 must be explained by a stored
        # cos(1e-6 L) that is off by at most 2^-51 (DerivF64.f64_eta / f64_observation_band) -- nothing wider is accepted as F64
        L = p["L"]
        cls = getattr(cheetah, p["cls"])
        obs = tm_jacobian(lambda th: cls(length=T(L), angle=th, k1=T(0.0), dtype=D).transfer_map(Et), 0.0,
                          [(i, j) for i in range(7) for j in range(7)])
        fine, disp = [(1, 5), (4, 0), (0, 0), (0, 1), (1, 0), (4, 5)], [(0, 5), (4, 1)]
        res = {"family": fam, "point": p, "observed": {f"{i},{j}": obs[(i, j)] for (i, j) in fine + disp}, "goals": [], "finding": None, "kind": "num"}
        if any(obs[ij] is None or not math.isfinite(obs[ij]) for ij in fine + disp):
            res.update(kind="broken", why=f"autograd w.r.t. the angle at angle = 0, k1 = 0 returned {res['observed']} (None/NaN channel)")
            return res
        pL, pE = env("L", L), lE
        names = " ".join(n for n, _ in env.binders)
        prefix = f"forall {names} : R, " + "".join(f"{lit(x)} <= {n} <= {lit(x)} -> " for n, x in env.binders)
        intro = "intros " + names + " " + " ".join("H" + n for n, _ in env.binders) + ". "
        term = f"(rmscale (/ {pL}) (dsbend_dhx {pL} 1e-12 0 {pE}))"
        tols = {ij: 2.0 ** -36 * (abs(obs[ij]) + 2.0 + L) + 2.0 ** -80 for ij in fine}
        res["goals"].append((prefix + " /\\ ".join(f"Rabs (m7nth {term} {i} {j} - {lit(obs[(i, j)])}) <= {lit(tols[(i, j)])}" for (i, j) in fine),
                             f"{intro}c05_num."))
        res["goals"].append((prefix + " /\\ ".join(f"Rabs (f64_eta {pL} {pE} {lit(obs[ij])}) <= / 2 ^ 51" for ij in disp),
                             f"{intro}unfold f64_eta, beta_of, igamma2_of; c05_guards; unfold gamma_of, m_e, Rsqr; repeat split; interval with (i_prec 90)."))
        beta = math.sqrt(1.0 - (M_E_IN_MAPS_V / E) ** 2)
        true = L / 2 / beta
        res["tol"] = {"fine": {f"{i},{j}": tols[(i, j)] for (i, j) in fine}, "dispersion_band": (F64_ETA / 1e-12 + 1e-12 * L ** 4 / 24) / (L * beta)}
        if all(abs(obs[ij] - true) <= 2.0 ** -36 * (1 + true) for ij in disp):
            res["not_reproduced"] = "F64"
        else:
            res.update(kind="finding", finding="F64")
        return res
    elif fam in ("bend_k1", "bend_angle"):
        # edge angles, fringe integral and tilt are 0: the code's edge / rotation factors are exact identities in floats and do
        # not depend on k1; for RBend dipole_e = rbend_e + angle/2 must vanish, hence rbend_e = -angle/2
        L, k1, a = p["L"], p["k1"], p["a"]
        cls = getattr(cheetah, p["cls"])

        def mkb(kk, aa):
            if p["cls"] == "Dipole":
                return cls(length=T(L), angle=aa, k1=kk, dtype=D).transfer_map(Et)
            return cls(length=T(L), angle=aa, k1=kk, rbend_e1=T(-a / 2), rbend_e2=T(-a / 2), dtype=D).transfer_map(Et)
        entries = BLOCK8[:4] + [(0, 5), (1, 5), (4, 0), (4, 1), (4, 5)]
        hxs = f"({env('a', a)} / {env('L', L)})"
        if fam == "bend_k1":
            obs = tm_jacobian(lambda th: mkb(th, T(a)), k1, [(i, j) for i in range(7) for j in range(7)])
            term = f"(dsbend_dk1 {env('L', L)} {env('k1', k1)} {hxs} {lE})"
            entries = entries + BLOCK8[4:]
        else:
            obs = tm_jacobian(lambda th: mkb(T(k1), th), a, [(i, j) for i in range(7) for j in range(7)])
            term = f"(rmscale (/ {env('L', L)}) (dsbend_dhx {env('L', L)} {env('k1', k1)} {hxs} {lE}))"
        hx = a / L
        kx = k1 + hx * hx
        c1, s1 = _cs(kx, L)
        c2, s2 = _cs(-k1, L)
        kap = (1 + abs(hx)) ** 3 * (1 + 1 / abs(kx)) ** 2 * (1 + L) * (abs(c1) + abs(s1) + abs(c2) + abs(s2) + L) * (1 + abs(k1) + 1 / abs(k1)) / min(L, 1.0)
        for ij in entries:
            cond[ij] = kap
    elif fam == "quad_L":
        L, k1 = p["L"], p["k1"]
        mk = lambda th: cheetah.Quadrupole(length=th, k1=T(k1), dtype=D).transfer_map(Et)     # noqa: E731
        entries = BLOCK8 + [(4, 5)]
        obs = tm_jacobian(mk, L, [(i, j) for i in range(7) for j in range(7)])
        term = f"(dquad_dL {env('L', L)} {env('k1', k1)} {lE})"
        c1, s1 = _cs(k1, L)
        c2, s2 = _cs(-k1, L)
        for ij in BLOCK8:
            cond[ij] = (1 + abs(k1)) * (abs(c1) + abs(s1) + abs(c2) + abs(s2))
        cond[(4, 5)] = 0.0
    elif fam in ("quad_tilt", "quad_tilt_zero"):
        L, k1, t = p["L"], p["k1"], p.get("t", 0.0)
        mk = lambda th: cheetah.Quadrupole(length=T(L), k1=T(k1), tilt=th, dtype=D).transfer_map(Et)     # noqa: E731
        entries = [(0, 2), (1, 3)] if t == 0.0 else [(0, 0), (0, 2)]
        obs = tm_jacobian(mk, t, entries)
        if t == 0.0:
            finding = "F61"
            term = f"(dtilt_conj_0 (base_untilted {env('L', L)} {env('k1', k1)} 0 {lE}))"
        else:
            term = f"(dtilt_conj (base_untilted {env('L', L)} {env('k1', k1)} 0 {lE}) {env('t', t)})"
        c1, s1 = _cs(k1, L)
        c2, s2 = _cs(-k1, L)
        for ij in entries:
            cond[ij] = 2 * (abs(c1) + abs(s1) + abs(c2) + abs(s2)) * (1 + abs(k1))
    elif fam in ("quad_mis", "quad_mis_zero"):
        L, k1, mx, my = p["L"], p["k1"], p.get("mx", 0.0), p.get("my", 0.0)
        mk = lambda th: cheetah.Quadrupole(length=T(L), k1=T(k1), misalignment=torch.stack([th, T(my)]), dtype=D).transfer_map(Et)     # noqa: E731
        entries = [(0, 6), (1, 6)]
        obs = tm_jacobian(mk, mx, entries)
        if mx == 0.0 and my == 0.0:
            finding = "F60"
        term = f"(dmis_dmx (base_untilted {env('L', L)} {env('k1', k1)} 0 {lE}) {env('mx', mx)} {env('my', my)})"
        c1, s1 = _cs(k1, L)
        for ij in entries:
            cond[ij] = 1 + (abs(c1) + abs(s1)) * (1 + abs(k1))
    elif fam == "drift_L":
        L = p["L"]
        mk = lambda th: cheetah.Drift(length=th, dtype=D).transfer_map(Et)     # noqa: E731
        entries = [(0, 1), (2, 3), (4, 5)]
        obs = tm_jacobian(mk, L, [(i, j) for i in range(7) for j in range(7)])
        term = f"(ddrift_dL {lE})"
        exact_zero = [(0, 0), (1, 0), (4, 4), (0, 6)]
    elif fam in ("hcor", "vcor"):
        L, a = p["L"], p["a"]
        cls = cheetah.HorizontalCorrector if fam == "hcor" else cheetah.VerticalCorrector
        mk = lambda th: cls(length=T(L), angle=th, dtype=D).transfer_map(Et)     # noqa: E731
        entries = [(1, 6)] if fam == "hcor" else [(3, 6)]
        obs = tm_jacobian(mk, a, [(i, j) for i in range(7) for j in range(7)])
        term = "dhcor_dangle" if fam == "hcor" else "dvcor_dangle"
        exact_zero = [(0, 1), (0, 6), (4, 5), (3, 6) if fam == "hcor" else (1, 6)]
    elif fam in ("sol_k", "sol_L"):
        L, k = p["L"], p["k"]
        if fam == "sol_k":
            mk = lambda th: cheetah.Solenoid(length=T(L), k=th, dtype=D).transfer_map(Et)     # noqa: E731
            term = f"(dsol_dk {env('L', L)} {env('k', k)} {lE})"
            th0 = k
        else:
            mk = lambda th: cheetah.Solenoid(length=th, k=T(k), dtype=D).transfer_map(Et)     # noqa: E731
            term = f"(dsol_dL {env('L', L)} {env('k', k)} {lE})"
            th0 = L
        entries = [(0, 0), (0, 1), (0, 3), (1, 0), (1, 2), (3, 0)] + ([(4, 5)] if fam == "sol_L" else [])
        obs = tm_jacobian(mk, th0, [(i, j) for i in range(7) for j in range(7)])
        kap = (1 + abs(k)) ** 2 * (1 + L) ** 2 * (1 + 1 / abs(k)) + (abs(L * k) + 1) / (k * k)
        for ij in entries:
            cond[ij] = kap
        cond[(4, 5)] = 0.0
        exact_zero = [(0, 4), (4, 0), (0, 6), (5, 5)] if fam == "sol_k" else []
    elif fam == "sol_zero":
        L = p["L"]
        mk = lambda th: cheetah.Solenoid(length=T(L), k=th, dtype=D).transfer_map(Et)     # noqa: E731
        entries = [(0, 1), (0, 2), (0, 3), (1, 3), (2, 0), (2, 1)]
        obs = tm_jacobian(mk, 0.0, entries)
        finding = "F7"
        term = f"(dsol_dk_lim {env('L', L)})"
        for ij in entries:
            cond[ij] = 1 + L + L * L
    elif fam == "cavity_off":
        L = p["L"]
        mk = lambda th: cheetah.Cavity(length=T(L), voltage=th, phase=T(30.0), frequency=T(1.3e9), dtype=D).transfer_map(Et)     # noqa: E731
        entries = [(0, 1), (0, 0)]
        obs = tm_jacobian(mk, 0.0, entries)
        finding = "F7"
        term = None
    elif fam in ("seg_k1", "seg_Ld"):
        L, k1, Ld = p["L"], p["k1"], p["Ld"]
        if fam == "seg_k1":
            mk = lambda th: cheetah.Segment([cheetah.Quadrupole(length=T(L), k1=th, dtype=D), cheetah.Drift(length=T(Ld), dtype=D)]).transfer_map(Et)     # noqa: E731
            term = f"(rmmul (drift_map {env('Ld', Ld)} {lE}) (dquad_dk1 {env('L', L)} {env('k1', k1)} {lE}))"
            th0 = k1
        else:
            mk = lambda th: cheetah.Segment([cheetah.Quadrupole(length=T(L), k1=T(k1), dtype=D), cheetah.Drift(length=th, dtype=D)]).transfer_map(Et)     # noqa: E731
            term = f"(rmmul (ddrift_dL {lE}) (base_untilted {env('L', L)} {env('k1', k1)} 0 {lE}))"
            th0 = Ld
        entries = [(0, 0), (0, 1), (2, 3)]
        obs = tm_jacobian(mk, th0, entries)
        c1, s1 = _cs(k1, L)
        c2, s2 = _cs(-k1, L)
        kap = (1 + Ld) * (L * (abs(c1) + abs(s1) + abs(c2) + abs(s2)) / (2 * abs(k1)) * (1 + abs(k1)) + L * (abs(s1) + abs(s2)) + abs(c1) + abs(c2))
        for ij in entries:
            cond[ij] = kap
    else:
        raise KeyError(fam)

    binders = env.binders
    names = " ".join(n for n, _ in binders)
    prefix = (f"forall {names} : R, " + "".join(f"{lit(x)} <= {n} <= {lit(x)} -> " for n, x in binders)) if binders else ""
    intro = ("intros " + names + " " + " ".join("H" + n for n, _ in binders) + ". ") if binders else ""
    vals = [obs[ij] for ij in entries]
    res = {"family": fam, "point": p, "observed": {f"{i},{j}": obs[(i, j)] for (i, j) in entries}, "goals": [], "finding": None, "kind": "num"}

    # ---- points where the faithful model refutes the property: the observation must be the trace model's, or the true derivative
    if finding:
        if finding == "F6" and all(v == 0.0 for v in vals):
            res.update(kind="finding", finding="F6")
            res["goals"].append((f"forall L E : R, 0 < L -> m7_derive (quad_trace L 0 E) 0 rZ /\\ {' /\\ '.join(f'm7nth rZ {i} {j} = 0' for (i, j) in entries)}",
                                 "intros L E HL. split; [apply quad_trace_deriv_0|]. repeat split; reflexivity."))
            return res
        if finding in ("F60", "F61") and all(v is None or v == 0.0 for v in vals):
            res.update(kind="finding", finding=finding)
            i, j = entries[0]
            res["goals"].append((f"m7nth rZ {i} {j} = 0", "reflexivity."))
            return res
        if finding == "F7" and all(v is not None and math.isnan(v) for v in vals):
            res.update(kind="finding", finding="F7")
            if fam == "sol_zero":
                res["goals"].append((f"sol_sk_grad_ad {lit(p['L'])} 0 = None", "apply solenoid_dk_at0_refuted."))
            else:
                res["goals"].append((f"forall g, cav_r12_grad_ad {lit(p['L'])} 0 {lit(math.radians(30.0))} {lit(E)} g = None",
                                     "intros g. apply cavity_grad_at_V0_refuted."))
            return res
        if term is None or any(v is None or not math.isfinite(v) for v in vals):
            res["kind"] = "broken"
            res["why"] = f"observation {vals} matches neither the refuted trace model of {finding} nor a finite derivative"
            return res
        # finite and not the trace value: the finding is not reproduced; the observation must then be the true derivative (the limit)

    if any(v is None or not math.isfinite(v) for v in vals):
        res["kind"] = "broken"
        res["why"] = f"autograd returned {vals} where the model derivative is defined (None/NaN channel)"
        return res
    for ij in exact_zero:
        if obs.get(ij) not in (None, 0.0):
            res["kind"] = "broken"
            res["why"] = f"autograd of entry {ij} is {obs.get(ij)!r} but the model derivative has a structural 0 there"
            return res
    if exact_zero:
        res["goals"].append((prefix + " /\\ ".join(f"m7nth {term} {i} {j} = 0" for (i, j) in exact_zero), f"{intro}c05_exact."))
    stm = []
    tols = {}
    for ij in entries:
        tol = 2.0 ** -36 * (abs(obs[ij]) + cond.get(ij, 0.0)) + 2.0 ** -80
        tols[f"{ij[0]},{ij[1]}"] = tol
        stm.append(f"Rabs (m7nth {term} {ij[0]} {ij[1]} - {lit(obs[ij])}) <= {lit(tol)}")
    res["tol"] = tols
    res["goals"].append((prefix + " /\\ ".join(stm), f"{intro}c05_num."))
    if finding:
        res["not_reproduced"] = finding
    return res


def correspondence(run, n_random):
    from cheetah.utils import physics
    broken = []
    if physics.electron_mass_eV != M_E_IN_MAPS_V:
        broken.append({"why": f"electron_mass_eV = {physics.electron_mass_eV!r} but Optics/Maps.v has m_e = {M_E_IN_MAPS_V!r}"})
        return broken, []
    goals, owner, results = [], [], []
    for fam, p in corr_points(run.rng, n_random):
        r, exc = _try(lambda: corr_goal(fam, p))
        if exc is not None:
            broken.append({"family": fam, "point": p, "why": "the implementation raised: " + exc})
            continue
        results.append(r)
        run.add_case(["corr", fam, p], True)
        run.count("corr_" + fam)
        if r["kind"] == "broken":
            broken.append({"family": fam, "point": p, "why": r["why"], "observed": r["observed"]})
            continue
        for g in r["goals"]:
            goals.append(g)
            owner.append(r)
    run.sample({"family": results[0]["family"], "point": results[0]["point"], "observed_autograd": results[0]["observed"],
                "goal": results[0]["goals"][-1][0][:600]} if results and results[0]["goals"] else {})
    failing, errs = common.run_real_goals(PID, "corr", PREAMBLE, goals, shard=6, jobs=16, timeout=900)
    run.cov["traces_validated_against_impl"] += len(results)
    run.cov["real_goals"] = len(goals)
    for i in failing:
        r = owner[i]
        broken.append({"family": r["family"], "point": r["point"], "observed": r["observed"], "tol": r.get("tol"),
                       "why": "interval goal failed: the autograd value is not the model derivative within tolerance",
                       "goal": goals[i][0][:1500], "coq": errs.get(i, "")[-400:]})
    return broken, results


# =====================================================================================================================
# main
# =====================================================================================================================
def corr_search_cases(b):
    """oracle cases around a broken correspondence point (to look for a failing input on the implementation)"""
    import random
    fam, p = b.get("family"), b.get("point")
    if not fam:
        return []
    rng = random.Random(0)
    E = p["E"]
    beams = [gen_beam(rng, "particle", E), gen_beam(rng, "parameter", E)]
    lat, wrts = None, []
    if fam.startswith("quad") or fam.startswith("seg"):
        lat = [{"cls": "Quadrupole", "kw": dict(length=p["L"], k1=p.get("k1", 0.0), misalignment=[p.get("mx", 0.0), p.get("my", 0.0)],
                                                  tilt=p.get("t", 0.0), tracking_method="cheetah")}]
        wrts = [["elem", 0, "k1", None], ["elem", 0, "length", None], ["elem", 0, "tilt", None], ["elem", 0, "misalignment", 0]]
        if fam.startswith("seg"):
            lat.append({"cls": "Drift", "kw": dict(length=p["Ld"], tracking_method="cheetah")})
            wrts.append(["elem", 1, "length", None])
    elif fam == "bend_angle_zero":
        e = "dipole_e" if p["cls"] == "Dipole" else "rbend_e"
        lat = [{"cls": p["cls"], "kw": {"length": p["L"], "angle": 0.0, "k1": 0.0, e + "1": 0.0, e + "2": 0.0, "tilt": 0.0,
                                         "tracking_method": "cheetah"}}]
        wrts = [["elem", 0, "angle", None], ["elem", 0, "length", None]]
    elif fam.startswith("dipole"):
        e = "dipole_e" if p["cls"] == "Dipole" else "rbend_e"
        lat = [{"cls": p["cls"], "kw": {"length": p["L"], "angle": 0.0, "k1": p["k1"], e + "1": 0.0, e + "2": 0.0, "tilt": 0.0,
                                         "tracking_method": "cheetah"}}]
        wrts = [["elem", 0, "k1", None], ["elem", 0, "length", None]]
    elif fam == "drift_L":
        lat = [{"cls": "Drift", "kw": dict(length=p["L"], tracking_method="cheetah")}]
        wrts = [["elem", 0, "length", None]]
    elif fam in ("hcor", "vcor"):
        lat = [{"cls": "HorizontalCorrector" if fam == "hcor" else "VerticalCorrector", "kw": dict(length=p["L"], angle=p["a"])}]
        wrts = [["elem", 0, "angle", None], ["elem", 0, "length", None]]
    elif fam.startswith("sol"):
        lat = [{"cls": "Solenoid", "kw": dict(length=p["L"], k=p.get("k", 0.0), misalignment=[0.0, 0.0])}]
        wrts = [["elem", 0, "k", None], ["elem", 0, "length", None]]
    elif fam == "cavity_off":
        lat = [{"cls": "Cavity", "kw": dict(length=p["L"], voltage=0.0, phase=30.0, frequency=1.3e9)}]
        wrts = [["elem", 0, "voltage", None], ["elem", 0, "length", None]]
    return [{"lattice": lat, "beam": bm, "wrt": w, "segment": False, "zero_point": False} for w in wrts for bm in beams]


def replay_dict(case, res, extra=None):
    d = {"kind": "autograd_vs_finite_differences", "case": {k: case[k] for k in ("lattice", "beam", "wrt", "segment")},
         "mismatches": res["bad"][:6], "n_mismatches": len(res["bad"]),
         **({"not_a_known_finding_because": res["not_known_because"]} if res.get("not_known_because") else {}),
         **({k: case[k] for k in ("degenerate", "through", "derived") if k in case}),
         "relation": "torch.autograd.grad(outgoing quantity, parameter) == central finite difference (Richardson), finite and not None"}
    if extra:
        d.update(extra)
    return d


def replay_known(run):
    """replays the stored input of every listed finding.  known + still failing with its signature -> KNOWN-FINDING; known + passing
    -> note (the status is stale); fixed + failing again -> VIOLATION (regression) with that input.  Returns the ids that regressed."""
    regressed = set()
    for f in common.load_known_findings(PID):
        case = f.get("replay")
        if not case or "lattice" not in case:
            continue
        res, exc = _try(lambda: compare(case))
        if f.get("status") == "known":
            if exc is None and res["status"] == "mismatch" and classify(case, res) == f["id"]:
                run.known(f["what"])
            else:
                run.cov["known_findings_not_reproduced"].append(f["id"])
                if exc is None and res["status"] == "ok":
                    run.notes.append(f"{f['id']} is listed known but its stored input passes (autograd equals finite differences on all "
                                     f"{res.get('n_dependent')} dependent outputs): the status of {f['id']} is stale (flip it to fixed)")
        elif f.get("status") == "fixed":
            run.cov.setdefault("fixed_findings_replayed", []).append(f["id"])
            failed = exc is not None or res["status"] == "mismatch"
            if failed and f["id"] not in regressed:
                regressed.add(f["id"])
                res = res or {"bad": [{"output": "*", "autograd": exc, "fd": None, "tol": None, "kind": "exception"}]}
                run.violation(replay_dict(case, res, {"kind": "regression", "finding": f["id"],
                                                      "what": f"fixed finding {f['id']} fails again on its stored input: " + f["what"]}))
    return regressed


def main(tier, replay=None):
    run = common.Run(PID, tier)
    common.setup_python_env()
    torch.set_num_threads(2)
    thorough = tier == "thorough"
    run.cov["rule"] = ("correspondence: autograd of transfer_map entries w.r.t. one buffer at special points (exact zeros, both signs of k1, "
                       "|k1| = 1e-3) and random points vs the Coq derivative matrices (interval goals). Oracle (testing): for every element class x "
                       "differentiable parameter x beam type x tracking method, one all-zero point and %d random points; segments of 2-4 elements; "
                       "beam parameters; degenerate beams (all-zero reference particle, px = py = 0, x = y = 0, zero-divergence beam, one "
                       "coordinate exactly 0 for all particles, duplicate particles; ParameterBeam with zero mean, zero cov row, diagonal "
                       "or zero cov) behind an upstream element with a live parameter for every class x tracking method, differentiated "
                       "w.r.t. the upstream parameter and the incoming beam; constructor arguments that feed other stored quantities "
                       "(discovered per run: Dipole/RBend gap -> gap_exit, fringe_integral -> fringe_integral_exit, RBend angle / rbend_e -> "
                       "dipole_e) differentiated w.r.t. the source for every tracking method x beam type x fringe_at, the derived argument "
                       "at its default (also source = 0) and explicit; beams built from SI coordinates (from_xyz_pxpypz) w.r.t. every "
                       "column; all outgoing mu/sigma/cov/particle coordinates/energy; "
                       "autograd vs Richardson-extrapolated central differences. A failure is a known finding only if point, observed "
                       "value (0 / None / NaN / F64 band / F63 cut-graph value) and attribution (passes off the exact-zero point) all "
                       "match. Non-trivial = at least one outgoing quantity depends on the parameter; distinct by full case content."
                       % (12 if thorough else 1))
    if replay:
        return do_replay(run, replay)
    proof_ok = run.proof_stage()
    if not proof_ok:
        run.notes.append(run.proof_problem)
    ok, log = common.coq_build("theories/Optics/DerivTac.vo")
    broken, results = ([{"why": "coq build of Optics/DerivTac.vo failed: " + log[-800:]}], []) if not ok else correspondence(run, 120 if thorough else 12)

    run.cov["findings_listed_known"] = sorted(known_ids())
    cases = gen_single_cases(run.rng, 12 if thorough else 1) + gen_segment_cases(run.rng, 800 if thorough else 40) \
        + gen_beam_param_cases(run.rng, 400 if thorough else 30) + gen_degenerate_cases(run.rng, 12 if thorough else 2) \
        + gen_one_zero_cases(run.rng)
    for _ in range(4 if thorough else 1):
        cases += gen_fringe_exit_cases(run.rng)
    cases += gen_si_beam_cases(run.rng, 140 if thorough else 14)
    derived, exc = _try(lambda: discover_derived(run.rng))
    run.cov["derived_arguments_discovered"] = [{"cls": c, "source": s_, "left_at_default": o, "stored_quantities_that_follow": m}
                                               for (c, s_, o, m) in (derived or [])] if exc is None else "discovery raised: " + exc
    for _ in range(3 if thorough else 1):
        cases += gen_derived_default_cases(run.rng, derived or [], thorough)
    viol, known = run_oracle(run, cases)
    # failing inputs around a broken correspondence point
    if broken and not viol:
        for b in broken:
            v2, k2 = run_oracle(run, corr_search_cases(b))
            viol += v2
            known += k2
    for r in results:
        if r["kind"] == "finding":
            run.count("corr_finding_" + r["finding"])
        if r.get("not_reproduced"):
            run.notes.append(f"correspondence: finding {r['not_reproduced']} not reproduced at {r['family']} {r['point']} (autograd equals the true derivative)")
    seen = {}
    for case, res, fid in known:
        seen.setdefault(fid, 0)
        seen[fid] += 1
    run.cov["known_finding_hits"] = seen
    regressed = replay_known(run)
    # failures explained by a regression just reported with the finding's stored input
    viol = [(case, res, fid) for case, res, fid in viol if signature(case, res) not in regressed]
    run.cov["tested_only"] = [
        "that torch.autograd returns the Coq-proved derivative: sampled points only (interval correspondence + finite differences)",
        "Bmad-X tracking, Cavity (voltage != 0), TransverseDeflectingCavity, SpaceChargeKick, CustomTransferMap, Dipole/RBend with edges, "
        "beam-parameter gradients, ParticleBeam statistics (mu_*, sigma_*): finite-difference oracle only",
        "finite-difference tolerance: 1e-5 relative + 50 x Richardson error estimate + 1e-6 x (output scale / parameter scale)",
        "gradients THROUGH every element class x tracking method at exactly-on-axis particles / zero moments (upstream parameter, "
        "incoming beam): finite-difference oracle only",
        "known-finding signatures: F64's band is proved in Optics/DerivF64.v and tied to the observation by an interval goal at the "
        "transfer-map level; at the level of outgoing quantities the band is applied through a measured sensitivity; F63's and F65's "
        "wrong values (|.| with subgradient 0) and all attribution tests are checked on the implementation only",
        "sigma_* outputs with a variance at (or, relative to the finite-difference step, next to) zero are unspecified and dropped"]

    # ---- verdict
    if viol:
        case, res, _ = viol[0]

        def same(c2):
            r2 = compare(c2)
            return r2["status"] == "mismatch" and classify(c2, r2) is None
        case = shrink(case, same)
        res = compare(case)
        classify(case, res)           # records why the failure is not a known finding (if its point matches one)
        run.violation(replay_dict(case, res))
    elif broken:
        run.violation({"kind": "correspondence", "broken": "autograd of transfer_map entries disagrees with the Coq derivative model (Optics/Deriv.v)",
                       "details": broken[:5]}, no_input=True)
    elif not proof_ok:
        run.violation({"kind": "proof", "broken": run.proof_problem}, no_input=True)
    return run.finish("proof")


def do_replay(run, path):
    r = json.loads(open(path).read())
    if "case" not in r:
        print("replay: this replay file carries no failing input (model/proof breakage): re-run ./check C05")
        return 1
    case = dict(r["case"])
    res = compare(case)
    fails = res["status"] == "mismatch" and classify(case, res) is None
    print("replay:", "property FAILS on this input" if fails else "property holds on this input (or the failure matches a known finding)")
    print(json.dumps({"status": res["status"], "mismatches": res["bad"][:6]}, default=str))
    return 1 if fails else 0
