"""C06 -- ParameterBeam tracking equals the moments of ParticleBeam tracking."""
import copy
import json
import math
from fractions import Fraction

import torch

import common
import realgen
import zlattice as zl
from common import coq_list, dyadic, zlit

PID = "C06"
DT = torch.float64
PRE_EXACT = """From Coq Require Import List Bool ZArith QArith String.
From Cheetah Require Import Base.Mat Beam.Moments Lattice.Track Lattice.ZInst Beam.MomQ.
Import ListNotations. Open Scope string_scope. Open Scope Z_scope."""
PRE_REAL = """From Coq Require Import Reals List Lra.
From Interval Require Import Tactic.
From Cheetah Require Import Base.Mat Beam.Moments Beam.MomCavity Beam.MomCavityCorr Optics.Maps.
Import ListNotations. Open Scope R_scope."""

LINEAR_CLASSES = ["Drift", "Quadrupole", "Dipole", "RBend", "Solenoid", "HorizontalCorrector", "VerticalCorrector",
                  "Undulator", "Marker", "BPM", "Screen", "Aperture", "CustomTransferMap", "Cavity"]
F2_WHAT = ("Cavity.track(ParameterBeam) overwrites cov[4,4] and cov[4,5] with T566*cov55^2+... (also at voltage=0): longitudinal "
           "second moments differ from the tracked particles and the outgoing covariance is not positive semi-definite [F2]")
F1_WHAT = ("Cavity(voltage=0).track(ParticleBeam) is not linear (tau += T566*delta^2): mean tau and the tau row of the covariance "
           "differ from the ParameterBeam / transfer-map result for a switched-off cavity [F1]")


# ---------------------------------------------------------------- moments of a ParticleBeam, by cheetah's own statistics
def moments_impl(pb):
    """(mu[7], cov[7,7]) of a ParticleBeam with cheetah's survival-weighted getters / unbiased_weighted_covariance."""
    from cheetah.utils.statistics import unbiased_weighted_covariance as uwc
    P, w = pb.particles, pb.survival_probabilities
    mu = torch.stack([pb.mu_x, pb.mu_px, pb.mu_y, pb.mu_py, pb.mu_tau, pb.mu_p, (P[..., 6] * w).sum(-1) / w.sum(-1)], -1)
    cov = torch.stack([torch.stack([uwc(P[..., i], P[..., j], w, dim=-1) for j in range(7)], -1) for i in range(7)], -2)
    return mu, cov


def as_parameter_beam(pb):
    import cheetah
    mu, cov = moments_impl(pb)
    return cheetah.ParameterBeam(mu, cov, pb.energy, total_charge=pb.total_charge, dtype=DT)


def exact_moments(rows):
    """exact rational mean / unbiased covariance of a list of 7-vectors of floats"""
    n = len(rows)
    fr = [[Fraction(float(x)) for x in r] for r in rows]
    mu = [sum(r[i] for r in fr) / n for i in range(7)]
    cov = [[sum((r[i] - mu[i]) * (r[j] - mu[j]) for r in fr) / (n - 1) for j in range(7)] for i in range(7)]
    return mu, cov


# ---------------------------------------------------------------- exact layer (a): integer trees
def gen_int_particles(rng, n, amp=3):
    """n integer particles whose sample mean and unbiased covariance are integers: coordinates are multiples of (n-1)
    and each coordinate sums to a multiple of n(n-1).  Correlated (tau-delta chirp, x-px), off-axis."""
    cols = []
    for c in range(6):
        a = [rng.randrange(-amp, amp + 1) for _ in range(n)]
        cols.append(a)
    if rng.random() < 0.6:   # chirp: delta follows tau
        k = rng.choice([1, -1, 2])
        cols[5] = [k * t + rng.randrange(-1, 2) for t in cols[4]]
    if rng.random() < 0.5:   # x-px correlation
        cols[1] = [x + rng.randrange(-1, 2) for x in cols[0]]
    for c in range(6):
        off = rng.choice([0, 0, 1, -2, 5])   # off-axis
        a = [v + off for v in cols[c]]
        a[-1] -= sum(a) % n
        cols[c] = [(n - 1) * v for v in a]
    return [[cols[c][i] for c in range(6)] + [1] for i in range(n)]


def observe_tree(tree, ps, E, q):
    import cheetah
    seg = zl.build(tree)
    n = len(ps)
    pb = cheetah.ParticleBeam(torch.tensor(ps, dtype=DT), torch.tensor(float(E), dtype=DT),
                              particle_charges=torch.tensor(q, dtype=DT), survival_probabilities=torch.ones(n, dtype=DT), dtype=DT)
    mu_in, cov_in = moments_impl(pb)
    qb = cheetah.ParameterBeam(mu_in, cov_in, pb.energy, total_charge=pb.total_charge, dtype=DT)
    op, oq = seg.track(pb), seg.track(qb)
    if float(op.particles.abs().max()) >= 2 ** 16:
        raise zl.Inexact()
    mu_p, cov_p = moments_impl(op)
    return {"mu_in": zl._ints(mu_in), "cov_in": zl._ints(cov_in), "mu_part": zl._ints(mu_p), "cov_part": zl._ints(cov_p),
            "E_part": zl._ints(op.energy), "Q_part": zl._ints(op.total_charge), "out_param": zl.observe_beam(oq),
            "part_rows": zl._ints(op.particles)}


def tree_oracle(obs):
    """the property on the implementation alone (exact)"""
    o = obs["out_param"]
    bad = []
    if o["mu"] != obs["mu_part"]:
        bad.append("mean")
    if o["cov"] != obs["cov_part"]:
        bad.append("cov")
    if o["E"] != obs["E_part"]:
        bad.append("energy")
    if o["Q"] != obs["Q_part"]:
        bad.append("total_charge")
    return bad


def coq_zcase(tree, ps, E, q, obs):
    return (f"mkz {zl.coq_elem(tree)} {coq_list([zl.coq_v7(p) for p in ps])} {zlit(E)} {coq_list([zlit(x) for x in q])} "
            f"{coq_list(['1'] * len(ps))} {zl.coq_v7(obs['mu_in'])} {zl.coq_m7(obs['cov_in'])} {zl.coq_v7(obs['mu_part'])} "
            f"{zl.coq_m7(obs['cov_part'])} {zlit(obs['E_part'])} {zlit(obs['Q_part'])} {zl.coq_beam(obs['out_param'])}")


def exact_trees(run, n_cases):
    cases, terms, impl_fail = [], [], []
    tries = 0
    while len(cases) < n_cases and tries < n_cases * 6:
        tries += 1
        counter = [0]
        tree = zl.gen_tree(run.rng, 2, 4, counter, kinds=("map", "map", "ctm", "marker"), budget=[5])
        n = run.rng.choice([3, 4, 5, 6, 7, 8])
        ps = gen_int_particles(run.rng, n, amp=run.rng.choice([1, 2, 3]))
        E = run.rng.choice([1, 2, 3])
        q = [run.rng.randrange(0, 4) for _ in range(n)]
        try:
            obs = observe_tree(tree, ps, E, q)
        except zl.Inexact:
            run.count("tree_discarded_inexact")
            continue
        except Exception as ex:  # noqa -- the implementation raised: an observation; keep going so that a value-level failing input can be found
            run.count("tree_impl_raised")
            if not hasattr(run, "first_impl_exc"):
                run.first_impl_exc = ex
            continue
        leaves = zl.leaves(tree)
        nontrivial = any(l["kind"] in ("map", "ctm") and (l.get("a0") or l.get("a1")) for l in leaves)
        run.add_case(["tree", tree, ps, E, q], nontrivial)
        run.count("tree_particles_%d" % n)
        run.count("tree_leaves_%d" % min(len(leaves), 6))
        if any(l.get("a1") for l in leaves):
            run.count("tree_energy_dependent_map")
        if any(e[1] == 6 for l in leaves for e in (l.get("a0") or [])):
            run.count("tree_affine_map")
        if tree_oracle(obs):
            impl_fail.append(len(cases))
        cases.append((tree, ps, E, q, obs))
        terms.append(coq_zcase(tree, ps, E, q, obs))
    if cases:
        run.sample({"kind": "tree", "tree": cases[0][0], "particles": cases[0][1], "E": cases[0][2],
                    "observed": {k: v for k, v in cases[0][4].items() if k != "part_rows"}})
    failing = common.run_shards(PID, "trees", PRE_EXACT, terms, "c06z_check")
    run.cov["traces_validated_against_impl"] += len(cases)
    return cases, failing, impl_fail


# ---------------------------------------------------------------- exact layer (b): dyadic CustomTransferMap
def qz(fr):
    fr = Fraction(fr)
    return f"(Qmake {zlit(fr.numerator)} {fr.denominator})"


def q_v7(v):
    return "(mk7 " + " ".join(qz(Fraction(float(x))) for x in v) + ")"


def q_m7(m):
    return "(mk7 " + " ".join(q_v7(r) for r in m) + ")"


def gen_dyadic_map(rng):
    m = [[Fraction(int(i == j)) for j in range(7)] for i in range(7)]
    for _ in range(rng.randrange(2, 9)):
        i, j = rng.randrange(6), rng.randrange(7)
        m[i][j] += Fraction(rng.choice([-8, -4, -3, -2, -1, 1, 2, 3, 4, 6]), 4)
    return [[float(x) for x in r] for r in m]


def observe_q(m, ps, E, q):
    import cheetah
    n = len(ps)
    el = cheetah.CustomTransferMap(torch.tensor(m, dtype=DT), length=torch.tensor(0.5, dtype=DT), name="ctm")
    pb = cheetah.ParticleBeam(torch.tensor(ps, dtype=DT), torch.tensor(float(E), dtype=DT),
                              particle_charges=torch.tensor(q, dtype=DT), survival_probabilities=torch.ones(n, dtype=DT), dtype=DT)
    mu_in, cov_in = moments_impl(pb)
    qb = cheetah.ParameterBeam(mu_in, cov_in, pb.energy, total_charge=pb.total_charge, dtype=DT)
    # the property must hold whichever beam type is tracked first through this element instance (a track that leaves something
    # behind in the element would show up in the second one): alternate the order deterministically
    if (len(ps) + int(E)) % 2 == 0:
        op, oq = el.track(pb), el.track(qb)
    else:
        oq, op = el.track(qb), el.track(pb)
    mu_p, cov_p = moments_impl(op)
    return {"mu_in": mu_in.tolist(), "cov_in": cov_in.tolist(), "mu_part": mu_p.tolist(), "cov_part": cov_p.tolist(),
            "mu_param": oq._mu.tolist(), "cov_param": oq._cov.tolist(), "E": [float(op.energy), float(oq.energy)],
            "Q": [float(op.total_charge), float(oq.total_charge)], "part_rows": op.particles.tolist()}


def q_oracle(obs):
    bad = []
    if obs["mu_part"] != obs["mu_param"]:
        bad.append("mean")
    if obs["cov_part"] != obs["cov_param"]:
        bad.append("cov")
    if obs["E"][0] != obs["E"][1]:
        bad.append("energy")
    if obs["Q"][0] != obs["Q"][1]:
        bad.append("total_charge")
    return bad


def observe_q_vec(ms, pss, E, qs):
    """B dyadic maps in ONE vectorised CustomTransferMap, B particle sets in ONE vectorised ParticleBeam (and the ParameterBeam of its
    moments): list of per-entry observations in the format of observe_q, or raises ShapeMismatch"""
    import cheetah
    B, n = len(ms), len(pss[0])
    el = cheetah.CustomTransferMap(torch.tensor(ms, dtype=DT), length=torch.full((B,), 0.5, dtype=DT), name="ctm")
    pb = cheetah.ParticleBeam(torch.tensor(pss, dtype=DT), torch.tensor(float(E), dtype=DT),
                              particle_charges=torch.tensor(qs, dtype=DT), survival_probabilities=torch.ones(B, n, dtype=DT), dtype=DT)
    mu_in, cov_in = moments_impl(pb)
    qb = cheetah.ParameterBeam(mu_in, cov_in, pb.energy, total_charge=pb.total_charge, dtype=DT)
    op, oq = el.track(pb), el.track(qb)
    shapes = {"ParameterBeam.mu": list(oq._mu.shape), "ParameterBeam.cov": list(oq._cov.shape), "ParticleBeam.particles": list(op.particles.shape)}
    if tuple(oq._mu.shape) != (B, 7) or tuple(oq._cov.shape) != (B, 7, 7) or tuple(op.particles.shape) != (B, n, 7):
        raise ShapeMismatch(json.dumps(shapes))
    mu_p, cov_p = moments_impl(op)
    out = []
    for b in range(B):
        out.append({"mu_in": mu_in[b].tolist(), "cov_in": cov_in[b].tolist(), "mu_part": mu_p[b].tolist(), "cov_part": cov_p[b].tolist(),
                    "mu_param": oq._mu[b].tolist(), "cov_param": oq._cov[b].tolist(),
                    "E": [float(op.energy.expand(B)[b]), float(oq.energy.expand(B)[b])],
                    "Q": [float(op.total_charge.expand(B)[b]), float(oq.total_charge.expand(B)[b])], "part_rows": op.particles[b].tolist()})
    return out


class ShapeMismatch(Exception):
    pass


def exact_qmaps(run, n_cases):
    cases, terms, impl_fail = [], [], []
    # vectorised: B dyadic maps x B particle sets through one CustomTransferMap / one beam; each entry is a case of the same exact checker
    for _ in range(max(3, n_cases // 16)):
        B, n = run.rng.choice([2, 3]), run.rng.choice([3, 4, 5])
        pss = [[[float(Fraction(v, 2)) for v in p[:6]] + [1.0] for p in gen_int_particles(run.rng, n, amp=run.rng.choice([2, 5]))] for _ in range(B)]
        ms = [gen_dyadic_map(run.rng) for _ in range(B)]
        E = run.rng.choice([5e6, 1e8])
        qs = [[run.rng.choice([0.0, 1.0, 2.0]) for _ in range(n)] for _ in range(B)]
        run.count("qmap_vectorised_batches")
        try:
            obs_list = observe_q_vec(ms, pss, E, qs)
        except ShapeMismatch as ex:
            run.vec_q_fail = {"kind": "dyadic_map_vectorised", "maps": ms, "particles": pss, "E": E, "charges": qs, "shapes": json.loads(str(ex)),
                              "differs": ["shape: mu must be (B, 7), cov (B, 7, 7), particles (B, n, 7)"]}
            continue
        for b, obs in enumerate(obs_list):
            emu, ecov = exact_moments(obs["part_rows"])
            if [Fraction(x) for x in obs["mu_part"]] != emu or [[Fraction(x) for x in r] for r in obs["cov_part"]] != ecov:
                run.count("qmap_discarded_inexact")
                continue
            run.add_case(["qmap_vec", ms[b], pss[b], b], True)
            run.count("qmap_vectorised_entries")
            if q_oracle(obs):
                impl_fail.append(len(cases))
                if not hasattr(run, "vec_q_fail"):
                    run.vec_q_fail = {"kind": "dyadic_map_vectorised", "maps": ms, "particles": pss, "E": E, "charges": qs, "entry": b,
                                      "observed_entry": {k: v for k, v in obs.items() if k != "part_rows"}, "differs": q_oracle(obs)}
            cases.append((ms[b], pss[b], E, qs[b], obs))
            terms.append(f"mkq {q_m7(ms[b])} {coq_list([q_v7(p) for p in pss[b]])} {q_v7(obs['mu_in'])} {q_m7(obs['cov_in'])} "
                         f"{q_v7(obs['mu_part'])} {q_m7(obs['cov_part'])} {q_v7(obs['mu_param'])} {q_m7(obs['cov_param'])}")
    for _ in range(n_cases):
        n = run.rng.choice([3, 4, 5, 6, 7, 8])
        k = run.rng.choice([0, 1, 3, 6])
        ips = gen_int_particles(run.rng, n, amp=run.rng.choice([2, 5, 9]))
        ps = [[float(Fraction(v, 2 ** k)) for v in p[:6]] + [1.0] for p in ips]
        m = gen_dyadic_map(run.rng)
        E = run.rng.choice([5e6, 1e8])
        q = [run.rng.choice([0.0, 1.0, 2.0]) for _ in range(n)]
        obs = observe_q(m, ps, E, q)
        # the float computation must have been exact (it is, by construction of the inputs); otherwise skip, never alarm
        emu, ecov = exact_moments(obs["part_rows"])
        if [Fraction(x) for x in obs["mu_part"]] != emu or [[Fraction(x) for x in r] for r in obs["cov_part"]] != ecov:
            run.count("qmap_discarded_inexact")
            continue
        run.add_case(["qmap", m, ps], True)
        run.count("qmap_particles_%d" % n)
        if any(m[i][6] != 0 for i in range(6)):
            run.count("qmap_affine")
        if q_oracle(obs):
            impl_fail.append(len(cases))
        cases.append((m, ps, E, q, obs))
        terms.append(f"mkq {q_m7(m)} {coq_list([q_v7(p) for p in ps])} {q_v7(obs['mu_in'])} {q_m7(obs['cov_in'])} "
                     f"{q_v7(obs['mu_part'])} {q_m7(obs['cov_part'])} {q_v7(obs['mu_param'])} {q_m7(obs['cov_param'])}")
    if cases:
        run.sample({"kind": "qmap", "map": cases[0][0], "particles": cases[0][1]})
    failing = common.run_shards(PID, "qmaps", PRE_EXACT, terms, "c06q_check")
    run.cov["traces_validated_against_impl"] += len(cases)
    return cases, failing, impl_fail



# ---------------------------------------------------------------- weighted layer: survival probabilities other than 1
PRE_W = """From Coq Require Import List Bool ZArith QArith String.
From Cheetah Require Import Base.Mat Beam.Moments Beam.WMoments Beam.MomQ Beam.MomWQ.
Import ListNotations. Open Scope string_scope. Open Scope Z_scope."""
W_TOL = Fraction(1, 2 ** 30)


def observe_w(m, ps, ws, E, q):
    import cheetah
    el = cheetah.CustomTransferMap(torch.tensor(m, dtype=DT), length=torch.tensor(0.5, dtype=DT), name="ctm")
    pb = cheetah.ParticleBeam(torch.tensor(ps, dtype=DT), torch.tensor(float(E), dtype=DT),
                              particle_charges=torch.tensor(q, dtype=DT), survival_probabilities=torch.tensor(ws, dtype=DT), dtype=DT)
    mu_in, cov_in = moments_impl(pb)
    qb = cheetah.ParameterBeam(mu_in, cov_in, pb.energy, total_charge=pb.total_charge, dtype=DT)
    op, oq = el.track(pb), el.track(qb)
    mu_p, cov_p = moments_impl(op)
    return {"mu_in": mu_in.tolist(), "cov_in": cov_in.tolist(), "mu_part": mu_p.tolist(), "cov_part": cov_p.tolist(),
            "mu_param": oq._mu.tolist(), "cov_param": oq._cov.tolist(), "E": [float(op.energy), float(oq.energy)],
            "Q": [float(op.total_charge), float(oq.total_charge)], "surv_out": op.survival_probabilities.tolist()}


def w_oracle(obs, ws):
    """the property on the implementation alone: weighted moments of the tracked particles vs the tracked ParameterBeam"""
    bad = []
    tol = float(W_TOL)
    for a, b in zip(obs["mu_part"], obs["mu_param"]):
        if not abs(a - b) <= tol * (1 + abs(a) + abs(b)):
            bad.append("mean")
            break
    if any(not abs(a - b) <= tol * (1 + abs(a) + abs(b)) for ra, rb in zip(obs["cov_part"], obs["cov_param"]) for a, b in zip(ra, rb)):
        bad.append("cov")
    if obs["E"][0] != obs["E"][1]:
        bad.append("energy")
    if obs["Q"][0] != obs["Q"][1]:
        bad.append("total_charge")
    if obs["surv_out"] != ws:
        bad.append("survival_changed_by_a_linear_element")
    return bad


def exact_wmaps(run, n_cases):
    cases, terms, impl_fail = [], [], []
    for _ in range(n_cases):
        n = run.rng.choice([3, 4, 5, 6, 7, 8])
        k = run.rng.choice([0, 1, 3])
        ips = gen_int_particles(run.rng, n, amp=run.rng.choice([2, 5, 9]))
        ps = [[float(Fraction(v, 2 ** k)) for v in p[:6]] + [1.0] for p in ips]
        m = gen_dyadic_map(run.rng)
        E = run.rng.choice([5e6, 1e8])
        q = [run.rng.choice([0.0, 1.0, 2.0]) for _ in range(n)]
        style = run.rng.choice(["dyadic", "dyadic", "lost_some", "uniform_half", "random"])
        if style == "dyadic":
            ws = [run.rng.choice([1.0, 0.5, 0.25, 0.75, 0.125]) for _ in range(n)]
        elif style == "lost_some":
            ws = [run.rng.choice([1.0, 1.0, 0.0]) for _ in range(n)]
        elif style == "uniform_half":
            ws = [0.5] * n
        else:
            ws = [round(run.rng.random(), 6) for _ in range(n)]
        if sum(1 for w in ws if w > 0) < 2:
            ws[0], ws[1] = 1.0, 0.5      # correction factor 0 (a single surviving particle): the code divides by zero, unspecified
        obs = observe_w(m, ps, ws, E, q)
        flat = obs["mu_part"] + [x for r in obs["cov_part"] for x in r] + obs["mu_param"] + [x for r in obs["cov_param"] for x in r]
        if not all(math.isfinite(x) for x in flat):
            run.count("wmap_nonfinite_" + style)
            impl_fail.append(len(cases))
        run.add_case(["wmap", m, ps, ws], True)
        run.count("wmap_" + style)
        if w_oracle(obs, ws):
            if len(cases) not in impl_fail:
                impl_fail.append(len(cases))
        cases.append((m, ps, ws, E, q, obs))
        if all(math.isfinite(x) for x in flat):
            terms.append(f"mkw {q_m7(m)} {coq_list([q_v7(p) for p in ps])} {coq_list([qz(Fraction(float(w))) for w in ws])} {qz(W_TOL)} "
                         f"{q_v7(obs['mu_in'])} {q_m7(obs['cov_in'])} {q_v7(obs['mu_part'])} {q_m7(obs['cov_part'])} "
                         f"{q_v7(obs['mu_param'])} {q_m7(obs['cov_param'])}")
        else:
            terms.append(None)
    if cases:
        run.sample({"kind": "wmap", "map": cases[0][0], "particles": cases[0][1], "survival": cases[0][2]})
    idx = [i for i, t in enumerate(terms) if t is not None]
    failing = common.run_shards(PID, "wmaps", PRE_W, [terms[i] for i in idx], "c06w_check")
    failing = [idx[i] for i in failing]
    run.cov["traces_validated_against_impl"] += len(idx)
    return cases, failing, impl_fail


# ---------------------------------------------------------------- real layer: every linear class, random segments (float64)
def gen_real_beam(rng, n=None, energy=None, weighted=None):
    """3-8 particles, correlated / off-axis / chirped; survival probabilities 1 (two thirds of the beams) or in (0, 1]"""
    n = n or rng.choice([3, 4, 5, 6, 7, 8])
    b = realgen.gen_particle_beam(rng, n=n, energy=energy, scale=rng.choice([1e-4, 1e-3]), delta_scale=rng.choice([1e-4, 1e-3, 1e-2]))
    b["survival"] = [1.0] * n
    if weighted is None:
        weighted = rng.random() < 0.34
    if weighted:
        b["survival"] = [rng.choice([1.0, 0.5, 0.25, round(0.05 + 0.95 * rng.random(), 6)]) for _ in range(n)]
    b["charges"] = [rng.choice([1e-12, 2e-12, 0.0]) for _ in range(n)]
    off = [rng.choice([0.0, 0.0, 1e-3, -2e-3]) for _ in range(6)]
    chirp = rng.choice([0.0, 0.0, 5.0, -20.0])
    cxp = rng.choice([0.0, 0.5, -2.0])
    for p in b["particles"]:
        p[5] = round(p[5] + chirp * p[4], 9)
        p[1] = round(p[1] + cxp * p[0], 9)
        p[3] = round(p[3] - cxp * p[2], 9)
        for i in range(6):
            p[i] = round(p[i] + off[i], 9)
    return b


def is_cavity(spec):
    return spec["cls"] == "Cavity"


def real_spec(rng, cls):
    spec = realgen.gen_element(rng, cls=cls, name="e", method="cheetah")
    if cls == "Aperture":
        spec["kw"]["is_active"] = False      # an active aperture changes survival: not a linear action on the particles
    if cls == "Screen":
        spec["kw"]["is_blocking"] = False
    return spec


def compare_moments(op, oq, transverse_only=False):
    """tracked particles vs tracked ParameterBeam: list of (what, rel. deviation) beyond tolerance.  Scale of a second
    moment cov_ij: sqrt(cov_ii cov_jj) (+ product of the mean magnitudes' round-off); of a mean: |mean| + sigma."""
    mu_p, cov_p = moments_impl(op)
    mu_q, cov_q = oq._mu, oq._cov
    diffs = []
    if not bool(torch.isfinite(mu_p).all() and torch.isfinite(cov_p).all() and torch.isfinite(mu_q).all() and torch.isfinite(cov_q).all()):
        return [("nonfinite", float("inf"))]
    idx = range(4) if transverse_only else range(6)
    sig = [math.sqrt(max(float(cov_p[i, i]), float(cov_q[i, i]), 0.0)) for i in range(7)]
    absmean = [float(op.particles[..., i].abs().max()) for i in range(7)]
    for i in idx:
        scale = absmean[i] + sig[i] + 1e-300
        d = abs(float(mu_p[i] - mu_q[i])) / scale
        if d > 1e-9:
            diffs.append((f"mu[{i}]", d))
        for j in idx:
            if j < i:
                continue
            scale = sig[i] * sig[j] + 1e-7 * (absmean[i] * absmean[j]) + 1e-300
            d = abs(float(cov_p[i, j] - cov_q[i, j])) / scale
            if d > 1e-9:
                diffs.append((f"cov[{i},{j}]", d))
    if float(op.energy) != float(oq.energy):
        diffs.append(("energy", abs(float(op.energy) - float(oq.energy))))
    if float(op.total_charge) != float(oq.total_charge):
        diffs.append(("total_charge", abs(float(op.total_charge) - float(oq.total_charge))))
    return diffs


def sym_psd(oq):
    """outgoing ParameterBeam covariance symmetric and PSD (on the correlation-normalised 6x6 block)"""
    S = oq._cov[:6, :6]
    out = []
    d = torch.sqrt(torch.clamp_min(torch.diag(S), 0.0))
    dd = d[:, None] * d[None, :]
    if bool(((S - S.T).abs() > 1e-12 * (dd + torch.maximum(S.abs(), S.T.abs())) + 1e-300).any()):
        out.append(("cov:asymmetric", float((S - S.T).abs().max())))
    if bool((torch.diag(S) < 0).any()):
        neg = [int(k) for k in torch.nonzero(torch.diag(S) < 0).flatten().tolist()]
        out.append(("cov:negative_variance" + ("_tau_only" if neg == [4] else ""), float(torch.diag(S).min())))
    # |cov_ij| <= sigma_i sigma_j (all 2x2 minors) and smallest eigenvalue of the normalised matrix
    if bool((S.abs() > dd * (1 + 1e-9) + 1e-300).any()):
        out.append(("cov:not_psd_minor", float((S.abs() - dd).max())))
    nz = d > 0
    if bool(nz.any()):
        Sn = (S / torch.where(dd > 0, dd, torch.ones_like(dd)))[nz][:, nz]
        ev = torch.linalg.eigvalsh((Sn + Sn.T) / 2)
        if float(ev.min()) < -1e-9 * max(1.0, float(ev.max())):
            out.append(("cov:not_psd_eig", float(ev.min())))
    return out


def run_real_case(spec, beam):
    """returns (diffs, psd_diffs, info) for element/segment spec and particle-beam spec"""
    el = realgen.build(spec)
    pb = realgen.build_beam(beam)
    qb = as_parameter_beam(pb)
    op, oq = el.track(pb), el.track(qb)
    nan_p = not bool(torch.isfinite(op.particles).all())
    nan_q = not bool(torch.isfinite(oq._mu).all() and torch.isfinite(oq._cov).all())
    if nan_p and nan_q:
        # both beam types come out non-finite (e.g. kx2 = k1 + hx^2 = 0 exactly: sin(0)/0): unspecified region, not compared
        return "unspecified", [], (op, oq)
    active_cav = spec["cls"] == "Cavity" and spec["kw"].get("voltage") != 0.0
    diffs = compare_moments(op, oq, transverse_only=active_cav)
    return diffs, sym_psd(oq), (op, oq)


def classify(spec, diffs, psd):
    """-> (known_whats, new_diffs).  F1/F2 signature: a lone Cavity; voltage == 0: observables mu[4] and cov[4,*]/cov[*,4];
    any voltage: PSD failure of the outgoing ParameterBeam covariance (overwritten cov[4,4], cov[4,5])."""
    known, new = [], []
    for what, d in diffs:
        if spec["cls"] == "Cavity" and spec["kw"].get("voltage") == 0.0 and (what == "mu[4]" or (what.startswith("cov[") and "4" in what[4:-1].split(","))):
            known.append(F1_WHAT if what == "mu[4]" else F2_WHAT)
        else:
            new.append((what, d))
    for what, d in psd:
        if spec["cls"] == "Cavity" and (what.startswith("cov:not_psd") or what == "cov:negative_variance_tau_only"):
            known.append(F2_WHAT)      # the overwritten cov[4,4] (F2) can even be negative: the same defect, only the tau variance
        else:
            new.append((what, d))
    return known, new


def has_cls(spec, names):
    if spec["cls"] == "Segment":
        return any(has_cls(c, names) for c in spec["es"])
    return spec["cls"] in names


def gen_linear_lattice(rng, n_max, depth):
    lat = realgen.gen_lattice(rng, n_max=n_max, depth=depth, allow=[c for c in LINEAR_CLASSES], method="cheetah")

    def fix(s):
        if s["cls"] == "Segment":
            for c in s["es"]:
                fix(c)
        elif s["cls"] == "Aperture":
            s["kw"]["is_active"] = False
        elif s["cls"] == "Screen":
            s["kw"]["is_blocking"] = False
        elif s["cls"] == "Cavity":
            s["kw"]["voltage"] = 0.0     # an active cavity is not linear; downstream dispersion would mix its longitudinal moments in
    fix(lat)
    return lat


# ---------------------------------------------------------------- float32, strongly off-axis beams (numerical form of the covariance update)
def offaxis32_stage(run, n_cases):
    """A small beam far off axis (offset / size ~ 1e3) through the linear classes in float32: the tracked ParameterBeam covariance must be the
    float32 image of the float64 one (the congruence tm cov tm^T has a rounding error of order eps * cov; a mathematically equal update through
    raw second moments has eps * |mu|^2 and loses every digit here), symmetric and positive semi-definite."""
    import cheetah
    bad = []
    classes = ["Drift", "Quadrupole", "Dipole", "Solenoid", "HorizontalCorrector", "VerticalCorrector"]
    for i in range(n_cases):
        cls = classes[i % len(classes)]
        spec = realgen.gen_element(run.rng, cls=cls, name="e", method="cheetah")
        if "length" in spec["kw"] and spec["kw"]["length"] == 0.0:
            spec["kw"]["length"] = 0.5
        sig = [run.rng.choice([2e-6, 5e-6]) for _ in range(4)] + [run.rng.choice([1e-5, 3e-5]), run.rng.choice([1e-4, 3e-4])]
        mu = [run.rng.choice([5e-3, -4e-3]), run.rng.choice([2e-3, -1e-3]), run.rng.choice([-5e-3, 3e-3]), run.rng.choice([1e-3, -2e-3]), 0.0, 0.0, 1.0]
        cov = [[0.0] * 7 for _ in range(7)]
        for k in range(6):
            cov[k][k] = sig[k] ** 2
        c01 = 0.5 * sig[0] * sig[1]
        cov[0][1] = cov[1][0] = c01
        beam = {"type": "parameter", "mu": mu, "cov": cov, "energy": 1e8, "total_charge": 1e-12}
        try:
            o64 = realgen.build(spec, torch.float64).track(realgen.build_beam(beam, torch.float64))
            o32 = realgen.build(spec, torch.float32).track(realgen.build_beam(beam, torch.float32))
        except Exception:
            run.count("offaxis32_exception_" + cls)
            continue
        run.add_case(["offaxis32", spec, beam], True)
        run.count("offaxis32_" + cls)
        S64, S32 = o64._cov[:6, :6], o32._cov[:6, :6].double()
        if not bool(torch.isfinite(S64).all() and torch.isfinite(o64._mu).all()):
            run.count("offaxis32_unspecified_nan_in_float64_" + cls)      # e.g. kx2 = k1 + hx^2 = 0 exactly: sin(0)/0, unspecified region
            continue
        d = torch.sqrt(torch.clamp_min(torch.diag(S64), 0.0))
        dd = d[:, None] * d[None, :] + 1e-300
        dev = ((S32 - S64).abs() / dd)
        asym = ((S32 - S32.T).abs() / dd)
        if not bool(torch.isfinite(S32).all()) or float(dev.max()) > 2e-3 or float(asym.max()) > 2e-3:
            k = int(dev.argmax())
            bad.append({"kind": "offaxis_float32", "spec": spec, "beam": beam, "entry": [k // 6, k % 6], "max_rel_dev_of_cov": float(dev.max()),
                        "max_asymmetry": float(asym.max()), "float32": float(S32.reshape(-1)[k]), "float64": float(S64.reshape(-1)[k])})
    return bad


def real_layer(run, n_per_class, n_seg):
    bad = []
    for cls in LINEAR_CLASSES:
        for i in range(n_per_class):
            spec = real_spec(run.rng, cls)
            beam = gen_real_beam(run.rng)
            if cls == "Cavity" and spec["kw"]["voltage"] != 0.0:
                if beam["energy"] + spec["kw"]["voltage"] * math.cos(math.radians(spec["kw"]["phase"])) <= 0:
                    continue
            try:
                diffs, psd, _ = run_real_case(spec, beam)
            except Exception as ex:  # noqa
                run.count("real_exception_" + cls)
                continue
            if diffs == "unspecified":
                run.count("real_unspecified_nan_both_" + cls)
                continue
            run.add_case(["real", spec, beam], True)
            run.count("real_" + cls + ("_active" if cls == "Cavity" and spec["kw"]["voltage"] != 0.0 else ""))
            known, new = classify(spec, diffs, psd)
            for w in known:
                run.known(w)
            if new:
                bad.append({"kind": "real_element", "spec": spec, "beam": beam, "diffs": new})
    for i in range(n_seg):
        lat = gen_linear_lattice(run.rng, 6, 2)
        beam = gen_real_beam(run.rng)
        try:
            diffs, psd, _ = run_real_case(lat, beam)
        except Exception:
            run.count("real_segment_exception")
            continue
        if diffs == "unspecified":
            run.count("real_unspecified_nan_both_segment")
            continue
        run.add_case(["real_seg", lat, beam], True)
        run.count("real_segment")
        if has_cls(lat, ["Cavity"]):
            run.count("real_segment_with_off_cavity")
        if diffs or psd:
            bad.append({"kind": "real_segment", "spec": lat, "beam": beam, "diffs": diffs + psd})
    return bad


# ---------------------------------------------------------------- vectorised beams / elements (round 6, C06-8)
# The property is a statement about every entry of the vector dimensions: batch on the beam (B beams), on the element parameters,
# on both (equal shapes (B,)x(B,), broadcastable shapes (A,1)x(B,)), on the reference energy; and an un-vectorised beam through a
# Segment whose first element is a Cavity with a voltage scan (the cavity vectorises mean, covariance and energy for everything behind
# it).  Oracle per entry: the outgoing ParameterBeam has mu of shape S+(7,), cov of shape S+(7,7) with S the broadcast of all batch
# shapes, and entry [idx] of it has the moments of the tracked particles of entry [idx] (same comparison as the scalar layer),
# energy and charge included.
VEC_PARAMS = {"Drift": ["length"], "Quadrupole": ["length", "k1", "tilt", "misalignment"], "Dipole": ["length", "angle", "k1", "dipole_e1", "tilt"],
              "RBend": ["length", "angle", "k1", "rbend_e2", "tilt"], "Solenoid": ["length", "k", "misalignment"],
              "HorizontalCorrector": ["length", "angle"], "VerticalCorrector": ["length", "angle"], "Undulator": ["length"],
              "Cavity": ["length"], "CustomTransferMap": ["predefined_transfer_map"]}
NO_DISPERSION = ["Drift", "Quadrupole", "Solenoid", "HorizontalCorrector", "VerticalCorrector", "Marker", "Undulator"]


def gen_vector_spec(rng, cls, B):
    """(vector spec, [scalar spec of entry b]) : B scalar specs of one class; a random non-empty subset of its tensor parameters is vectorised"""
    base = [real_spec(rng, cls) for _ in range(B)]
    if cls == "Cavity":
        for sp in base:
            sp["kw"]["voltage"] = 0.0
    keys = [k for k in VEC_PARAMS.get(cls, []) if k in base[0]["kw"]]
    K = [k for k in keys if rng.random() < 0.6] or keys[:1]
    vec = copy.deepcopy(base[0])
    entries = []
    for b in range(B):
        e = copy.deepcopy(base[0])
        for k in K:
            e["kw"][k] = copy.deepcopy(base[b]["kw"][k])
        entries.append(e)
    for k in K:
        vec["kw"][k] = [copy.deepcopy(base[b]["kw"][k]) for b in range(B)]
    if cls == "CustomTransferMap" and K:
        vec["kw"]["length"] = [base[0]["kw"]["length"]] * B
    return vec, entries, K


def gen_vector_case(rng, cls=None, segment=False):
    mode = rng.choice(["beam", "element", "both", "both", "outer", "energy", "both_energy"])
    B = rng.choice([2, 3])
    A = rng.choice([2, 3]) if mode == "outer" else None
    n = rng.choice([3, 4, 5, 6])
    E = rng.choice(realgen.ENERGIES)
    nb = {"beam": B, "element": 1, "both": B, "outer": A, "energy": 1, "both_energy": B}[mode]
    beams = [gen_real_beam(rng, n=n, energy=E) for _ in range(nb)]
    energies = None
    if mode in ("energy", "both_energy"):
        energies = [E * f for f in [1.0, 1.7, 0.6][:B]]
    if segment:
        Bc = B
        volts = [rng.choice([2e6, 5e6, 9e6, 1.5e7]) for _ in range(Bc)]
        cav = {"cls": "Cavity", "name": "cav", "kw": dict(length=rng.choice([0.5, 1.0]), voltage=volts, phase=rng.choice([0.0, 30.0, -20.0]),
                                                         frequency=1.3e9)}
        es = [cav]
        for q in range(rng.randrange(1, 4)):
            sp = real_spec(rng, rng.choice(NO_DISPERSION))
            sp["name"] = f"e{q}"
            es.append(sp)
        spec = {"cls": "Segment", "name": "seg", "es": es}
        mode = rng.choice(["element", "both"])      # un-vectorised beam (the scan vectorises it) or a batch of beams of the scan's shape
        beams = beams[:1] if mode == "element" else [gen_real_beam(rng, n=n, energy=E) for _ in range(Bc)]
        return {"kind": "vector", "mode": mode, "spec": spec, "beams": beams, "energies": None, "transverse_only": True, "vec_keys": ["voltage"]}
    cls = cls or rng.choice(LINEAR_CLASSES)
    if mode in ("beam", "energy") or cls not in VEC_PARAMS:
        spec, K = real_spec(rng, cls), []
        if cls == "Cavity":
            spec["kw"]["voltage"] = 0.0
        if mode in ("element", "both", "outer", "both_energy") and cls not in VEC_PARAMS:
            mode = "beam"
            beams = [gen_real_beam(rng, n=n, energy=E) for _ in range(B)]
    else:
        spec, _, K = gen_vector_spec(rng, cls, B)
    return {"kind": "vector", "mode": mode, "spec": spec, "beams": beams, "energies": energies, "transverse_only": False, "vec_keys": K}


def build_vector_beam(case):
    """ParticleBeam whose batch shape is () (one beam), (B,) or (A, 1) (mode 'outer'); energies () / (B,)"""
    import cheetah
    bs = case["beams"]
    P = torch.tensor([b["particles"] for b in bs], dtype=DT)
    q = torch.tensor([b["charges"] for b in bs], dtype=DT)
    w = torch.tensor([b["survival"] for b in bs], dtype=DT)
    if len(bs) == 1:
        P, q, w = P[0], q[0], w[0]
    elif case["mode"] == "outer":
        P, q, w = P.unsqueeze(1), q.unsqueeze(1), w.unsqueeze(1)
    E = torch.tensor(case["energies"] if case["energies"] else bs[0]["energy"], dtype=DT)
    return cheetah.ParticleBeam(P, E, particle_charges=q, survival_probabilities=w, dtype=DT)


def _batch_shape_of_spec(spec):
    shp = ()
    for c in (spec["es"] if spec["cls"] == "Segment" else [spec]):
        for k, v in c["kw"].items():
            if k in realgen.TENSOR_KW and isinstance(v, list):
                t = torch.tensor(v)
                d = {"misalignment": 1, "predefined_transfer_map": 2, "pixel_size": 1}.get(k, 0)
                shp = torch.broadcast_shapes(shp, tuple(t.shape[:t.dim() - d]))
    return tuple(shp)


def run_vector_case(case):
    """-> (status, failures, info): failures = [{"entry": idx, "diffs": [...]}] or a shape failure"""
    import itertools
    import cheetah
    el = realgen.build(case["spec"])
    pb = build_vector_beam(case)
    qb = as_parameter_beam(pb)
    op, oq = el.track(pb), el.track(qb)
    n = pb.particles.shape[-2]
    S = tuple(torch.broadcast_shapes(tuple(pb.particles.shape[:-2]), tuple(pb.energy.shape), _batch_shape_of_spec(case["spec"])))
    shapes = {"expected_batch_shape": list(S), "ParameterBeam.mu": list(oq._mu.shape), "ParameterBeam.cov": list(oq._cov.shape),
              "ParticleBeam.particles": list(op.particles.shape), "energy": [list(oq.energy.shape), list(op.energy.shape)]}
    fails = []

    def fits(t, tail):
        # broadcastable to S + tail without adding batch dimensions
        sh = tuple(t.shape)
        if len(sh) > len(S) + len(tail):
            return False
        try:
            return tuple(torch.broadcast_shapes(sh, S + tail)) == S + tail
        except RuntimeError:
            return False
    # a vectorised input makes the corresponding output vectorised: mean and covariance carry exactly the batch shape S
    # (an element that hands the beam on untouched, or whose map does not depend on a vectorised energy, may leave mean / covariance
    # un-vectorised: then they must still broadcast to S without a new dimension, and both beam types must agree on the batch shape)
    if not (fits(oq._mu, (7,)) and fits(oq._cov, (7, 7))) or tuple(oq._mu.shape[:-1]) != tuple(oq._cov.shape[:-2]):
        fails.append({"what": "shape of the outgoing ParameterBeam mean / covariance is not batch_shape + (7,) / (7, 7)", **shapes})
    if not fits(op.particles, (n, 7)):
        fails.append({"what": "shape of the outgoing ParticleBeam particles is not batch_shape + (n, 7)", **shapes})
    if not fails and tuple(oq._mu.shape[:-1]) != tuple(op.particles.shape[:-2]):
        fails.append({"what": "the tracked ParameterBeam and the tracked ParticleBeam carry different batch shapes", **shapes})
    if not (fits(oq.energy, ()) and fits(op.energy, ()) and fits(oq.total_charge, ()) and fits(op.total_charge, ())):
        fails.append({"what": "outgoing energy / total_charge do not broadcast to the batch shape", **shapes})
    if fails:
        # still name a value: entry [0...] of whatever came out, compared with the particles of the first entry, when it can be indexed
        return "fail", fails, shapes
    nonfinite = 0
    for idx in itertools.product(*[range(d) for d in S]):
        ope = cheetah.ParticleBeam(op.particles.expand(S + (n, 7))[idx], op.energy.expand(S)[idx],
                                   particle_charges=op.particle_charges.expand(S + (n,))[idx],
                                   survival_probabilities=op.survival_probabilities.expand(S + (n,))[idx], dtype=DT)
        oqe = cheetah.ParameterBeam(oq._mu.expand(S + (7,))[idx], oq._cov.expand(S + (7, 7))[idx], oq.energy.expand(S)[idx], total_charge=oq.total_charge.expand(S)[idx], dtype=DT)
        nan_p = not bool(torch.isfinite(ope.particles).all())
        nan_q = not bool(torch.isfinite(oqe._mu).all() and torch.isfinite(oqe._cov).all())
        if nan_p and nan_q:
            nonfinite += 1
            continue
        diffs = compare_moments(ope, oqe, transverse_only=case["transverse_only"])
        psd = [] if case["transverse_only"] else sym_psd(oqe)
        espec = entry_spec(case["spec"], idx[-1] if idx else 0)
        known, new = classify(espec, diffs, psd)
        if new:
            fails.append({"entry": list(idx), "diffs": new[:8], "known": known[:2]})
        elif known:
            fails.append({"entry": list(idx), "diffs": [], "known": known[:2]})
    if nonfinite == max(1, len(list(itertools.product(*[range(d) for d in S])))):
        return "unspecified", [], shapes
    return ("fail" if any(f.get("diffs") or f.get("what") for f in fails) else "ok"), fails, shapes


def entry_spec(spec, b):
    """scalar spec of batch entry b of a vectorised (non-segment) element spec; segments are returned unchanged"""
    if spec["cls"] == "Segment":
        return spec
    e = copy.deepcopy(spec)
    for k, v in spec["kw"].items():
        if k in realgen.TENSOR_KW and isinstance(v, list):
            d = {"misalignment": 1, "predefined_transfer_map": 2, "pixel_size": 1}.get(k, 0)
            t = torch.tensor(v)
            if t.dim() > d:
                e["kw"][k] = v[b]
    return e


def shrink_vector(item):
    """drop segment elements behind the scan, then reduce un-needed vectorisation, while the failure persists"""
    case = copy.deepcopy(item["case"])

    def fails(c):
        try:
            return run_vector_case(c)[0] == "fail"
        except Exception:
            return False
    if case["spec"]["cls"] == "Segment":
        k = len(case["spec"]["es"]) - 1
        while k >= 1 and len(case["spec"]["es"]) > 2:
            t = copy.deepcopy(case)
            del t["spec"]["es"][k]
            if fails(t):
                case = t
            k -= 1
    else:
        for key in list(case.get("vec_keys") or []):
            v = case["spec"]["kw"].get(key)
            others = [x for x in case["vec_keys"] if x != key]
            if isinstance(v, list) and others:
                t = copy.deepcopy(case)
                t["spec"]["kw"][key] = v[0]
                t["vec_keys"] = others
                if fails(t):
                    case = t
    try:
        st, f, shapes = run_vector_case(case)
    except Exception:
        return item
    return {"kind": "vector", "case": case, "failures": f[:4], "shapes": shapes} if st == "fail" else item


def vector_layer(run, n_per_class, n_seg):
    bad = []
    todo = [(cls, False) for cls in LINEAR_CLASSES for _ in range(n_per_class)] + [(None, True)] * n_seg
    for cls, seg in todo:
        case = gen_vector_case(run.rng, cls, seg)
        try:
            st, fails, shapes = run_vector_case(case)
        except Exception as ex:      # an exception of the implementation is an observation: vectorised tracking must not raise
            st, fails, shapes = "fail", [{"what": "exception: " + repr(ex)[:300]}], {}
        if st == "unspecified":
            run.count("vector_unspecified_nan_both")
            continue
        run.add_case(["vector", case], True)
        run.count("vector_mode_" + case["mode"])
        run.count("vector_" + ("segment_after_cavity_scan" if seg else case["spec"]["cls"]))
        for f in fails:
            for w in f.get("known", []):
                run.known(w)
        if st == "fail":
            bad.append({"kind": "vector", "case": case, "failures": [f for f in fails if f.get("diffs") or f.get("what")][:4], "shapes": shapes})
    return bad


# ---------------------------------------------------------------- cavity: the model of _track_beam vs the code (interval)
def quad_terms(L, V, phi, f, E, a, b, c):
    """float evaluation of the three second-order terms (used only to scale tolerances)"""
    me = 510998.95069
    g0 = E / me
    ig0 = 1 / g0 ** 2
    b0 = math.sqrt(1 - ig0)
    T566, T556, T555 = 1.5 * L * ig0 / b0 ** 3, 0.0, 0.0
    dE = V * math.cos(phi)
    if dE > 0:
        g1 = (E + dE) / me
        b1 = math.sqrt(1 - 1 / g1 ** 2)
        k = 2 * math.pi * f / 299792458.0
        dg = V / me
        T566 = L * (b0 ** 3 * g0 ** 3 - b1 ** 3 * g1 ** 3) / (2 * b0 * b1 ** 3 * g0 * (g0 - g1) * g1 ** 3)
        T556 = b0 * k * L * dg * g0 * (b1 ** 3 * g1 ** 3 + b0 * (g0 - g1 ** 3)) * math.sin(phi) / (b1 ** 3 * g1 ** 3 * (g0 - g1) ** 2)
        T555 = b0 ** 2 * k ** 2 * L * dg / 2.0 * (dg * (2 * g0 * g1 ** 3 * (b0 * b1 ** 3 - 1) + g0 ** 2 + 3 * g1 ** 2 - 2)
                                                  / (b1 ** 3 * g1 ** 3 * (g0 - g1) ** 3) * math.sin(phi) ** 2
                                                  - (g1 * g0 * (b1 * b0 - 1) + 1) / (b1 * g1 * (g0 - g1) ** 2) * math.cos(phi))
    return abs(T566 * a) + abs(T556 * b) + abs(T555 * c)


def cavity_goals(run, n_cases):
    """Ties Beam/MomCavity.v to Cavity._track_beam: new delta and tau of particles / of mu, the overwritten covariance entries.
    The transfer-map entries (row 4) are taken from the code (Cavity.transfer_map is C02/C03's subject)."""
    import cheetah
    goals, meta = [], []
    py_bad = []
    for i in range(n_cases):
        V = run.rng.choice([0.0, 1e6, 5e6, -1e6, 2e5])
        phase = run.rng.choice([0.0, 30.0, -20.0, 60.0, 100.0])
        L = run.rng.choice([0.5, 1.0, 2.0])
        f = run.rng.choice([1.3e9, 2.998e9])
        E = run.rng.choice([5e6, 2e7, 1e8])
        if E + V * math.cos(math.radians(phase)) <= 1e6:
            continue
        dE_ = V * math.cos(math.radians(phase))
        if 0 < dE_ < 0.02 * E:
            # tiny relative energy gain: the code's T566/T556/T555 divide by (gamma0 - gamma1)^k, k <= 3, a difference of nearly equal
            # numbers; the float64 result has no digits left that a tolerance could meaningfully bound (and `interval` cannot
            # conclude either).  Ill-conditioned region, not compared.
            run.count("cavity_model_skipped_tiny_gain")
            continue
        cav = cheetah.Cavity(length=torch.tensor(L, dtype=DT), voltage=torch.tensor(V, dtype=DT), phase=torch.tensor(phase, dtype=DT),
                             frequency=torch.tensor(f, dtype=DT), dtype=DT)
        beam = gen_real_beam(run.rng, n=run.rng.choice([3, 4]), energy=E, weighted=False)   # Beam/MomCavity.v is stated for survival 1
        for p in beam["particles"]:
            p[4] = round(p[4] * 5, 9)
        pb = realgen.build_beam(beam)
        qb = as_parameter_beam(pb)
        op, oq = cav.track(pb), cav.track(qb)
        tm = cav.transfer_map(pb.energy)
        phi = float(torch.deg2rad(torch.tensor(phase, dtype=DT)))
        args = f"{dyadic(L)} {dyadic(V)} {dyadic(phi)} {dyadic(f)} {dyadic(E)}"
        dE_pos = V * math.cos(phi) > 0
        br = "on" if dE_pos else "off"
        run.add_case(["cavity", L, V, phase, f, E, beam["particles"]], True)
        run.count("cavity_model_" + ("V0" if V == 0 else ("gain" if dE_pos else "loss")))

        # the code's float64 formulas for T566/T556/T555 cancel leading terms of order gamma^2 against each other
        # (1 - beta0*beta1^3 ~ 2/gamma^2, and then -4 gamma^2 + 4 gamma^2): condition factor ~ gamma^4 (DESIGN 2.2)
        gmax = max(E, E + V * math.cos(phi)) / 510998.95069
        rel_T = 1e-9 + (100 * 2.3e-16 * gmax ** 4 if dE_pos else 0.0)

        def add(kind, stmt_model, observed, scale, what, quad_scale=0.0):
            tol = 1e-9 * scale + rel_T * quad_scale + 1e-300
            goals.append((f"Rabs ({stmt_model} - {dyadic(observed)}) <= {dyadic(tol)}",
                          f"cav_{kind}_{br}; interval with (i_prec 90)."))
            meta.append({"L": L, "V": V, "phase": phase, "f": f, "E": E, "what": what, "observed": observed})
        r44, r45 = float(tm[4, 4]), float(tm[4, 5])
        rows = [("particle", p, o) for p, o in zip(pb.particles.tolist(), op.particles.tolist())]
        rows.append(("mu", qb._mu.tolist(), oq._mu.tolist()))
        for kind, p, o in rows[:3] + rows[-1:]:
            tau, dl = p[4], p[5]
            lin = r44 * tau + r45 * dl
            goals_scale = abs(r44 * tau) + abs(r45 * dl) + 1e-12
            add("tau", f"cav_tau_given {args} {dyadic(r44)} {dyadic(r45)} {dyadic(tau)} {dyadic(dl)}", o[4], goals_scale, kind + ".tau",
                quad_terms(L, V, phi, f, E, dl * dl, tau * dl, tau * tau))
            add("delta", f"cav_delta {dyadic(V)} {dyadic(phi)} {dyadic(f)} {dyadic(E)} {dyadic(tau)} {dyadic(dl)}", o[5],
                abs(o[5]) + abs(dl) + abs(V / E) * 1e-3, kind + ".delta")
        S = qb._cov
        s44, s45, s55 = float(S[4, 4]), float(S[4, 5]), float(S[5, 5])
        for (a, b) in ((4, 4), (4, 5), (5, 4)):
            o = float(oq._cov[a, b])
            add("quad", f"cav_quad {args} ({dyadic(s55)} ^ 2) ({dyadic(s45)} * {dyadic(s55)}) ({dyadic(s44)} ^ 2)", o,
                0.0, f"cov[{a},{b}]", quad_terms(L, V, phi, f, E, s55 ** 2, s45 * s55, s44 ** 2))
        # entries that are plain float statements: cov[5,5] kept, the rest is tm cov tm^T, energy
        ref = tm @ S @ tm.T
        mask = torch.ones(7, 7, dtype=torch.bool)
        for (a, b) in ((4, 4), (4, 5), (5, 4), (5, 5)):
            mask[a, b] = False
        sc = torch.sqrt(torch.diag(ref).abs())[:, None] * torch.sqrt(torch.diag(ref).abs())[None, :] + 1e-300
        if float(oq._cov[5, 5]) != s55 or bool((((oq._cov - ref).abs() / sc)[mask] > 1e-9).any()) \
                or float(oq.energy) != float(op.energy) or abs(float(oq.energy) - (E + V * math.cos(phi))) > 1e-9 * E:
            py_bad.append({"kind": "cavity_model_py", "L": L, "V": V, "phase": phase, "f": f, "E": E, "beam": beam})
    failing, errs = common.run_real_goals(PID, "cavity", PRE_REAL, goals, shard=10)
    run.cov["traces_validated_against_impl"] += len(goals)
    return goals, meta, failing, errs, py_bad


# ---------------------------------------------------------------- known findings
def replay_known(run):
    for f in common.load_known_findings(PID):
        if f.get("status") != "known":
            continue
        r = f["replay"]
        try:
            diffs, psd, _ = run_real_case(r["spec"], r["beam"])
            known, new = classify(r["spec"], [] if diffs == "unspecified" else diffs, psd)
        except Exception as ex:  # noqa
            known, new = [], [("exception", str(ex))]
        if known:
            run.known(f["what"])
        else:
            run.cov["known_findings_not_reproduced"].append(f["id"])


def shrink_real(item):
    """drop elements of a failing segment while it keeps failing"""
    spec = item["spec"]
    if spec["cls"] != "Segment":
        return item
    changed = True
    while changed and len(spec["es"]) > 1:
        changed = False
        for k in range(len(spec["es"])):
            s2 = copy.deepcopy(spec)
            del s2["es"][k]
            try:
                d, p, _ = run_real_case(s2, item["beam"])
            except Exception:
                continue
            if d != "unspecified" and (d or p):
                spec, changed = s2, True
                item = dict(item, spec=s2, diffs=d + p)
                break
    return item


def main(tier, replay=None):
    run = common.Run(PID, tier)
    common.setup_python_env()
    thorough = tier == "thorough"
    run.cov["rule"] = ("(exact) random integer element trees (skippable linear test maps incl. energy-dependent and affine ones, "
                       "CustomTransferMap, Marker; nested) and dyadic CustomTransferMaps x 3-8 integer/dyadic particles (correlated, off-axis, "
                       "chirped; built so that all moments are exactly representable): both beam types tracked through the real code, all 7 means "
                       "and 49 second moments compared exactly with each other and with vm_compute of the Coq model over Q/Z; "
                       "(weighted) dyadic maps x particles x survival probabilities in [0,1] (dyadic, some lost, uniform, random): cheetah's survival-weighted "
                       "getters / unbiased_weighted_covariance before and after tracking and the tracked ParameterBeam vs the exact Coq model over Q at 2^-30 (1+|a|+|b|); "
                       "(real) every linear-method class and random segments, float64, 6 means + 21 second moments at 1e-9 of their scale, "
                       "energy/charge exact, symmetric + PSD; (cavity) _track_beam model vs code via interval. Non-trivial = a non-identity map; "
                       "distinct by full content.")
    if replay:
        return do_replay(run, replay)
    proof_ok = run.proof_stage()
    # second tie: the beam statistics / Twiss getters / aperture mask are re-translated from REPO's source and proved equal to the
    # hand-written models (Gen/StatsGenEquiv.v)
    import translate_stage
    tr_stats = translate_stage.translator_obligation_stats(run)
    if tr_stats["status"] != "ok":
        run.notes.append("translator obligation (stats): " + json.dumps(translate_stage.replay_fields_stats(tr_stats))[:600])
    # ... and Cavity._track_beam (both beam types) against Beam/MomCavity.v (Gen/DiagGenEquiv.v, part "cavity")
    tr_diag = translate_stage.translator_obligation_diag(run, parts=("cavity",))
    if tr_diag["status"] != "ok":
        run.notes.append("translator obligation (cavity): " + json.dumps(translate_stage.replay_fields_diag(tr_diag))[:600])
    if not proof_ok:
        run.notes.append(run.proof_problem)
    ok_aux, log = common.coq_build("theories/Beam/MomCavityCorr.vo")
    ok_aux2, log2 = common.coq_build("theories/Beam/MomQ.vo")
    ok_aux3, log3 = common.coq_build("theories/Beam/MomWQ.vo")
    ok_aux2, log2 = ok_aux2 and ok_aux3, log2 + log3
    if not (ok_aux and ok_aux2):
        proof_ok = False
        run.proof_problem = "coq build of the correspondence checkers failed: " + (log + log2)[-1200:]
        run.notes.append(run.proof_problem)

    import time
    t0 = time.time()
    tcases, tfail, timpl = exact_trees(run, 600 if thorough else 120)
    t1 = time.time()
    qcases, qfail, qimpl = exact_qmaps(run, 400 if thorough else 80)
    wcases, wfail, wimpl = exact_wmaps(run, 300 if thorough else 60)
    t2 = time.time()
    bad_real = real_layer(run, 40 if thorough else 6, 600 if thorough else 60)
    bad_off32 = offaxis32_stage(run, 60 if thorough else 12)
    t3 = time.time()
    bad_vec = vector_layer(run, 25 if thorough else 4, 300 if thorough else 24)
    run.cov.setdefault("stage_seconds_extra", {})["vector"] = round(time.time() - t3, 1)
    t3 = time.time()
    goals, meta, cfail, cerrs, cav_py_bad = cavity_goals(run, 150 if thorough else 14)
    t4 = time.time()
    run.cov["stage_seconds"] = {"proof": round(t0 - run.t0, 1), "trees": round(t1 - t0, 1), "qmaps+wmaps": round(t2 - t1, 1),
                                "real": round(t3 - t2, 1), "cavity": round(t4 - t3, 1)}
    replay_known(run)
    run.cov["tested_only"] = ["real element classes and segments: moments of tracked particles vs tracked ParameterBeam in float64 (1e-9 of scale); "
                              "the per-class linear maps themselves are the subject of C02/C03",
                              "symmetry / PSD of the outgoing float covariance (eigvalsh on the normalised matrix)",
                              "vectorised beams / elements / energies (batch on the beam, on the element parameters, on both with shapes (B,)x(B,) and "
                              "(A,1)x(B,), on the reference energy) through every linear class, and segments behind a Cavity voltage scan (transverse "
                              "moments): per entry, float64 (1e-9 of scale), shapes of mu / cov / particles / energy included"]

    # ---- verdict
    if timpl:
        tree, ps, E, q, obs = tcases[timpl[0]]
        run.violation({"kind": "integer_tree", "tree": tree, "particles": ps, "E": E, "charges": q, "observed": obs,
                       "differs": tree_oracle(obs), "relation": "moments(track(ParticleBeam)) == track(ParameterBeam(moments))"})
    elif hasattr(run, "vec_q_fail"):
        run.violation(dict(run.vec_q_fail, relation="per entry of a vectorised CustomTransferMap x vectorised beam: "
                                                     "moments(track(ParticleBeam))[b] == track(ParameterBeam(moments))[b], exactly"))
    elif qimpl:
        m, ps, E, q, obs = qcases[qimpl[0]]
        run.violation({"kind": "dyadic_map", "map": m, "particles": ps, "E": E, "charges": q, "observed": obs, "differs": q_oracle(obs),
                       "relation": "moments(track(ParticleBeam)) == track(ParameterBeam(moments))"})
    elif wimpl:
        m, ps, ws, E, q, obs = wcases[wimpl[0]]
        run.violation({"kind": "weighted_dyadic_map", "map": m, "particles": ps, "survival": ws, "E": E, "charges": q, "observed": obs,
                       "differs": w_oracle(obs, ws) or ["non-finite moments"],
                       "relation": "survival-weighted moments(track(ParticleBeam)) == track(ParameterBeam(weighted moments))"})
    elif bad_off32:
        run.violation(dict(bad_off32[0], relation="float32 ParameterBeam tracking == float32 image of float64 tracking (covariance to 2e-3 of sigma_i sigma_j), symmetric",
                           n_failing=len(bad_off32)))
    elif bad_real:
        run.violation(dict(shrink_real(bad_real[0]), relation="moments(track(ParticleBeam)) == track(ParameterBeam(moments)), energy/charge equal, cov symmetric PSD"))
    elif bad_vec:
        run.violation(dict(shrink_vector(bad_vec[0]), n_failing=len(bad_vec),
                           relation="per entry of the vector dimensions: moments(track(ParticleBeam))[idx] == track(ParameterBeam(moments))[idx]; "
                                    "mu has shape batch+(7,), cov batch+(7,7); energy and charge per entry"))
    elif cav_py_bad:
        run.violation(dict(cav_py_bad[0], broken="Cavity._track_beam(ParameterBeam): entries outside cov[4:6,4:6] are not tm cov tm^T, cov[5,5] not kept, "
                           "or energies differ"), no_input=False)
    elif wfail:
        m, ps, ws, E, q, obs = wcases[wfail[0]]
        run.violation({"kind": "weighted_dyadic_map", "map": m, "particles": ps, "survival": ws, "E": E, "charges": q, "observed": obs,
                       "broken": "Coq model Beam/WMoments.v (MomWQ checker) disagrees with the implementation's survival-weighted statistics on this case"},
                      no_input=True)
    elif tfail or qfail:
        if tfail:
            tree, ps, E, q, obs = tcases[tfail[0]]
            rep = {"kind": "integer_tree", "tree": tree, "particles": ps, "E": E, "charges": q, "observed": obs}
        else:
            m, ps, E, q, obs = qcases[qfail[0]]
            rep = {"kind": "dyadic_map", "map": m, "particles": ps, "E": E, "charges": q, "observed": obs}
        run.violation(dict(rep, broken="Coq model Beam/Moments.v (MomQ checker) disagrees with the implementation on this case"), no_input=True)
    elif cfail:
        run.violation({"kind": "cavity_model", "broken": "Beam/MomCavity.v (model of Cavity._track_beam) disagrees with the implementation",
                       "case": meta[cfail[0]], "goal": goals[cfail[0]][0], "error": cerrs.get(cfail[0], "")[-400:]}, no_input=True)
    elif tr_diag["status"] != "ok":
        run.violation(translate_stage.replay_fields_diag(tr_diag), no_input=True)
    elif tr_stats["status"] != "ok":
        # the source no longer translates to the proved model and none of this run's oracles found a failing input
        run.violation(translate_stage.replay_fields_stats(tr_stats), no_input=True)
    elif not proof_ok:
        run.violation({"kind": "proof", "broken": run.proof_problem}, no_input=True)
    if not run.violations and hasattr(run, "first_impl_exc"):
        raise run.first_impl_exc      # reported by run_check.py as "implementation raised" (no failing input found)
    return run.finish("proof")


def do_replay(run, path):
    r = json.loads(open(path).read())
    kind = r.get("kind")
    if kind == "integer_tree":
        obs = observe_tree(r["tree"], r["particles"], r["E"], r["charges"])
        bad = tree_oracle(obs)
    elif kind == "dyadic_map":
        obs = observe_q(r["map"], r["particles"], r["E"], r["charges"])
        bad = q_oracle(obs)
    elif kind == "weighted_dyadic_map":
        obs = observe_w(r["map"], r["particles"], r["survival"], r["E"], r["charges"])
        bad = w_oracle(obs, r["survival"])
    elif kind == "dyadic_map_vectorised":
        try:
            bad = [[b] + q_oracle(o) for b, o in enumerate(observe_q_vec(r["maps"], r["particles"], r["E"], r["charges"])) if q_oracle(o)]
        except ShapeMismatch as ex:
            bad = ["shape " + str(ex)]
    elif kind == "vector":
        st, fails, shapes = run_vector_case(r["case"])
        bad = [f for f in fails if f.get("diffs") or f.get("what")] if st == "fail" else []
    elif kind in ("real_element", "real_segment"):
        diffs, psd, _ = run_real_case(r["spec"], r["beam"])
        known, bad = classify(r["spec"], [] if diffs == "unspecified" else diffs, psd)
    else:
        print("replay: nothing to re-run for kind", kind)
        return 0
    print("replay:", "property holds on this input" if not bad else f"property FAILS on this input: {bad}")
    return 1 if bad else 0
