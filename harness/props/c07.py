"""C07 -- Bmad-X tracking agrees with the linear map to first order and is an exact flow.

proof stage    : Props/C07.v (drift: sqrt_one, dz, straight line, flow, closed form, Jacobian entries; TDC at V=0;
                 quadrupole: transverse block = linear map, exact flow incl. z, num_steps independence, on-axis = drift,
                 offset round trip, R56; dipole: fringe kicks = edge matrices, body = exact motion in a uniform field (one circle of radius
                 px_norm/g, closed-form sector map, arc length), Jacobian rows x', px' at the design orbit, flow law, closed design orbit, c1 = c2)
correspondence : Drift(tracking_method="bmadx").track on 1-3 paraxial particles (|delta| <= 0.05) vs the Coq model
                 drift_bmadx_track via `interval` (x, y, tau of every particle, returned energy);
                 Quadrupole(tracking_method="bmadx").track (k1 of both signs and 0, tilt, misalignment, num_steps 1/2/5,
                 both branches of low_energy_z_correction) vs the Coq model Bmadx/QuadX.v quad_bmadx_track: all six
                 coordinates of every particle + returned energy, tactic Bmadx/QuadXTac.v (staged `interval`);
                 Dipole(tracking_method="bmadx").track (angles +-(0.02..0.6) and +-(1.6..2.6): both exit-position branches; e1/e2, gap/fint with
                 gap_exit/fint_exit differing, tilt, the four fringe_at variants, few MeV..GeV, delta up to +-0.05) vs the Coq model
                 Bmadx/BendX.v bend_bmadx_track: all six coordinates + energy, tactic Bmadx/BendXTac.v (evaluation chain, branch masks
                 chosen by the harness and proved as side conditions)
oracles (implementation alone): autograd Jacobian at the design orbit vs transfer_map (Drift, Quadrupole, Dipole),
                 track(L1);track(L2) vs track(L1+L2) (Drift, Quadrupole incl. num_steps, Dipole), straight-line drift in
                 50-digit arithmetic, TDC(V=0) vs Drift(bmadx), on-axis quadrupole = drift, momentum scaling of the quadrupole, dipole body vs an
                 independent 40-digit computation of the motion in a uniform field.
Finding F70 (bend angle < -pi: arctan2 wraps, wrong path length): the STATUS of F70 selects the transcription that is compared with the code
(known -> bend_bmadx_track, KNOWN-FINDING line / stale-status note; fixed -> bend_bmadx_track_fixed, angles +-(3.3..5.6) exercised, stored input = regression test).  Known NaN configurations (finding F8 of C09: Bmad-X Dipole angle=0, Quadrupole/Dipole length=0) are not generated.
"""
import json
import math
from decimal import Decimal, getcontext

import torch

import common
from common import dyadic

PID = "C07"
common.AXIOM_WHITELIST.add("Axioms")   # header line of back-to-back `Print Assumptions` blocks (common.parse_assumptions reads it as a name)
getcontext().prec = 50
PRE = """From Coq Require Import Reals Lra.
From Interval Require Import Tactic.
From Cheetah Require Import Bmadx.Coords Bmadx.DriftX.
Open Scope R_scope."""
TAC = ("unfold drift_bmadx_track, drift_bmadx_energy, to_cheetah, driftx, to_bmad; simpl; "
       "unfold bc_tau, bc_delta, bc_beta, bc_energy, bc_p, bc_refE, dr_z, dr_dz, dr_x, dr_y, dr_Pl, dr_Pxy2, dr_Px, dr_P, sqrt_one, "
       "cb_z, cb_pz, cb_beta, cb_p, cb_energy, cb_p0c, Rsqr; interval with (i_prec 90).")
PRE_Q = """From Coq Require Import Reals Lra.
From Interval Require Import Tactic.
From Cheetah Require Import Bmadx.Coords Bmadx.DriftX Bmadx.Tdc Bmadx.QuadX Bmadx.QuadXProofs Bmadx.QuadXTac.
Open Scope R_scope."""
REL = 2.0 ** -40
REL_Q = 2.0 ** -36
T64 = torch.float64


def tt(x):
    return torch.tensor(x, dtype=T64)


def m_eV():
    from cheetah.particles import particle_beam as pb
    return float(pb.electron_mass_eV)


def beam(parts, E0):
    import cheetah
    return cheetah.ParticleBeam(tt(parts), tt(E0), dtype=T64)


def gen_particle(rng, small=1.0):
    return [rng.uniform(-2e-3, 2e-3) * small, rng.uniform(-2e-3, 2e-3) * small, rng.uniform(-2e-3, 2e-3) * small,
            rng.uniform(-2e-3, 2e-3) * small, rng.uniform(-1e-3, 1e-3) * small, rng.choice([0.0, rng.uniform(-0.05, 0.05)]) * small, 1.0]


def gen_energy(rng):
    return round(10 ** rng.uniform(6.2, 9.7), -3)


# ------------------------------------------------------------------------------------------------ elements
def make(spec, method="bmadx", **over):
    import cheetah
    kw = dict(spec["kw"])
    kw.update(over)
    cls = getattr(cheetah, spec["cls"])
    args = {}
    for k, v in kw.items():
        args[k] = tt(v) if isinstance(v, (float, list)) else v
    if spec["cls"] != "TransverseDeflectingCavity" or True:
        args["tracking_method"] = method
    return cls(dtype=T64, **args)


def gen_spec(rng, cls):
    L = round(rng.uniform(0.05, 1.5), 3)
    if cls == "Drift":
        return {"cls": "Drift", "kw": {"length": L}}
    if cls == "Quadrupole":
        k1 = rng.choice([0.0, round(rng.uniform(-12, 12), 3), round(rng.uniform(-1, 1), 3)])
        return {"cls": "Quadrupole", "kw": {"length": L, "k1": k1, "tilt": rng.choice([0.0, 0.0, round(rng.uniform(-0.8, 0.8), 3), math.pi / 4]),
                                            "num_steps": rng.choice([1, 1, 2, 5])}}
    if cls == "Dipole":
        ang = round(rng.choice([-1, 1]) * rng.uniform(0.02, 0.6), 3)       # angle = 0 -> NaN (F8, owned by C09): not generated
        if rng.random() < 0.3:      # bends of 90 degrees and more take the other exit-position branch (c2) of the Bmad-X body
            ang = round(rng.choice([-1, 1]) * rng.uniform(1.6, 2.6), 3)
        if F70_FIXED and rng.random() < 0.2:      # after the repair of F70 bends beyond +-pi are in scope
            ang = round(rng.choice([-1, -1, 1]) * rng.uniform(3.3, 5.6), 3)
        g = round(rng.uniform(0.0, 0.05), 3)
        fi = rng.choice([0.0, 0.5, round(rng.uniform(0, 0.7), 2)])
        kw = {"length": L, "angle": ang, "dipole_e1": rng.choice([0.0, round(rng.uniform(-0.3, 0.3), 3)]),
              "dipole_e2": rng.choice([0.0, round(rng.uniform(-0.3, 0.3), 3)]),
              "tilt": rng.choice([0.0, 0.0, round(rng.uniform(-0.8, 0.8), 3)]),
              "gap": g, "gap_exit": g, "fringe_integral": fi, "fringe_integral_exit": fi}
        # round 8 (seeded change C07-7): an exit fringe integral of its own in 4 cases of 10, with a sizeable gap so that the exit face
        # really depends on it (gap_exit stays = gap: the linear exit map reads `gap`, the Bmad-X fringe `gap_exit`, a separate question)
        if rng.random() < 0.4:
            kw["fringe_integral_exit"] = round(rng.uniform(0.0, 0.7), 2)
            kw["gap"] = kw["gap_exit"] = round(rng.uniform(0.02, 0.05), 3)
        return {"cls": "Dipole", "kw": kw}
    raise ValueError(cls)


# ------------------------------------------------------------------------------------------------ oracles
def jacobian_oracle(spec, E0):
    """autograd Jacobian of Bmad-X track at the design orbit vs the 6x6 block of transfer_map ('cheetah' method)"""
    import cheetah
    e_b = make(spec, "bmadx")
    e_c = make(spec, "cheetah")

    def fn(v):
        parts = torch.cat([v, torch.ones(1, dtype=T64)]).unsqueeze(0)
        return e_b.track(cheetah.ParticleBeam(parts, tt(E0), dtype=T64)).particles[0, :6]
    J = torch.autograd.functional.jacobian(fn, torch.zeros(6, dtype=T64))
    M = e_c.transfer_map(tt(E0))[:6, :6]
    if not bool(torch.isfinite(J).all()):
        return {"what": "non-finite autograd Jacobian", "J": J.tolist()}
    scale = max(1.0, float(M.abs().max()))
    dev = float((J - M).abs().max())
    if dev > 1e-9 * scale:
        idx = int((J - M).abs().argmax())
        return {"what": "Jacobian of Bmad-X track at the design orbit differs from transfer_map", "max_dev": dev, "entry": [idx // 6, idx % 6],
                "bmadx_jacobian": J.tolist(), "transfer_map": M.tolist()}
    return None


def split_spec(spec, frac):
    """two consecutive pieces of an element"""
    a, b = json.loads(json.dumps(spec)), json.loads(json.dumps(spec))
    L = spec["kw"]["length"]
    a["kw"]["length"], b["kw"]["length"] = L * frac, L - L * frac
    if spec["cls"] == "Dipole":
        ang = spec["kw"]["angle"]
        a["kw"]["angle"], b["kw"]["angle"] = ang * frac, ang - ang * frac
        a["kw"]["fringe_at"], b["kw"]["fringe_at"] = "entrance", "exit"
    return a, b


def close_parts(p, q, rtol, atol):
    d = (p - q).abs()
    lim = atol + rtol * torch.maximum(p.abs(), q.abs())
    bad = d > lim
    if bool(bad.any()) or not bool(torch.isfinite(p).all()) or not bool(torch.isfinite(q).all()):
        return float(d.max())
    return None


def flow_oracle(spec, E0, parts, frac):
    whole = make(spec).track(beam(parts, E0))
    a, b = split_spec(spec, frac)
    two = make(b).track(make(a).track(beam(parts, E0)))
    L = spec["kw"]["length"]
    dev = close_parts(whole.particles, two.particles, 1e-10, 1e-12 * max(1.0, L))
    if dev is None and abs(float(whole.energy) - float(two.energy)) > 1e-9 * E0:
        dev = abs(float(whole.energy) - float(two.energy))
    if dev is not None:
        return {"what": "track(L1);track(L2) differs from track(L1+L2)", "frac": frac, "max_dev": dev,
                "whole": whole.particles.tolist(), "two_pieces": two.particles.tolist()}
    if spec["cls"] == "Quadrupole":
        for ns in (1, 3, 7):
            o = make(spec, num_steps=ns).track(beam(parts, E0))
            dev = close_parts(whole.particles, o.particles, 1e-10, 1e-12 * max(1.0, L))
            if dev is not None:
                return {"what": f"Quadrupole Bmad-X result depends on num_steps ({spec['kw']['num_steps']} vs {ns})", "max_dev": dev,
                        "a": whole.particles.tolist(), "b": o.particles.tolist()}
    return None


def straight_line_oracle(spec, E0, parts, out):
    """x, y advance along the straight ray; tau by the time-of-flight difference (50-digit arithmetic)"""
    m = Decimal(m_eV())
    L = Decimal(spec["kw"]["length"])
    E0d = Decimal(E0)
    p0 = (E0d * E0d - m * m).sqrt()
    for i, p in enumerate(parts):
        x, px, y, py, tau, d = [Decimal(v) for v in p[:6]]
        E = E0d + d * p0
        pc = (E * E - m * m).sqrt()
        P = pc / p0
        ps = (P * P - px * px - py * py).sqrt()
        beta, beta0 = pc / E, p0 / E0d
        exp = [x + L * px / ps, px, y + L * py / ps, py, tau + L * P / ps / beta - L / beta0, d]
        for j in range(6):
            tol = 1e-12 * (abs(float(exp[j])) + float(L) * (1e-3 if j in (0, 2) else 1.0 if j == 4 else 0.0) + (1.0 if j == 5 else 0.0)) + 1e-300
            if not abs(out[i][j] - float(exp[j])) <= tol:
                return {"what": "Bmad-X drift is not straight-line motion", "particle": i, "coordinate": j, "observed": out[i][j], "expected": float(exp[j])}
    return None


def tdc_oracle(rng, E0, parts):
    import cheetah
    L = round(rng.uniform(0.05, 1.5), 3)
    kw = {"length": L, "voltage": 0.0, "phase": round(rng.uniform(0, 360), 1), "frequency": rng.choice([1e9, 2.856e9, 1.3e9]),
          "misalignment": [rng.choice([0.0, 1e-3]), rng.choice([0.0, -2e-3])], "tilt": rng.choice([0.0, 0.3])}
    tdc = cheetah.TransverseDeflectingCavity(**{k: tt(v) for k, v in kw.items()}, tracking_method="bmadx", dtype=T64)
    d = cheetah.Drift(tt(L), tracking_method="bmadx", dtype=T64)
    a, b = tdc.track(beam(parts, E0)), d.track(beam(parts, E0))
    dev = close_parts(a.particles, b.particles, 1e-12, 1e-15 * max(1.0, L))
    if dev is not None:
        return {"what": "TransverseDeflectingCavity(voltage=0) differs from Drift(bmadx)", "kw": kw, "max_dev": dev,
                "tdc": a.particles.tolist(), "drift": b.particles.tolist()}
    return None


# ------------------------------------------------------------------------------------------------ correspondence goals
def vectorised_oracle(rng, E0, parts):
    """Bmad-X tracking of an element whose strength is a vector of mixed signs (and an exact zero for the quadrupole): every
    entry must equal the Bmad-X tracking of the corresponding scalar element (a per-sample branch replaced by a whole-tensor
    branch shows up only here; the scalar cases of the other oracles cannot see it)."""
    import cheetah
    L = round(rng.uniform(0.1, 1.0), 3)
    if rng.random() < 0.6:
        ks = [round(rng.uniform(0.5, 10), 3), -round(rng.uniform(0.5, 10), 3), 0.0, round(rng.uniform(-2, 2), 3)]
        rng.shuffle(ks)
        steps = rng.choice([1, 2])
        vec = cheetah.Quadrupole(length=tt(L), k1=tt(ks), num_steps=steps, tracking_method="bmadx", dtype=T64)
        singles = [cheetah.Quadrupole(length=tt(L), k1=tt(k), num_steps=steps, tracking_method="bmadx", dtype=T64) for k in ks]
        what, vals = "Quadrupole(k1=vector)", ks
    else:
        angs = [round(rng.uniform(0.05, 0.6), 3), -round(rng.uniform(0.05, 0.6), 3), round(rng.uniform(1.6, 2.4), 3), -round(rng.uniform(1.6, 2.4), 3)]
        rng.shuffle(angs)
        e1 = round(rng.uniform(-0.2, 0.2), 3)
        vec = cheetah.Dipole(length=tt(L), angle=tt(angs), dipole_e1=tt(e1), tracking_method="bmadx", dtype=T64)
        singles = [cheetah.Dipole(length=tt(L), angle=tt(a), dipole_e1=tt(e1), tracking_method="bmadx", dtype=T64) for a in angs]
        what, vals = "Dipole(angle=vector)", angs
    out = vec.track(beam(parts, E0)).particles
    if tuple(out.shape[:-2]) != (len(vals),):
        return {"what": f"{what}: outgoing particles have vector shape {tuple(out.shape[:-2])}, expected ({len(vals)},)", "length": L, "values": vals}
    for i, el in enumerate(singles):
        ref = el.track(beam(parts, E0)).particles
        if bool(torch.isfinite(ref).all()) and close_parts(out[i], ref, 1e-11, 1e-15) is not None:
            return {"what": f"{what}: entry {i} (value {vals[i]}) of the vectorised Bmad-X tracking differs from the scalar element tracked alone",
                    "length": L, "values": vals, "vectorised_entry": out[i].tolist(), "scalar": ref.tolist()}
    return None


def drift_goals(L, E0, parts, out, e_out):
    m = m_eV()
    Ll, El, M = dyadic(L), dyadic(E0), dyadic(m)
    cnd = E0 * E0 / (E0 * E0 - m * m)
    gs = [(f"Rabs (drift_bmadx_energy {El} {M} - {dyadic(e_out)}) <= {dyadic(REL * cnd * E0)}", TAC)]
    for p, o in zip(parts, out):
        v = "(mkc " + " ".join(dyadic(c) for c in p[:6]) + ")"
        for acc, j, scale in (("cx", 0, L * 2e-3), ("cy", 2, L * 2e-3), ("ctau", 4, L), ("cdelta", 5, 1.0)):
            tol = REL * cnd * (abs(o[j]) + scale)
            gs.append((f"Rabs ({acc} (drift_bmadx_track {Ll} {El} {M} {v}) - {dyadic(o[j])}) <= {dyadic(tol)}", TAC))
    return gs


# ------------------------------------------------------------------------------------------------ quadrupole correspondence
def gen_qcase(rng, k):
    """Quadrupole cases for the Coq correspondence: k1 of both signs, small and large, and exactly 0; tilt; misalignment; num_steps 1/2/5;
    energy offsets 0, ~1e-3 (series branch of low_energy_z_correction with pz != 0) and up to 5e-2 (exact branch at low and medium energy)."""
    L = round(rng.uniform(0.05, 1.5), 3)
    k1 = [0.0, round(rng.uniform(0.5, 12), 3), -round(rng.uniform(0.5, 12), 3), round(rng.uniform(-1, 1), 3)][k % 4]
    ns = [1, 2, 5][k % 3]
    spec = {"cls": "Quadrupole", "kw": {"length": L, "k1": k1, "tilt": rng.choice([0.0, round(rng.uniform(-0.8, 0.8), 3), math.pi / 4]),
                                        "misalignment": rng.choice([[0.0, 0.0], [round(rng.uniform(-1e-3, 1e-3), 6), round(rng.uniform(-1e-3, 1e-3), 6)]]),
                                        "num_steps": ns}}
    E0 = gen_energy(rng) if k % 2 else round(10 ** rng.uniform(6.3, 7.5), -3)     # every other case at a few MeV .. 30 MeV
    parts = []
    for _ in range(1 if ns == 5 else rng.randint(1, 2)):
        p = gen_particle(rng)
        p[5] = rng.choice([0.0, rng.choice([-1, 1]) * rng.uniform(1e-4, 2e-3), rng.uniform(-0.05, 0.05), rng.uniform(-0.05, 0.05)])
        parts.append(p)
    return {"spec": spec, "E0": E0, "particles": parts, "frac": round(rng.uniform(0.1, 0.9), 2)}


def lez_branch(delta, E0):
    """which branch of low_energy_z_correction the code takes for this particle (float64, as the code computes it): (series?, margin)"""
    m = m_eV()
    p0c = math.sqrt(E0 * E0 - m * m)
    en = E0 + delta * p0c
    pz = (math.sqrt(en * en - m * m) - p0c) / p0c
    etot = math.sqrt(p0c * p0c + m * m)
    ev = m * (p0c / etot * pz) ** 2
    thr = 3e-7 * etot
    return ev < thr, abs(ev / thr - 1.0)


def quad_goals(case, out, e_out):
    """one goal for the returned energy + one goal per particle: the six coordinates of Quadrupole._track_bmadx vs the Coq model.
    Tolerance 2^-36 * cnd * (|observed| + scale): cnd = E0^2/(E0^2 - m^2) is the amplification of rounding errors by
    p0c = sqrt(E0^2 - m^2); scale = the size of the terms that are added (2e-3 (1+L)(1+|k1| L) transverse, L for tau, 1 for delta);
    float64 errors are ~1e-16 * scale * cosh(sqrt|k1| L) <= 1e-14 * scale, every seeded formula change is >= 1e-9 * scale."""
    kw, E0, parts = case["spec"]["kw"], case["E0"], case["particles"]
    m = m_eV()
    L, k1, tilt, n = kw["length"], kw["k1"], kw["tilt"], kw["num_steps"]
    ox, oy = kw.get("misalignment", [0.0, 0.0])
    cnd = E0 * E0 / (E0 * E0 - m * m)
    gs = [(f"Rabs (drift_bmadx_energy {dyadic(E0)} {dyadic(m)} - {dyadic(e_out)}) <= {dyadic(REL_Q * cnd * E0)}", TAC)]
    st = 2e-3 * (1 + L) * (1 + abs(k1) * L)
    fx, fy = ("true" if k1 >= 0 else "false"), ("true" if k1 <= 0 else "false")      # masks (-k <= 0), (k <= 0) with k = k1*L/(L*(1+pz)), 1+pz > 0
    skipped = 0
    for p, o in zip(parts, out):
        ser, margin = lez_branch(p[5], E0)
        if margin < 1e-6:        # on the edge of the branch condition: unspecified (the model uses the real 3e-7)
            skipped += 1
            continue
        v = "(mkc " + " ".join(dyadic(c) for c in p[:6]) + ")"
        cj = []
        for acc, j, scale in (("cx", 0, st), ("cpx", 1, st), ("cy", 2, st), ("cpy", 3, st), ("ctau", 4, L), ("cdelta", 5, 1.0)):
            cj.append(f"Rabs ({acc} o - {dyadic(o[j])}) <= {dyadic(REL_Q * cnd * (abs(o[j]) + scale))}")
        stmt = (f"let o := quad_bmadx_track {n}%nat {dyadic(L)} {dyadic(k1)} {dyadic(ox)} {dyadic(oy)} {dyadic(tilt)} {dyadic(E0)} {dyadic(m)} {v} in "
                + " /\\ ".join(cj))
        gs.append((stmt, f"quadx_goal {fx} {fy} {'true' if ser else 'false'}."))
    return gs, skipped


# ------------------------------------------------------------------------------------------------ dipole correspondence
PRE_B = """From Coq Require Import Reals Lra.
From Interval Require Import Tactic.
From Cheetah Require Import Bmadx.Coords Bmadx.DriftX Bmadx.Tdc Bmadx.BendX Bmadx.BendXProofs Bmadx.BendXTac.
Open Scope R_scope."""
F70_FIXED = False     # which transcription of Dipole._bmadx_body is the faithful one; set by main() from the STATUS of finding F70:
#   known -> the code before the repair (bend_bmadx_track; angles below -pi are a known finding and are not generated)
#   fixed -> the repaired code (bend_bmadx_track_fixed: theta_p - 4 pi round((theta_p - angle)/(4 pi))); generators then exercise
#            bend angles in +-(3.3..5.6) rad and the stored F70 input is a regression test


def f70_status():
    """'known' / 'fixed' / None (not listed) for finding F70 of C07 in the known-findings file"""
    st = [f.get("status") for f in common.load_known_findings(PID) if f.get("id") == "F70"]
    if "known" in st:
        return "known"
    return st[0] if st else None


FRINGE_AT = {"both": (True, True), "entrance": (True, False), "exit": (False, True), "neither": (False, False)}


def gen_bcase(rng, k):
    """Dipole cases for the Coq correspondence: bend angles of both signs, +-(0.02..0.6) rad (exit-position branch c1) and +-(1.6..2.6) rad
    (branch c2, |angle + phi1| >= pi/2), edge angles, gap/fint with gap_exit != gap and fint_exit != fint in half of the cases, tilt,
    the four fringe_at variants, energies few MeV..GeV, energy offsets 0 and up to +-0.05."""
    L = round(rng.uniform(0.05, 1.5), 3)
    sgn = 1 if (k // 2) % 2 == 0 else -1
    ang = round(sgn * (rng.uniform(1.6, 2.6) if k % 2 else rng.uniform(0.02, 0.6)), 3)
    if F70_FIXED and k % 2 and (k // 4) % 2 == (0 if sgn < 0 else 1):
        ang = round(sgn * rng.uniform(3.3, 5.6), 3)       # beyond +-pi: below -pi arctan2 wraps and the repaired code rounds theta_p back (F70)
    gap = round(rng.uniform(0.0, 0.05), 3)
    fi = rng.choice([0.0, 0.5, round(rng.uniform(0, 0.7), 2)])
    same = rng.random() < 0.5
    kw = {"length": L, "angle": ang, "dipole_e1": rng.choice([0.0, round(rng.uniform(-0.3, 0.3), 3)]),
          "dipole_e2": rng.choice([0.0, round(rng.uniform(-0.3, 0.3), 3)]),
          "tilt": rng.choice([0.0, round(rng.uniform(-0.8, 0.8), 3), math.pi / 2]),
          "gap": gap, "gap_exit": gap if same else round(rng.uniform(0.0, 0.05), 3),
          "fringe_integral": fi, "fringe_integral_exit": fi if same else round(rng.uniform(0, 0.7), 2),
          "fringe_at": ["both", "entrance", "exit", "neither"][(k + k // 4) % 4]}
    E0 = gen_energy(rng) if k % 3 else round(10 ** rng.uniform(6.3, 7.5), -3)
    parts = []
    for _ in range(rng.randint(1, 2)):
        p = gen_particle(rng)
        p[5] = rng.choice([0.0, rng.uniform(-0.05, 0.05), rng.uniform(-0.05, 0.05)])
        parts.append(p)
    return {"spec": {"cls": "Dipole", "kw": kw}, "E0": E0, "particles": parts, "frac": round(rng.uniform(0.1, 0.9), 2)}


def bend_masks(kw, p, E0):
    """the branches Dipole._bmadx_body takes for this particle, computed in float64 along the lines of the code: (sel, quadrant) as Coq
    terms (plus, in the `fixed` state of F70, the integer torch.round((theta_p - angle)/(4 pi))), or None when the particle sits within 1e-9 of a branch edge (unspecified there: the Coq model compares exact reals)"""
    m = m_eV()
    L, ang, tilt = kw["length"], kw["angle"], kw["tilt"]
    fen, _ = FRINGE_AT[kw.get("fringe_at", "both")]
    p0c = math.sqrt(E0 * E0 - m * m)
    en = E0 + p[5] * p0c
    pz = (math.sqrt(en * en - m * m) - p0c) / p0c
    s, c = math.sin(tilt), math.cos(tilt)
    x, px, y, py = p[0] * c + p[2] * s, p[1] * c + p[3] * s, -p[0] * s + p[2] * c, -p[1] * s + p[3] * c
    g = ang / L
    if fen:
        e, fi, hg = kw["dipole_e1"], kw["fringe_integral"], 0.5 * kw["gap"]
        px = px + x * g * math.tan(e)
        py = py + y * (-g * math.tan(e - 2 * fi * hg * g * (1 + math.sin(e) ** 2) / math.cos(e)))
    rad = (1 + pz) ** 2 - py ** 2
    if rad <= 0:
        return None
    n = math.sqrt(rad)
    if abs(px / n) >= 1 - 1e-9:
        return None
    ph = math.asin(px / n)
    gp = g / n
    sc = math.sin(ang) / ang
    cc = -0.5 * (math.sin(ang / 2) / (ang / 2)) ** 2
    al = 2 * (1 + g * x) * math.sin(ang + ph) * L * sc - gp * ((1 + g * x) * L * sc) ** 2
    t1 = x * math.cos(ang) + L ** 2 * g * cc
    t3 = math.cos(ang + ph)
    r2 = t3 ** 2 + gp * al
    if r2 < 0:
        return None
    t2 = math.sqrt(r2)
    temp = abs(ang + ph)
    if abs(temp - math.pi / 2) < 1e-9 or abs(t2 + t3) < 1e-9:
        return None
    sel = temp < math.pi / 2
    x2 = t1 + al / (t2 + t3) if sel else t1 + (t2 - t3) / gp
    u = x2 - L ** 2 * g * cc - x * math.cos(ang)
    v = -L * sc - x * math.sin(ang)
    lc = math.hypot(u, v)
    if lc == 0 or abs(u) < 1e-9 * lc or (u < 0 and abs(v) < 1e-9 * lc):
        return None
    qd = "Qright" if u > 0 else ("Qleft_up" if v >= 0 else "Qleft_down")
    th = 2 * (ang + ph - math.pi / 2 - math.atan2(v, u))
    kz = None
    if F70_FIXED:
        fr = (th - ang) / (4 * math.pi)
        kz = round(fr)
        if abs(abs(fr - kz) - 0.5) < 1e-6:
            return None
        th = th - 4 * math.pi * kz
    if abs(th) < 1e-9:
        return None
    return ("true" if sel else "false"), qd, kz


def bend_goals(case, out, e_out):
    """one goal for the returned energy + one goal per particle: the six coordinates of Dipole._track_bmadx vs the Coq model
    Bmadx/BendX.v bend_bmadx_track.  Tolerance 2^-36 * cnd * (|observed| + scale), cnd = E0^2/(E0^2 - m^2) (rounding of p0c), scale = the
    size of the terms that are added: 2e-3 (1+L) (1+|g| tan-terms) transverse, L for tau, 1 for delta; float64 errors are a few 1e-16 * L."""
    kw, E0, parts = case["spec"]["kw"], case["E0"], case["particles"]
    m = m_eV()
    L = kw["length"]
    cnd = E0 * E0 / (E0 * E0 - m * m)
    gs = [(f"Rabs (drift_bmadx_energy {dyadic(E0)} {dyadic(m)} - {dyadic(e_out)}) <= {dyadic(REL_Q * cnd * E0)}", TAC)]
    fen, fex = FRINGE_AT[kw.get("fringe_at", "both")]
    b = "(mkbend " + " ".join(dyadic(kw[f]) for f in ("length", "angle", "dipole_e1", "dipole_e2", "fringe_integral", "fringe_integral_exit",
                                                       "gap", "gap_exit", "tilt")) + ")"
    st = 2e-3 * (1 + L) * (1 + abs(kw["angle"]))
    skipped = 0
    for p, o in zip(parts, out):
        mk = bend_masks(kw, p, E0)
        if mk is None:
            skipped += 1
            continue
        v = "(mkc " + " ".join(dyadic(c) for c in p[:6]) + ")"
        cj = []
        for acc, j, scale in (("cx", 0, st), ("cpx", 1, st), ("cy", 2, st), ("cpy", 3, st), ("ctau", 4, L), ("cdelta", 5, 1.0)):
            cj.append(f"Rabs ({acc} o - {dyadic(o[j])}) <= {dyadic(REL_Q * cnd * (abs(o[j]) + scale))}")
        fn = "bend_bmadx_track_fixed" if F70_FIXED else "bend_bmadx_track"
        stmt = (f"let o := {fn} {'true' if fen else 'false'} {'true' if fex else 'false'} {b} {dyadic(E0)} {dyadic(m)} {v} in "
                + " /\\ ".join(cj))
        gs.append((stmt, f"bendx_goal_fixed {mk[0]} {mk[1]} ({mk[2]})%Z." if F70_FIXED else f"bendx_goal {mk[0]} {mk[1]}."))
    return gs, skipped


def uniform_field_oracle(spec, E0, parts):
    """The body of the Bmad-X bend (fringe_at='neither', no tilt) against the exact motion in a uniform field, computed independently of
    the code's formulas in 40-digit arithmetic: in the bending plane the orbit is the circle of radius px_norm/g through the entrance point,
    tangent to the entrance direction; the exit point is its intersection with the exit face, the exit direction the tangent there; y advances
    by py/px_norm times the arc length, z by beta*L/beta0 - (1+pz)/px_norm times the arc length."""
    import copy
    import mpmath as mp
    mp.mp.dps = 40
    q = copy.deepcopy(spec)
    q["kw"].update({"fringe_at": "neither", "tilt": 0.0})
    out = make(q).track(beam(parts, E0)).particles.tolist()
    m, L, th = mp.mpf(m_eV()), mp.mpf(q["kw"]["length"]), mp.mpf(q["kw"]["angle"])
    g = th / L
    E0d = mp.mpf(E0)
    p0 = mp.sqrt(E0d * E0d - m * m)
    for i, p in enumerate(parts):
        x, px, y, py, tau, d = [mp.mpf(v) for v in p[:6]]
        en = E0d + d * p0
        pc = mp.sqrt(en * en - m * m)
        P = pc / p0
        beta, beta0 = pc / en, p0 / E0d
        n = mp.sqrt(P * P - py * py)
        r = n / g
        s1 = px / n
        c1 = mp.sqrt(1 - s1 * s1)
        R1 = 1 / g + x
        C = (R1 - r * c1, r * s1)                      # centre of the orbit; entrance frame: e = (1,0) radial, t = (0,1) tangential
        e = (mp.cos(th), mp.sin(th))
        t = (-mp.sin(th), mp.cos(th))
        eC = e[0] * C[0] + e[1] * C[1]
        D = eC * eC - (C[0] ** 2 + C[1] ** 2) + r * r
        if D <= 0:
            continue
        R2 = eC + mp.sign(g) * mp.sqrt(D)
        N = ((R2 * e[0] - C[0]) / r, (R2 * e[1] - C[1]) / r)       # outward normal of the orbit at the exit point = direction rotated by -90 degrees
        d2 = (-N[1], N[0])
        d1 = (s1, c1)
        turn = mp.atan2(d1[0] * d2[1] - d1[1] * d2[0], d1[0] * d2[0] + d1[1] * d2[1])
        if turn * g < 0:
            turn += 2 * mp.pi * mp.sign(g)
        arc = r * turn
        z = -beta * tau
        z2 = z + beta * L / beta0 - P * arc / n
        exp = [R2 - 1 / g, n * (d2[0] * e[0] + d2[1] * e[1]), y + py * arc / n, py, -z2 / beta, d]
        if (d2[0] * t[0] + d2[1] * t[1]) <= 0:
            continue                                   # particle turns back before the exit face: outside the domain of the formulas
        for j in range(6):
            tol = 1e-11 * (abs(float(exp[j])) + float(L) * (2e-3 if j < 4 else 1.0)) + 1e-300
            if not abs(out[i][j] - float(exp[j])) <= tol:
                return {"what": "Bmad-X bend body is not the exact motion in a uniform field", "particle": i, "coordinate": j,
                        "observed": out[i][j], "expected": float(exp[j]), "body_only_spec": q}
    return None


F70_INPUT = {"spec": {"cls": "Dipole", "kw": {"length": 1.0, "angle": -4.0}}, "E0": 1.0e8, "particles": [[0.0, 0.0, 0.0, 0.0, 0.0, 0.0, 1.0]]}


def f70_probe(inp):
    """the design particle of a bend with angle < -pi must come out at tau = 0 (and at the origin): returns the observed output if it does not"""
    out = make(inp["spec"]).track(beam(inp["particles"], inp["E0"])).particles[0, :6].tolist()
    if not all(abs(c) <= 1e-9 for c in out):
        return out
    return None


def is_f70(spec):
    return spec["cls"] == "Dipole" and spec["kw"]["angle"] < -math.pi and spec["kw"]["length"] > 0


# ------------------------------------------------------------------------------------------------ main
def run_case(run, case):
    """all implementation-level oracles on one case; returns a failure dict or None"""
    spec, E0, parts = case["spec"], case["E0"], case["particles"]
    if case.get("bcorr"):      # dipoles of the Coq correspondence: gap_exit/fint_exit may differ from gap/fint (no Jacobian comparison), fringe_at varies
        out = make(spec).track(beam(parts, E0)).particles
        if not bool(torch.isfinite(out).all()):
            return {"what": "non-finite output of Dipole._track_bmadx", "observed": out.tolist()}
        return uniform_field_oracle(spec, E0, parts)
    if case.get("qcorr"):      # misaligned quadrupoles of the Coq correspondence: the design orbit is not the axis, no Jacobian comparison
        out = make(spec).track(beam(parts, E0)).particles
        if not bool(torch.isfinite(out).all()):
            return {"what": "non-finite output of Quadrupole._track_bmadx", "observed": out.tolist()}
        return flow_oracle(spec, E0, parts, case["frac"]) or onaxis_oracle(spec, E0, parts) or chromatic_oracle(spec, E0, parts)
    f = jacobian_oracle(spec, E0)
    if f:
        return f
    f = flow_oracle(spec, E0, parts, case["frac"])
    if f:
        return f
    if spec["cls"] == "Drift":
        out = make(spec).track(beam(parts, E0)).particles.tolist()
        return straight_line_oracle(spec, E0, parts, out)
    if spec["cls"] == "Quadrupole":
        return onaxis_oracle(spec, E0, parts) or chromatic_oracle(spec, E0, parts)
    if spec["cls"] == "Dipole":
        return uniform_field_oracle(spec, E0, parts)
    return None


def onaxis_oracle(spec, E0, parts):
    """A particle on the axis of an aligned quadrupole sees no field: Bmad-X tracking must move it exactly like a Bmad-X drift of the
    same length, for every k1, tilt, number of steps and for SIZEABLE energy offsets (both branches of low_energy_z_correction), at
    the case's energy and at a few MeV where the velocity dependence matters."""
    import copy
    q = copy.deepcopy(spec)
    q["kw"]["misalignment"] = [0.0, 0.0]
    d = {"cls": "Drift", "kw": {"length": spec["kw"]["length"]}}
    deltas = [3e-3, -2e-2, 5e-2, -5e-2, 1e-4]
    ps = [[0.0, 0.0, 0.0, 0.0, (parts[0][4] if parts else 0.0), dl, 1.0] for dl in deltas]
    for E in (E0, 3.0e6, 6.0e6):
        a = make(q).track(beam(ps, E)).particles
        b = make(d).track(beam(ps, E)).particles
        dev = close_parts(a, b, 1e-9, 1e-11)    # the series branch of low_energy_z_correction is accurate to ~1e-13 L; defects show at >= 1e-8
        if dev is not None:
            return {"what": "on-axis particle: Bmad-X quadrupole differs from Bmad-X drift of the same length", "max_dev": dev, "energy": E,
                    "particles": ps, "quadrupole": a.tolist(), "drift": b.tolist()}
    return None


def chromatic_oracle(spec, E0, parts):
    """Momentum scaling of the quadrupole (from the Coq model: the step depends on k1 and pz only through k1/(1+pz), and px enters as px/(1+pz)):
    a particle with relative momentum P = 1+pz in a quadrupole of strength k1 has the same x, y (and px/P, py/P) as the on-momentum particle
    (x, px/P, y, py/P) in a quadrupole of strength k1/P -- for every tilt, misalignment and number of steps."""
    import copy
    m = m_eV()
    p0c = math.sqrt(E0 * E0 - m * m)
    for i, p in enumerate(parts):
        if p[5] == 0.0:
            continue
        en = E0 + p[5] * p0c
        P = math.sqrt(en * en - m * m) / p0c
        a = make(spec).track(beam([p], E0)).particles[0]
        q = copy.deepcopy(spec)
        q["kw"]["k1"] = spec["kw"]["k1"] / P
        b = make(q).track(beam([[p[0], p[1] / P, p[2], p[3] / P, 0.0, 0.0, 1.0]], E0)).particles[0]
        exp = torch.stack([b[0], b[1] * P, b[2], b[3] * P])
        dev = close_parts(a[:4], exp, 1e-9, 1e-13)
        if dev is not None:
            return {"what": "momentum scaling of the Bmad-X quadrupole violated: track(k1; x,px,y,py,delta) != scaled track(k1/P; x,px/P,y,py/P,0)", "particle": i,
                    "P": P, "max_dev": dev, "off_momentum": a.tolist(), "scaled_on_momentum": b.tolist()}
    return None


def main(tier, replay=None):
    run = common.Run(PID, tier)
    common.setup_python_env()
    thorough = tier == "thorough"
    run.cov["rule"] = ("Drift/Quadrupole/Dipole/TDC with tracking_method='bmadx': lengths 0.05..1.5 m, k1 in {0, +-1, +-12}, tilt {0, random, pi/4}, num_steps "
                       "{1,2,5}, bend angles +-(0.02..0.6) rad, edge angles, gap/fint (gap_exit=gap; fint_exit of its own in 4 cases of 10); energies 1.6 MeV..5 GeV; 1-3 paraxial "
                       "particles (|x|,|px| <= 2e-3, |delta| <= 0.05); quadrupoles of the Coq correspondence additionally misaligned (<= 1 mm), k1 in {0, +-(0.5..12), +-1}, "
                       "num_steps cycling 1/2/5, delta in {0, +-(1e-4..2e-3), +-0.05} at 2 MeV..5 GeV so that both branches of low_energy_z_correction occur; dipoles of the Coq correspondence: "
                       "angles +-(0.02..0.6) and +-(1.6..2.6) rad cycling (both exit-position branches c1/c2, both arctan2 quadrants), gap_exit/fint_exit differing from gap/fint in half of the cases, "
                       "tilt {0, random, pi/2}, fringe_at cycling both/entrance/exit/neither, delta in {0, +-0.05}; NaN configurations of finding F8 (angle=0, length=0) are not generated; "
                       "non-trivial = every case (non-zero length, off-axis particles); distinct by full input")
    global F70_FIXED
    st70 = f70_status()
    F70_FIXED = st70 == "fixed"
    run.cov["dipole_model"] = ("bend_bmadx_track_fixed (code after the repair of F70)" if F70_FIXED
                               else "bend_bmadx_track (code before the repair of F70: theta_p straight from arctan2)")
    if replay:
        return do_replay(run, replay)
    proof_ok = run.proof_stage()
    # second tie (Bmad-X / conversions): re-translated from REPO's source and proved equal to Bmadx/*.v, Beam/SI.v (Gen/BmadxGenEquiv.v)
    import translate_stage
    trx = translate_stage.translator_obligation_bmadx(run)
    if trx["status"] != "ok":
        run.notes.append("translator obligation (bmadx): " + json.dumps(translate_stage.replay_fields_bmadx(trx))[:600])
    if trx["status"] == "equivalence_broken" and trx.get("lemma") == "gen_Dipole__bmadx_body_eq" and not F70_FIXED:
        # the tie is stated for the repaired transcription; while F70 is listed `known` the code is expected to be the old body
        run.notes.append("bmadx translator tie is for the repaired transcription (F70 status is 'known')")
        trx = dict(trx, status="ok")
    if not proof_ok:
        run.notes.append(run.proof_problem)
    ok_tac, log_tac = common.coq_build("theories/Bmadx/QuadXTac.vo")     # the tactic library of the quadrupole goals (imports Interval; not needed by Props/C07.v)
    if not ok_tac and proof_ok:
        proof_ok, run.proof_problem = False, f"coq build of Bmadx/QuadXTac.v failed: {log_tac[-1200:]}"
        run.notes.append(run.proof_problem)
    ok_tac, log_tac = common.coq_build("theories/Bmadx/BendXTac.vo")     # the tactic library of the dipole goals
    if not ok_tac and proof_ok:
        proof_ok, run.proof_problem = False, f"coq build of Bmadx/BendXTac.v failed: {log_tac[-1200:]}"
        run.notes.append(run.proof_problem)
    n = 240 if thorough else 36
    goals, owner, cases, bad = [], [], [], []
    for k in range(n):
        cls = ["Drift", "Quadrupole", "Dipole"][k % 3]
        case = {"spec": gen_spec(run.rng, cls), "E0": gen_energy(run.rng), "particles": [gen_particle(run.rng) for _ in range(run.rng.randint(1, 3))],
                "frac": round(run.rng.uniform(0.1, 0.9), 2)}
        run.add_case(case, True)
        run.count(cls)
        if cls == "Quadrupole":
            run.count("quad_k1_zero" if case["spec"]["kw"]["k1"] == 0 else "quad_k1_nonzero")
        try:
            f = run_case(run, case)
        except Exception as ex:  # an exception of the tracking code on a valid input is a failure of the property's premise
            f = {"what": "exception: " + repr(ex)[:300]}
        if f:
            bad.append({"case": case, "failure": f})
        cases.append(case)
        if cls == "Drift" and (thorough or k < 18):
            o = make(case["spec"]).track(beam(case["particles"], case["E0"]))
            gs = drift_goals(case["spec"]["kw"]["length"], case["E0"], case["particles"], o.particles.tolist(), float(o.energy))
            goals += gs
            owner += [len(cases) - 1] * len(gs)
            run.cov["traces_validated_against_impl"] += 1
            run.sample({"case": case, "observed": o.particles.tolist()})
        if k % 3 == 1:
            try:
                f = vectorised_oracle(run.rng, case["E0"], case["particles"])
            except Exception as ex:
                f = {"what": "exception in vectorised Bmad-X tracking: " + repr(ex)[:300]}
            run.count("vectorised_vs_scalar")
            if f:
                bad.append({"case": dict(case, vectorised=True), "failure": f})
        if k % 3 == 0:
            f = tdc_oracle(run.rng, case["E0"], case["particles"])
            run.count("tdc_off_vs_drift")
            if f:
                bad.append({"case": dict(case, tdc=True), "failure": f})
    # ---- Bmad-X quadrupole vs the Coq model (all six coordinates), plus the implementation-level oracles on the same inputs
    qgoals, qowner, n_edge = [], [], 0
    for k in range(80 if thorough else 12):
        qc = gen_qcase(run.rng, k)
        qc["qcorr"] = True
        run.add_case(qc, True)
        run.count("quad_correspondence")
        kw = qc["spec"]["kw"]
        run.count("quadc_k1_" + ("zero" if kw["k1"] == 0 else "pos" if kw["k1"] > 0 else "neg"))
        run.count(f"quadc_num_steps_{kw['num_steps']}")
        run.count("quadc_tilted" if kw["tilt"] != 0 else "quadc_untilted")
        run.count("quadc_misaligned" if kw["misalignment"] != [0.0, 0.0] else "quadc_aligned")
        try:
            f = run_case(run, qc)
            o = make(qc["spec"]).track(beam(qc["particles"], qc["E0"]))
            out, e_out = o.particles.tolist(), float(o.energy)
        except Exception as ex:  # an exception of the tracking code on a valid input is an observation: the model predicts finite values
            f, out = {"what": "exception: " + repr(ex)[:300]}, None
        if f:
            bad.append({"case": qc, "failure": f})
        if out is None or not all(math.isfinite(c) for row in out for c in row) or not math.isfinite(e_out):
            continue
        for p in qc["particles"]:
            run.count("quadc_lez_series" if lez_branch(p[5], qc["E0"])[0] else "quadc_lez_exact")
        gs, skipped = quad_goals(qc, out, e_out)
        n_edge += skipped
        qgoals += gs
        qowner += [dict(qc, observed=out, observed_energy=e_out)] * len(gs)
        run.cov["traces_validated_against_impl"] += 1
        if k < 4:
            run.sample({"case": qc, "observed": out})
    # ---- Bmad-X dipole vs the Coq model Bmadx/BendX.v (all six coordinates), plus the uniform-field oracle on the same inputs
    bgoals, bowner, b_edge = [], [], 0
    for k in range(64 if thorough else 8):
        bc = gen_bcase(run.rng, k + (run.seed % 24 if isinstance(run.seed, int) else 0))
        bc["bcorr"] = True
        run.add_case(bc, True)
        run.count("bend_correspondence")
        kw = bc["spec"]["kw"]
        run.count("bendc_angle_" + ("beyond_pi" if abs(kw["angle"]) > math.pi else "large" if abs(kw["angle"]) > 1.5 else "small") + ("_neg" if kw["angle"] < 0 else "_pos"))
        run.count("bendc_fringe_at_" + kw["fringe_at"])
        run.count("bendc_tilted" if kw["tilt"] != 0 else "bendc_untilted")
        run.count("bendc_gap_exit_differs" if kw["gap_exit"] != kw["gap"] or kw["fringe_integral_exit"] != kw["fringe_integral"] else "bendc_gap_exit_same")
        out = None
        try:
            f = run_case(run, bc)
            o = make(bc["spec"]).track(beam(bc["particles"], bc["E0"]))
            out, e_out = o.particles.tolist(), float(o.energy)
        except Exception as ex:  # an exception of the tracking code on a valid input is an observation: the model predicts finite values
            f = {"what": "exception: " + repr(ex)[:300]}
        if f:
            bad.append({"case": bc, "failure": f})
        if out is None or not all(math.isfinite(c) for row in out for c in row) or not math.isfinite(e_out):
            continue
        gs, skipped = bend_goals(bc, out, e_out)
        for g_ in gs[1:]:
            run.count("bendc_branch_" + g_[1].replace("bendx_goal_fixed ", "").replace("bendx_goal ", "").rstrip(".").replace(" ", "_").replace("(", "k").replace(")%Z", ""))
        b_edge += skipped
        bgoals += gs
        bowner += [dict(bc, observed=out, observed_energy=e_out)] * len(gs)
        run.cov["traces_validated_against_impl"] += 1
        if k < 3:
            run.sample({"case": bc, "observed": out})
    from concurrent.futures import ThreadPoolExecutor
    with ThreadPoolExecutor(max_workers=3) as ex:
        fut_d = ex.submit(common.run_real_goals, PID, "drift", PRE, goals, 20)
        fut_q = ex.submit(common.run_real_goals, PID, "quad", PRE_Q, qgoals, max(2, -(-len(qgoals) // 16)))
        fut_b = ex.submit(common.run_real_goals, PID, "bend", PRE_B, bgoals, 2 if not thorough else 4)
        failing, errs = fut_d.result()
        qfailing, qerrs = fut_q.result()
        bfailing, berrs = fut_b.result()
    run.cov["interval_goals"] = len(goals) + len(qgoals) + len(bgoals)
    run.cov["bend_goals"] = len(bgoals)
    run.cov["bend_particles_on_branch_edge_skipped"] = b_edge
    run.cov["quad_goals"] = len(qgoals)
    run.cov["quad_particles_on_branch_edge_skipped"] = n_edge
    run.cov["tested_only"] = ["Quadrupole Bmad-X with the coded eps = 2^-52: flow law / num_steps independence (1e-10) and full 6x6 Jacobian = transfer_map (1e-9) on the "
                              "implementation (Coq proves them for eps := 0, the transverse block, R56 and the determinant defect eps*sx^2 of the coded block)",
                              "Dipole Bmad-X: full 6x6 Jacobian of fringe + body + tilt = transfer_map (autograd, 1e-9) and two pieces = whole (1e-10) on the implementation "
                              "(Coq proves the fringe matrices, the exact uniform-field geometry of the body, its Jacobian rows x', px' at the design orbit, the flow law of "
                              "the body in six coordinates, the closed design orbit and c1 = c2; not the y'/z' rows of the Jacobian nor the element with fringes and tilt)",
                              "Dipole body vs an independent 40-digit uniform-field computation (1e-11) on the implementation",
                              "full 6x6 autograd Jacobian of Drift(bmadx) vs transfer_map (Coq proves the two non-trivial entries)",
                              "TDC(V=0) vs Drift(bmadx) on the implementation (Coq proves it for the model of the kick)"]
    bad = [b for b in bad if not (is_f70(b["case"]["spec"]) and common.known_signature_match(PID, lambda f_: f_.get("id") == "F70"))]
    if bad:
        b = bad[0]
        run.violation({"kind": "oracle", "case": b["case"], "failure": b["failure"], "n_failing_cases": len(bad)})
    elif failing:
        i = failing[0]
        run.violation({"kind": "correspondence", "broken": "Coq model Bmadx/DriftX.v (drift_bmadx_track) disagrees with Drift._track_bmadx",
                       "case": cases[owner[i]], "goal": goals[i][0][:600], "coq_error": errs.get(i, "")[-300:], "n_failing_goals": len(failing)}, no_input=True)
    elif qfailing:
        i = qfailing[0]
        run.violation({"kind": "correspondence", "broken": "Coq model Bmadx/QuadX.v (quad_bmadx_track) disagrees with Quadrupole._track_bmadx",
                       "case": qowner[i], "goal": qgoals[i][0][:900], "coq_error": qerrs.get(i, "")[-300:], "n_failing_goals": len(qfailing)}, no_input=True)
    elif bfailing:
        i = bfailing[0]
        run.violation({"kind": "correspondence", "broken": "Coq model Bmadx/BendX.v (bend_bmadx_track) disagrees with Dipole._track_bmadx",
                       "case": bowner[i], "goal": bgoals[i][0][:900], "coq_error": berrs.get(i, "")[-300:], "n_failing_goals": len(bfailing)}, no_input=True)
    elif trx["status"] != "ok":
        # the Bmad-X / conversion source no longer translates to the proved model; none of this run's oracles found a failing input
        run.violation(translate_stage.replay_fields_bmadx(trx), no_input=True)
    elif not proof_ok:
        run.violation({"kind": "proof", "broken": run.proof_problem}, no_input=True)
    # ---- known finding F70 (bend angle < -pi: theta_p off by 4 pi, wrong path length): replay the stored input
    for kf in common.load_known_findings(PID):
        if kf.get("id") != "F70":
            continue
        try:
            obs = f70_probe(kf.get("replay", F70_INPUT))
        except Exception as ex:
            obs = "exception: " + repr(ex)[:200]
        if obs is None:
            if kf.get("status") == "known":
                run.cov["known_findings_not_reproduced"].append("F70")
                run.notes.append("finding F70 is listed as known but its stored input no longer fails (the design particle of Dipole(angle=-4) comes out at 0): "
                                 "the code looks repaired and the status is stale -- flip F70 to `fixed` so that the repaired model bend_bmadx_track_fixed is "
                                 "checked and bend angles below -pi are exercised")
            else:
                run.cov["regression_inputs_replayed"] = run.cov.get("regression_inputs_replayed", 0) + 1
        elif kf.get("status") == "known":
            run.known(f"Bmad-X Dipole with angle < -pi displaces the design particle longitudinally: angle={kf.get('replay', F70_INPUT)['spec']['kw']['angle']} observed={obs} [F70]",
                      replay=kf.get("replay", F70_INPUT))
        else:
            run.violation({"kind": "oracle", "case": kf.get("replay", F70_INPUT), "failure": {"what": "finding F70 (listed as fixed) fails again", "observed": obs}})
    # ---- known finding F91 (linear exit fringe reads `gap`, Bmad-X reads `gap_exit`): replay the stored input
    for kf in common.load_known_findings(PID):
        if kf.get("id") != "F91" or not kf.get("replay"):
            continue
        rp = kf["replay"]
        try:
            f = jacobian_oracle(rp["spec"], rp["E0"])
        except Exception as ex:
            f = {"what": "exception: " + repr(ex)[:200]}
        sig = False
        if f and "bmadx_jacobian" in f:
            D = (torch.tensor(f["bmadx_jacobian"], dtype=T64) - torch.tensor(f["transfer_map"], dtype=T64)).abs()
            sc = max(1.0, float(torch.tensor(f["transfer_map"], dtype=T64).abs().max()))
            where = [tuple(ix) for ix in (D > 1e-9 * sc).nonzero().tolist()]
            same_gap = json.loads(json.dumps(rp["spec"]))
            same_gap["kw"]["gap_exit"] = same_gap["kw"]["gap"]
            sig = bool(where) and set(where) <= {(3, 2), (3, 3)} and jacobian_oracle(same_gap, rp["E0"]) is None
        if f is None:
            if kf.get("status") == "known":
                run.cov["known_findings_not_reproduced"].append("F91")
                run.notes.append("finding F91 is listed as known but its stored input no longer fails (Bmad-X Jacobian == transfer_map with gap_exit != gap): "
                                 "the code looks repaired and the status is stale")
            else:
                run.cov["regression_inputs_replayed"] = run.cov.get("regression_inputs_replayed", 0) + 1
        elif kf.get("status") == "known" and sig:
            run.known(f"linear Dipole exit fringe uses gap where Bmad-X uses gap_exit: Jacobian vs transfer_map differ in the py row only, max {f['max_dev']:.3g} "
                      f"at gap={rp['spec']['kw']['gap']}, gap_exit={rp['spec']['kw']['gap_exit']} [F91]", replay=rp)
        else:
            run.violation({"kind": "oracle", "case": {"spec": rp["spec"], "E0": rp["E0"], "jac": True},
                           "failure": dict(f, note="stored input of finding F91: " + ("listed as fixed, fails again" if kf.get("status") != "known"
                                                                                   else "fails outside the signature of F91 (py row only; agreement when gap_exit = gap)"))})
    return run.finish("proof")


def do_replay(run, path):
    r = json.loads(open(path).read())
    case = r["case"]
    if case.get("tdc"):
        f = tdc_oracle(run.rng, case["E0"], case["particles"])
    elif case.get("jac"):         # Jacobian of Bmad-X tracking vs transfer_map on one element (stored input of finding F91)
        f = jacobian_oracle(case["spec"], case["E0"])
    elif "frac" not in case:      # the stored input of finding F70 (design particle of a bend with angle < -pi)
        obs = f70_probe(case)
        f = {"what": "the design particle of the bend does not come out at the origin (F70)", "observed": obs} if obs is not None else None
    else:
        f = run_case(run, case)
    print("replay:", "property holds on this input" if not f else f"property FAILS on this input: {json.dumps(f)[:800]}")
    return 1 if f else 0
