"""C08 -- Lattice speed optimisations do not change tracking results.

Stages: proof (Props/C08.v) -> class-table correspondence (which classes have `is_active`) -> exact structural
correspondence of transfer_maps_merged / without_inactive_markers / without_inactive_zero_length_elements /
inactive_elements_as_drifts on integer-valued lattices (vm_compute of Lattice/ZOps.c08_check) -> property oracle on
the implementation alone (integer lattices and real lattices) -> known findings -> verdict.
"""
import copy
import json

import torch

import common
import realgen
import zlattice as zl
from common import coq_list, coq_string, zlit

PID = "C08"
PREAMBLE = """From Coq Require Import List Bool String ZArith.
From Cheetah Require Import Base.Mat Lattice.Track Lattice.ZInst Lattice.Merge Lattice.Filter Lattice.ZOps.
Import ListNotations. Open Scope string_scope. Open Scope Z_scope."""

OPS = ("merged", "markers", "zero", "drifts")
F28_TEXT = ("a filter that removes every element returns an empty Segment whose .length raises TypeError "
            "(reduce() of an empty list) instead of being 0 [F28]")

# Finding F28 (Segment.length = reduce(torch.add, lengths) raised TypeError for an empty segment, hence for every segment
# holding an empty sub-segment, and inside transfer_maps_merged / the two length-reading filters).  While F28 is listed
# `known` the faithful model is the code before the repair (Lattice/ZOps.c08_check: has_empty_seg / filter_raises /
# merged_raises say where the code raises, and an empty result's length is worked around); once it is flipped to `fixed`
# the model is c08_check_len_total (lengths are total, nothing raises), a raising length is a failure of the property and
# the empty results / empty sub-segments are compared like everything else.
STATE = {"f28_known": True, "f28_back": False}


def f28_known():
    return any(f["id"] == "F28" and f.get("status") == "known" for f in common.load_known_findings(PID))


def _f28_regression(d):
    """tag of a failure that is exactly the repaired defect F28 (a length that raises TypeError), so that it is reported once,
    through the stored input of the fixed entry"""
    return dict(d, regression_of=[F28_TEXT])


# ---------------------------------------------------------------- integer test elements with an `is_active` attribute
class ZMapA(zl.ZMap):
    def __init__(self, a0, a1, length, active, name=None):
        super().__init__(a0, a1, length, name=name)
        self.is_active = bool(active)


class ZNonA(zl.ZNon):
    def __init__(self, dE, k, thr, length, active, name=None):
        super().__init__(dE, k, thr, length, name=name)
        self.is_active = bool(active)


def build(e):
    import cheetah
    k = e["kind"]
    if k == "seg":
        return cheetah.Segment([build(c) for c in e["es"]], name=e["name"])
    if e.get("has_active") and k == "map":
        return ZMapA(zl.dense(e["a0"], True), zl.dense(e["a1"], False), float(e["len"]), e.get("active"), name=e["name"])
    if e.get("has_active") and k == "non":
        return ZNonA(float(e["dE"]), float(e["k"]), float(e["thr"]), float(e["len"]), e.get("active"), name=e["name"])
    return zl.build(e)


def decorate(rng, e):
    """give some map/non leaves an is_active attribute (CustomTransferMap and Marker never have one)"""
    if e["kind"] == "seg":
        for c in e["es"]:
            decorate(rng, c)
    elif e["kind"] in ("map", "non") and rng.random() < 0.5:
        e["has_active"] = True
        e["active"] = rng.random() < 0.5


def apply_op(seg, op, b, ex):
    if op == "merged":
        return seg.transfer_maps_merged(b, except_for=ex)
    if op == "markers":
        return seg.without_inactive_markers(except_for=ex)
    if op == "zero":
        return seg.without_inactive_zero_length_elements(except_for=ex)
    if op == "drifts":
        return seg.inactive_elements_as_drifts(except_for=ex)
    raise ValueError(op)


# ---------------------------------------------------------------- exact structural correspondence
def seg_len(seg):
    try:
        return zl._ints(seg.length)
    except TypeError:
        return None


def describe(o, orig):
    import cheetah
    for i, e in enumerate(orig):
        if e is o:
            return ["kept", i]
    if isinstance(o, cheetah.CustomTransferMap) and tuple(o.predefined_transfer_map.shape) == (7, 7):
        return ["new", "ctm", o.name, zl._ints(o.length), zl._ints(o.predefined_transfer_map)]
    if type(o) is cheetah.Drift and o.tracking_method == "cheetah":
        return ["new", "drift", o.name, zl._ints(o.length), None]
    return ["new", "other:" + type(o).__name__, str(o.name), 0, None]


def observe(tree, beam, ex):
    """Run the four transformations of the real Segment on an integer case."""
    seg = build(tree)
    b = zl.build_beam(beam)
    orig = list(seg.elements)
    obs = {"ref_out": zl.observe_beam(seg.track(b)), "ref_len": seg_len(seg)}
    for op in OPS:
        try:
            new = apply_op(seg, op, b, ex)
        except TypeError:
            obs[op] = None        # reduce() of an empty sub-segment's lengths
            continue
        d = {"ds": [describe(o, orig) for o in new.elements], "len": seg_len(new), "name": new.name}
        if op != "drifts":
            d["out"] = zl.observe_beam(new.track(b))
        obs[op] = d
        obs["_obj_" + op] = new
    obs["_seg"] = seg
    return obs


def coq_desc(d):
    if d[0] == "kept":
        return f"(OKept {d[1]}%nat)"
    mat = "None" if d[4] is None else f"(Some {zl.coq_m7(d[4])})"
    return f"(ONew {coq_string(d[1])} {coq_string(d[2])} {zlit(d[3])} {mat})"


def coq_optz(x):
    return "None" if x is None else f"(Some {zlit(x)})"


def coq_case(tree, beam, ex, obs):
    def full(d):
        return f"({coq_list([coq_desc(x) for x in d['ds']])}, {zl.coq_beam(d['out'])}, {coq_optz(d['len'])})"
    mg = "None" if obs["merged"] is None else f"(Some {full(obs['merged'])})"
    mk = full(obs["markers"])
    ze = "None" if obs["zero"] is None else f"(Some {full(obs['zero'])})"
    dr = "None" if obs["drifts"] is None else f"(Some ({coq_list([coq_desc(x) for x in obs['drifts']['ds']])}, {coq_optz(obs['drifts']['len'])}))"
    return (f"mkc08 {zl.coq_elem(tree)} {zl.coq_beam(beam)} {coq_list([coq_string(n) for n in ex])} {mg} {mk} {ze} {dr}")


F28_SHAPES = ("all_markers", "all_zero_length", "empty_top", "only_empty_sub", "empty_sub_in_run", "empty_sub_in_run",
              "empty_sub_mixed", "markers_and_empty_sub")


def has_empty_seg(e):
    return e["kind"] == "seg" and (not e["es"] or any(has_empty_seg(c) for c in e["es"]))


def gen_f28_tree(rng, counter):
    """Lattices in the region of finding F28: EMPTY results (a filter removes every element) and EMPTY sub-segments (alone,
    inside a run of skippable elements that transfer_maps_merged merges, next to non-skippable elements, nested twice)."""
    def nm():
        counter[0] += 1
        return f"e{counter[0]}"

    def marker():
        return {"kind": "marker", "name": nm(), "len": 0}

    def empty():
        e = {"kind": "seg", "name": nm(), "es": []}
        for _ in range(rng.choice([0, 0, 0, 1, 2])):
            e = {"kind": "seg", "name": nm(), "es": [e]}
        return e

    def zero_leaf():
        l = zl.gen_leaf(rng, nm(), kinds=("map", "ctm", "marker"))
        l["len"] = 0
        return l

    def skippable_leaf():
        return zl.gen_leaf(rng, nm(), kinds=("map", "map", "ctm", "marker"))

    shape = rng.choice(F28_SHAPES)
    if shape == "all_markers":
        es = [marker() for _ in range(rng.randrange(1, 4))]
    elif shape == "all_zero_length":
        es = [zero_leaf() for _ in range(rng.randrange(1, 4))]
    elif shape == "empty_top":
        es = []
    elif shape == "only_empty_sub":
        es = [empty()]
    elif shape == "empty_sub_in_run":
        es = [skippable_leaf() for _ in range(rng.randrange(0, 3))] + [empty()] + [skippable_leaf() for _ in range(rng.randrange(0, 3))]
        if rng.random() < 0.3:
            es += [zl.gen_leaf(rng, nm(), kinds=("non",)), empty()]
    elif shape == "empty_sub_mixed":
        es = [zl.gen_leaf(rng, nm()) for _ in range(rng.randrange(1, 5))]
        for _ in range(rng.choice([1, 1, 2])):
            es.insert(rng.randrange(len(es) + 1), empty())
    else:   # markers_and_empty_sub: the marker filter leaves only empty sub-segments, the zero-length filter nothing
        es = [marker() for _ in range(rng.randrange(1, 3))]
        es.insert(rng.randrange(len(es) + 1), empty())
    counter[0] += 1
    return {"kind": "seg", "name": f"s{counter[0]}", "es": es}, shape


def gen_case(rng, depth):
    counter = [0]
    shape = None
    if rng.random() < 0.15:
        tree, shape = gen_f28_tree(rng, counter)
    else:
        tree = zl.gen_tree(rng, depth, 7, counter, name_pool=["dup1", "dup2"])
        if len(tree["es"]) < 2 and rng.random() < 0.8:     # merging needs a few top-level elements
            tree = zl.gen_tree(rng, depth, 7, counter, name_pool=["dup1", "dup2"])
    decorate(rng, tree)
    if shape == "all_zero_length":
        for l in zl.leaves(tree):          # an is_active attribute that is False: still removed
            if l.get("has_active"):
                l["active"] = False
    beam = zl.gen_beam(rng)
    names = [c["name"] for c in tree["es"]]
    inner = [l["name"] for c in tree["es"] if c["kind"] == "seg" for l in zl.leaves(c)]
    ex = [n for n in names if rng.random() < 0.25]
    if rng.random() < 0.3:
        ex.append("absent")
    if inner and rng.random() < 0.2:
        ex.append(rng.choice(inner))       # a nested element's name: must have no effect
    if rng.random() < 0.15 or (shape in ("all_markers", "all_zero_length") and rng.random() < 0.6):
        ex = []
    return tree, beam, ex, shape


def align_merged(orig, new, ex, changers=()):
    """Every element of the merged list is either the identical next original element, or a CustomTransferMap named
    "combined_"+"_".join(names of the next k originals), all of which are skippable and not excepted.  Returns None or
    a description of what is wrong.  `changers`: ids of the elements whose own track() changes the beam energy in some
    batch entry -- merging never merges across one of them, whatever is_skippable says."""
    import cheetah
    i = 0
    for o in new:
        if i < len(orig) and o is orig[i]:
            i += 1
            continue
        if not isinstance(o, cheetah.CustomTransferMap):
            return f"element {o.name!r} of the merged segment is neither an original element in order nor a CustomTransferMap"
        k = 1
        while i + k <= len(orig) and "combined_" + "_".join(e.name for e in orig[i:i + k]) != o.name:
            k += 1
        if i + k > len(orig):
            return f"merged element {o.name!r} is not named after a contiguous run of the original elements at position {i}"
        for e in orig[i:i + k]:
            if not e.is_skippable:
                return f"merged element {o.name!r} spans the non-skippable element {e.name!r}"
            if e.name in ex:
                return f"merged element {o.name!r} spans the excepted element {e.name!r}"
            if id(e) in changers:
                return f"merged element {o.name!r} spans the energy-changing element {e.name!r} ({type(e).__name__})"
        i += k
    if i != len(orig):
        return f"{len(orig) - i} trailing original elements are missing from the merged segment"
    return None


def excepted_ok(seg, new, ex):
    """elements named in except_for are kept as the identical objects and are addressable by name"""
    for e in seg.elements:
        if e.name in ex:
            if not any(o is e for o in new.elements):
                return f"excepted element {e.name!r} is not kept (as the same object)"
            got = getattr(new, e.name, None)
            if not (got is e or (isinstance(got, list) and any(g is e for g in got))):
                return f"excepted element {e.name!r} is not addressable by name on the result"
    return None


def int_oracle(obs, ex):
    """The property on the implementation alone, integer lattice: merged / marker-free segment tracks like the
    original, same length, excepted elements kept, merges only over skippable non-excepted runs.  While F28 is listed
    known, a transformation / length that raised TypeError (empty (sub-)segment) is skipped; after its repair every
    transformation must return and every length must exist and equal the original's."""
    import cheetah
    bad = []
    seg = obs["_seg"]
    known28 = STATE["f28_known"]
    if not known28:
        if obs["ref_len"] is None:
            bad.append(_f28_regression({"op": "length", "what": "Segment.length of the original segment raised TypeError (it holds an empty (sub-)segment)"}))
        for op in OPS:
            if obs[op] is None:
                bad.append(_f28_regression({"op": op, "what": "the transformation raised TypeError (length of an empty (sub-)segment)"}))
            elif obs[op]["len"] is None:
                bad.append(_f28_regression({"op": op, "what": "length of the result raised TypeError (empty result or empty sub-segment)",
                                            "n_elements": len(obs[op]["ds"])}))
    for op in ("merged", "markers"):
        d = obs[op]
        if d is None:
            continue
        new = obs["_obj_" + op]
        if d["out"] != obs["ref_out"]:
            bad.append({"op": op, "what": "tracking result differs from the original segment's", "got": d["out"], "expected": obs["ref_out"]})
        if obs["ref_len"] is not None and d["len"] != obs["ref_len"]:
            if d["len"] is None and known28 and len(new.elements) == 0 and obs["ref_len"] == 0:
                obs["_empty_result"] = True      # known finding F28: Segment([]).length raises
            elif d["len"] is None and not known28:
                pass                             # reported above (regression of F28)
            else:
                bad.append({"op": op, "what": "total length differs", "got": d["len"], "expected": obs["ref_len"]})
        if d["name"] != seg.name:
            bad.append({"op": op, "what": "segment name not kept", "got": d["name"], "expected": seg.name})
        w = excepted_ok(seg, new, ex)
        if w:
            bad.append({"op": op, "what": w})
    if obs["merged"] is not None:
        w = align_merged(list(seg.elements), list(obs["_obj_merged"].elements), ex)
        if w:
            bad.append({"op": "merged", "what": w})
    if obs["markers"] is not None:
        new = obs["_obj_markers"]
        for e in seg.elements:
            if not isinstance(e, cheetah.Marker) and not any(o is e for o in new.elements):
                bad.append({"op": "markers", "what": f"non-marker {e.name!r} removed"})
        for o in new.elements:
            if isinstance(o, cheetah.Marker) and o.name not in ex:
                bad.append({"op": "markers", "what": f"marker {o.name!r} not removed"})
    for op in ("zero", "drifts"):
        if obs[op] is None:
            continue
        new = obs["_obj_" + op]
        w = excepted_ok(seg, new, ex)
        if w:
            bad.append({"op": op, "what": w})
        if op == "drifts":
            if [o.name for o in new.elements] != [e.name for e in seg.elements]:
                bad.append({"op": op, "what": "element names changed"})
            if obs["ref_len"] is not None and obs[op]["len"] != obs["ref_len"] and not (obs[op]["len"] is None and not known28):
                bad.append({"op": op, "what": "total length differs", "got": obs[op]["len"], "expected": obs["ref_len"]})
        if op == "zero" and obs["ref_len"] is not None and obs[op]["len"] is not None and obs[op]["len"] != obs["ref_len"]:
            # the generated lengths are non-negative integers: whatever the filter removes has length 0
            bad.append({"op": op, "what": "total length differs", "got": obs[op]["len"], "expected": obs["ref_len"]})
    return bad


def structural(run, n_cases, depth):
    cases, terms, impl_fail = [], [], []
    known28 = STATE["f28_known"]
    tries = 0
    while len(cases) < n_cases and tries < n_cases * 4:
        tries += 1
        tree, beam, ex, shape = gen_case(run.rng, depth)
        try:
            obs = observe(tree, beam, ex)
        except zl.Inexact:
            run.count("discarded_inexact")
            continue
        top = tree["es"]
        n_merge = sum(1 for d in (obs["merged"] or {"ds": []})["ds"] if d[0] == "new")
        nontrivial = len(top) >= 2 and (n_merge > 0 or any(obs[op] and len(obs[op]["ds"]) != len(top) for op in ("markers", "zero"))
                                        or any(d[0] == "new" for d in (obs["drifts"] or {"ds": []})["ds"]))
        # F28 region: an empty sub-segment or an empty result whose length was obtained and compared is a case of its own
        empties = [op for op in OPS if obs[op] is not None and not obs[op]["ds"]]
        if has_empty_seg(tree) or empties:
            run.count("f28_region_cases")
            nontrivial = nontrivial or (not known28 and (len(top) >= 1 or bool(empties)))
        run.add_case([zl.shape_sig(tree), beam["type"], tree, beam, ex], nontrivial)
        run.count("beam_" + beam["type"])
        run.count("top_level_%d" % min(len(top), 8))
        run.count("merged_ctms_%d" % min(n_merge, 4))
        run.count("except_for_%d" % min(len(ex), 4))
        if shape:
            run.count("f28_shape_" + shape)
        if any(c["kind"] == "seg" for c in top):
            run.count("has_nested_segment")
        if any(has_empty_seg(c) for c in top):
            run.count("has_empty_subsegment")
            if obs["merged"] is not None and any(d[0] == "new" and any(c["kind"] == "seg" and has_empty_seg(c) and c["name"] in d[2].split("_") for c in top)
                                                  for d in obs["merged"]["ds"]):
                run.count("merged_run_spans_empty_subsegment")
        if not top:
            run.count("empty_top_level_segment")
        for op in OPS:
            if obs[op] is None:
                run.count(op + "_raised_TypeError_empty_subsegment")
            elif not obs[op]["ds"]:
                run.count(op + "_result_is_empty_segment")
                if obs[op]["len"] is not None:
                    run.count(op + "_empty_result_length_compared")
        if obs["ref_len"] is not None and has_empty_seg(tree):
            run.count("length_of_segment_with_empty_subsegment_compared")
        if obs["zero"] and len(obs["zero"]["ds"]) != len(top):
            run.count("zero_filter_removed_something")
        if obs["drifts"] and any(d[0] == "new" for d in obs["drifts"]["ds"]):
            run.count("as_drifts_replaced_something")
        bad = int_oracle(obs, ex)
        if obs.get("_empty_result"):
            run.count("result_is_empty_segment_length_raises")
            run.known(F28_TEXT)
        if bad:
            impl_fail.append((len(cases), bad))
        pub = {k: v for k, v in obs.items() if not k.startswith("_")}
        cases.append((tree, beam, ex, pub))
        terms.append(coq_case(tree, beam, ex, pub))
    if cases:
        run.sample({"tree": cases[0][0], "beam": cases[0][1], "except_for": cases[0][2], "observed": cases[0][3]})
    # Which transcription of Segment.length is the faithful one is decided by the status of F28 (see STATE above).  When the
    # selected checker rejects cases, the OTHER one is evaluated on the same observations to tell a stale status from a defect:
    #   F28 known + the code behaves like the repaired model everywhere -> the finding no longer reproduces: note, no alarm
    #                                                                      (the lead flips the status);
    #   F28 fixed + the code behaves like the model before the repair    -> the repaired defect is back: stays broken; the
    #                                                                      oracle / the stored input of F28 has the input.
    primary, other = ("c08_check", "c08_check_len_total") if known28 else ("c08_check_len_total", "c08_check")
    failing = common.run_shards(PID, "struct", PREAMBLE, terms, primary)
    run.cov["length_model"] = ("elen_pinned / c08_check (code before the repair of F28: the length of a segment holding an empty segment raises)"
                               if known28 else "elen_fixed / c08_check_len_total (code after the repair of F28: lengths are total, the empty sum is 0)")
    if failing:
        failing_other = common.run_shards(PID, "struct_other", PREAMBLE, terms, other)
        if not failing_other:
            if known28:
                run.notes.append(f"F28: Segment.length behaves like the REPAIRED model ({other}) on all {len(failing)} cases that disagree with {primary} "
                                 "(lengths of empty segments are 0, nothing raises); the status of F28 is stale (flip it to fixed)")
                if "F28" not in run.cov["known_findings_not_reproduced"]:
                    run.cov["known_findings_not_reproduced"].append("F28")
                failing = []
            else:
                STATE["f28_back"] = True
                run.notes.append(f"F28 is listed fixed but Segment.length behaves like the model of the code BEFORE the repair ({other}) on all "
                                 f"{len(failing)} cases that disagree with {primary}: the repaired defect is back")
    run.cov["traces_validated_against_impl"] += len(cases)
    return cases, failing, impl_fail


def shrink_tree(tree, pred):
    """Greedy: drop children anywhere in the tree while `pred(tree)` stays true."""
    changed = True
    while changed:
        changed = False

        def paths(e, p=()):
            if e["kind"] == "seg":
                for i, c in enumerate(e["es"]):
                    yield p + (i,)
                    yield from paths(c, p + (i,))
        for p in list(paths(tree)):
            t2 = copy.deepcopy(tree)
            node = t2
            for i in p[:-1]:
                node = node["es"][i]
            if p[-1] >= len(node["es"]):
                continue
            del node["es"][p[-1]]
            try:
                if pred(t2):
                    tree = t2
                    changed = True
                    break
            except Exception:
                pass
    return tree


# ---------------------------------------------------------------- class table: which classes have `is_active`
def class_table(run):
    import cheetah
    from cheetah.accelerator.element import Element
    obs = []
    for name in sorted(dir(cheetah)):
        cls = getattr(cheetah, name)
        if not (isinstance(cls, type) and issubclass(cls, Element)) or cls is Element:
            continue
        if name == "Segment":
            probe = cheetah.Segment([cheetah.Drift(torch.tensor(1.0))])
        elif name in realgen.CLASSES:
            probe = realgen.build(realgen.gen_element(run.rng, cls=name, name="probe"))
        else:
            try:
                probe = cls()
            except Exception:
                probe = cls      # unknown new class: fall back to the class object itself
        obs.append((name, hasattr(probe, "is_active")))
    term = coq_list([f"({coq_string(n)}, {'true' if h else 'false'})" for n, h in obs])
    failing = common.run_vm_cases(PID, "classtable", PREAMBLE, [term], "class_table_check")
    run.cov["traces_validated_against_impl"] += 1
    run.cov["class_table"] = {n: h for n, h in obs}
    return obs, failing


# ---------------------------------------------------------------- property oracle on real lattices
RTOL, ATOL = 1e-9, 1e-13


def has_nan(beam):
    return any(bool(torch.isnan(t).any()) or bool(torch.isinf(t).any()) for t in beam.buffers())


def spec_iter(spec):
    yield spec
    if spec["cls"] == "Segment":
        for c in spec["es"]:
            yield from spec_iter(c)


def gen_real_case(rng, n_max=6):
    lat = realgen.gen_lattice(rng, n_max=n_max, depth=2)
    bt = rng.choice(["particle", "particle", "parameter"])
    beam = realgen.gen_particle_beam(rng) if bt == "particle" else realgen.gen_parameter_beam(rng)
    names = [c["name"] for c in lat["es"]]
    ex = [n for n in names if rng.random() < 0.2]
    if rng.random() < 0.25:
        ex.append("absent")
    return lat, beam, ex


def energy_changers(seg, b):
    """ids of the top-level elements whose own track() changes the beam energy in ANY batch entry (element-wise fold of
    element.track along the lattice: decided by the tracking itself, not by is_active / is_skippable).  Only the energies
    of this fold are used (its coordinates differ from Segment.track at a switched-off cavity: finding F1)."""
    out = set()
    cur = b
    for e in seg.elements:
        try:
            nxt = e.track(cur)
            e0, e1 = torch.broadcast_tensors(torch.as_tensor(cur.energy), torch.as_tensor(nxt.energy))
            if bool(torch.any((e0 - e1).abs() > 1e-9 * e0.abs())):      # beyond the round-off of a p0c <-> energy round trip
                out.add(id(e))
            cur = nxt
        except Exception:
            break          # an element that raises alone: nothing is claimed about the rest
    return out


def batch_shape_lost(out, ref):
    """names of the outgoing tensors whose shape differs from the reference's other than by dropping leading batch
    dimensions along which the values are equal anyway (checked entry-wise by beams_close through broadcasting)"""
    import cheetah
    names = ["particles", "energy"] if isinstance(ref, cheetah.ParticleBeam) else ["_mu", "_cov", "energy"]
    bad = []
    for n in names:
        so, sr = tuple(getattr(out, n).shape), tuple(getattr(ref, n).shape)
        try:
            if tuple(torch.broadcast_shapes(so, sr)) != sr:
                bad.append((n, list(so), list(sr)))
        except RuntimeError:
            bad.append((n, list(so), list(sr)))
    return bad


def real_check(lat, beam, ex, ops=OPS, prepare=None):
    """Returns (status, failures): status 'ok' | 'skipped:<why>'; failures = list of dicts (op, what, ...).
    Works for scalar and vectorised settings (entry-wise comparisons through broadcasting).
    prepare(seg, b): a history applied to the live lattice first (its final parameter values are those of `lat`); the reference is
    then tracked by a freshly built lattice."""
    import cheetah
    try:
        seg = realgen.build(lat)
        b = realgen.build_beam(beam)
        if prepare is not None:
            prepare(seg, b)
            ref = realgen.build(lat).track(b)
        else:
            ref = seg.track(b)
    except Exception as ex_:
        return "skipped:exception:" + type(ex_).__name__, []
    if has_nan(ref):
        return "skipped:reference_nan", []      # garbage in (Bmad-X bend at angle 0 ...: finding F8 of C09): unspecified here
    known28 = STATE["f28_known"]
    try:
        L0 = torch.as_tensor(seg.length)
    except TypeError as ex_:
        # reduce() of an empty sub-segment's lengths (finding F28)
        if known28:
            return "skipped:length_raises_F28", []
        return "ok", [_f28_regression({"op": (ops[0] if len(ops) == 1 else "length"), "what": f"Segment.length of the original segment raised TypeError: {ex_}"})]
    changers = energy_changers(seg, b)
    fails = []
    for op in ops:
        try:
            new = apply_op(seg, op, b, ex)
            out = new.track(b)
        except Exception as ex_:
            f = {"op": op, "what": f"raised {type(ex_).__name__}: {ex_}"}
            fails.append(_f28_regression(f) if isinstance(ex_, TypeError) and "reduce() of empty" in str(ex_) else f)
            continue
        d = realgen.beams_close(out, ref, rtol=RTOL, atol=ATOL)
        if d:
            fails.append({"op": op, "what": "tracking result differs from the original segment's", "diffs": d, "observables": deviating(out, ref)})
        elif type(out) is type(ref):
            sh = batch_shape_lost(out, ref)
            if sh:
                fails.append({"op": op, "what": "outgoing batch shape differs from the original segment's", "shapes": sh})
        len_raised = None
        try:
            # while F28 is listed known the length of an EMPTY result is not asked for (it raises; reported through the stored
            # input of F28); after the repair it is obtained and compared like any other
            L1 = torch.as_tensor(new.length) if (len(new.elements) or not known28) else torch.zeros((), dtype=L0.dtype)
            x, y = torch.broadcast_tensors(L1.to(L0.dtype), L0)
            len_ok = bool(torch.all((x - y).abs() <= 1e-12 * torch.clamp(y.abs(), min=1.0)))
        except (TypeError, RuntimeError) as ex_:
            L1, len_ok, len_raised = None, False, ex_
        if not len_ok:
            f = {"op": op, "what": "total length differs" if len_raised is None else f"total length differs: length of the result raised {type(len_raised).__name__}: {len_raised}",
                 "got": None if L1 is None else L1.tolist(), "expected": L0.tolist()}
            fails.append(_f28_regression(f) if isinstance(len_raised, TypeError) and "reduce() of empty" in str(len_raised) else f)
        if new.name != seg.name:
            fails.append({"op": op, "what": "segment name not kept"})
        w = excepted_ok(seg, new, ex)
        if w:
            fails.append({"op": op, "what": w})
        if op == "merged":
            w = align_merged(list(seg.elements), list(new.elements), ex, changers)
            if w:
                fails.append({"op": op, "what": w})
        if op == "markers":
            for e in seg.elements:
                if not isinstance(e, cheetah.Marker) and not any(o is e for o in new.elements):
                    fails.append({"op": op, "what": f"non-marker {e.name!r} removed"})
        if op == "drifts" and [o.name for o in new.elements] != [e.name for e in seg.elements]:
            fails.append({"op": op, "what": "element names changed"})
        if op in ("zero", "drifts"):
            # an element that changes the beam energy (in any batch entry) is active: it is neither dropped nor replaced
            # (nested Segments are replaced wholesale: finding F10, classified through the tracking comparison)
            for e in seg.elements:
                if id(e) in changers and not isinstance(e, cheetah.Segment) and not any(o is e for o in new.elements):
                    fails.append({"op": op, "what": f"energy-changing element {e.name!r} ({type(e).__name__}) was "
                                  + ("removed" if op == "zero" else "replaced by a " + "/".join(type(o).__name__ for o in new.elements if o.name == e.name))})
    return "ok", fails


# signatures of the listed findings: (finding id, op, predicate on the spec of a removed / replaced top-level element, text)
def _no_is_active(spec):
    return spec["cls"] in ("SpaceChargeKick", "CustomTransferMap", "Segment", "Drift", "Marker")


def _kw(spec, k, default=None):
    return spec.get("kw", {}).get(k, default)


def _flat(v):
    if isinstance(v, (list, tuple)):
        return [x for u in v for x in _flat(u)]
    return [v]


def _allzero(v):
    """parameter value (float or nested list = vectorised setting) is zero in every batch entry"""
    return v is not None and all(x == 0.0 for x in _flat(v))


SIGNATURES = [
    ("F9", "zero", lambda s: s["cls"] == "SpaceChargeKick",
     "without_inactive_zero_length_elements drops SpaceChargeKick (class has no is_active, length 0): its kick is lost [F9]"),
    ("F9", "zero", lambda s: s["cls"] == "CustomTransferMap",
     "without_inactive_zero_length_elements drops a zero-length CustomTransferMap (class has no is_active) whatever its matrix [F9]"),
    ("F9", "zero", lambda s: s["cls"] == "Segment",
     "without_inactive_zero_length_elements drops a zero-length nested Segment (no is_active) even with active elements inside [F9]"),
    ("F10", "drifts", lambda s: s["cls"] == "CustomTransferMap",
     "inactive_elements_as_drifts replaces a CustomTransferMap (class has no is_active) by a Drift [F10]"),
    ("F10", "drifts", lambda s: s["cls"] == "Segment",
     "inactive_elements_as_drifts replaces a nested Segment (no is_active) by a Drift, active elements inside included [F10]"),
    ("F10", "drifts", lambda s: s["cls"] == "Drift" and _kw(s, "tracking_method") == "bmadx",
     "inactive_elements_as_drifts replaces a Bmad-X Drift by a linear (cheetah) Drift [F10]"),
    ("F10", "drifts", lambda s: s["cls"] == "Quadrupole" and _allzero(_kw(s, "k1")) and _kw(s, "tracking_method") == "bmadx",
     "inactive_elements_as_drifts replaces a Bmad-X Quadrupole(k1=0) by a linear (cheetah) Drift [F10]"),
    ("F10", "drifts", lambda s: s["cls"] == "Undulator" and not _kw(s, "is_active"),
     "inactive_elements_as_drifts replaces an inactive Undulator by a Drift whose R56 differs (Undulator R56 = +L/gamma^2) [F10/F3]"),
    ("F10", "drifts", lambda s: s["cls"] == "TransverseDeflectingCavity" and _allzero(_kw(s, "voltage")),
     "inactive_elements_as_drifts replaces TransverseDeflectingCavity(voltage=0) (two Bmad-X half drifts) by a linear Drift [F10]"),
    ("F10", "drifts", lambda s: s["cls"] in ("Dipole", "RBend") and _allzero(_kw(s, "angle")) and not _allzero(_kw(s, "k1")),
     "inactive_elements_as_drifts replaces Dipole/RBend(angle=0, k1!=0) by a Drift: is_active looks at the angle only, the gradient is lost [F10]"),
]


UND_TEXT = [sig[3] for sig in SIGNATURES if "inactive Undulator" in sig[3]][0]


def entry_status(text):
    """status of the known_findings.json entry of C08 with exactly this text ('known' / 'fixed' / None = not listed)"""
    st = [f.get("status") for f in common.load_known_findings(PID) if f.get("what") == text]
    if "known" in st:
        return "known"
    return st[0] if st else None


def signature_active(text):
    """A signature suppresses a failure only while its own entry is listed `known`.  Checked per entry for the Undulator
    signature: its tag is [F10/F3] and Run.known() gates on the first id (F10), which stays `known` through the other F10
    entries after finding F3 (Undulator R56) has been repaired -- an inactive Undulator IS a drift then, and a tracking
    difference after inactive_elements_as_drifts is a regression, not a known finding."""
    if text == UND_TEXT:
        return entry_status(text) == "known"
    return True


def fold_maps(e, b):
    """element-by-element reference of Segment.track: every skippable leaf through its own first-order transfer map (what a group
    of skippable elements applies), every other leaf through its own track(), sub-segments recursively"""
    import cheetah
    if isinstance(e, cheetah.Segment):
        for c in e.elements:
            b = fold_maps(c, b)
        return b
    if e.is_skippable:
        from cheetah.accelerator.element import Element
        return Element.track(e, b)
    return e.track(b)


def deviating(out, ref, rtol=RTOL, atol=ATOL):
    """WHICH observables differ: phase-space coordinates 0..5 (x, px, y, py, tau, p) of the particles / of mu, index pairs of cov,
    and the names of the other tensors (energy, charges, survival)"""
    import cheetah
    res = {"coords": [], "cov": [], "other": []}
    if type(out) is not type(ref):
        return dict(res, other=["type"])

    def bad(x, y):
        x, y = torch.broadcast_tensors(x, y)
        x, y = torch.nan_to_num(x, nan=1e300), torch.nan_to_num(y, nan=1e300)
        return (x - y).abs() > atol + rtol * torch.maximum(x.abs(), y.abs())
    try:
        if isinstance(ref, cheetah.ParticleBeam):
            m = bad(out.particles, ref.particles)
            res["coords"] = [c for c in range(6) if bool(m[..., c].any())]
            res["max_abs_diff_per_coord"] = [float((out.particles - ref.particles)[..., c].abs().max()) for c in range(6)]
            names = ["energy", "particle_charges", "survival_probabilities"]
        else:
            m = bad(out._mu, ref._mu)
            res["coords"] = [c for c in range(6) if bool(m[..., c].any())]
            mc = bad(out._cov, ref._cov)
            res["cov"] = [[i, j] for i in range(6) for j in range(i, 6) if bool(mc[..., i, j].any()) or bool(mc[..., j, i].any())]
            names = ["energy", "total_charge"]
        res["other"] = [n for n in names if bool(bad(getattr(out, n), getattr(ref, n)).any())]
    except Exception as ex_:  # noqa -- shapes that do not broadcast
        res["other"].append("shape:" + type(ex_).__name__)
    return res


def explained_by_replacement(lat, beam, ex, op):
    """WHAT a listed F9/F10 finding is allowed to explain: the difference between the original and the transformed segment that comes
    from the removed / replaced ELEMENTS.  Both segments must therefore track like their own element-by-element fold (fold_maps): a
    deviation that comes from how Segment.track treats the (unchanged) elements is not the finding.  Returns None or a text."""
    try:
        seg = realgen.build(lat)
        b = realgen.build_beam(beam)
        new = apply_op(seg, op, b, ex)
        d0 = realgen.beams_close(seg.track(b), fold_maps(seg, b), rtol=RTOL, atol=ATOL)
        d1 = realgen.beams_close(new.track(b), fold_maps(new, b), rtol=RTOL, atol=ATOL)
    except Exception as ex_:  # noqa
        return f"element-by-element reference raised {type(ex_).__name__}: {ex_}"[:200]
    if d0:
        return f"the ORIGINAL segment does not track like its elements one after another: {d0}"
    if d1:
        return f"the transformed segment does not track like its own elements one after another: {d1}"
    return None


def classify_real(lat, beam, ex, fails):
    """Split failures into (known: list of texts, new: list of failures).  A tracking failure of the zero-length /
    as-drifts filters is known iff it disappears when exactly the top-level elements matching a listed signature are
    excepted (and at least one such element is present); everything else is new.  A failure whose responsible signature
    belongs to an entry listed as fixed is new (tagged regression_of)."""
    known, new = [], []
    for f in fails:
        op = f["op"]
        if f["what"].startswith("tracking result differs") and op in ("zero", "drifts"):
            hits = [(s, sig) for s in lat["es"] if s["name"] not in ex for sig in SIGNATURES if sig[1] == op and sig[2](s)]
            if hits:
                names = sorted({s["name"] for s, _ in hits})
                st, f2 = real_check(lat, beam, list(ex) + names, ops=(op,))
                if st == "ok" and not any(x["what"].startswith("tracking result differs") for x in f2):
                    # attribute: an element is responsible iff the failure persists when all other hits are excepted
                    resp = []
                    for nm in names:
                        st3, f3 = real_check(lat, beam, list(ex) + [n for n in names if n != nm], ops=(op,))
                        if st3 != "ok" or any(x["what"].startswith("tracking result differs") for x in f3):
                            resp.append(nm)
                    resp = resp or names
                    texts = sorted({sig[3] for s, sig in hits if s["name"] in resp})
                    stale = [t for t in texts if not signature_active(t)]
                    unexplained = None if stale else explained_by_replacement(lat, beam, ex, op)
                    if stale:
                        new.append(dict(f, regression_of=stale, responsible=resp))
                    elif unexplained:
                        # the signature names WHERE (a listed class was removed / replaced); the deviation seen here is not the one the
                        # finding characterises (original and result each equal to their own element-wise fold): a new failure
                        new.append(dict(f, what=f["what"], not_the_listed_finding=unexplained, signature_hits=texts))
                    else:
                        known += texts
                    continue
        new.append(f)
    return known, new


def _what_key(what):
    """kind of a failure, without the element names (the name of a merged element changes when elements are dropped)"""
    import re
    return re.sub(r"'[^']*'", "", what.split(":")[0])


def shrink_real(lat, beam, ex, op, what):
    """drop top-level elements while the same failure persists"""
    def still(l):
        st, f = real_check(l, beam, ex, ops=(op,))
        k, n = classify_real(l, beam, ex, f)
        return any(x["op"] == op and _what_key(x["what"]) == _what_key(what) for x in n)
    changed = True
    while changed:
        changed = False
        for i in range(len(lat["es"])):
            l2 = copy.deepcopy(lat)
            del l2["es"][i]
            if l2["es"] and still(l2):
                lat, changed = l2, True
                break
    return lat


def real_oracle(run, n):
    new_fail = []
    for _ in range(n):
        lat, beam, ex = gen_real_case(run.rng)
        st, fails = real_check(lat, beam, ex)
        if st != "ok":
            run.count("real_" + st)
            continue
        run.add_case(["real", lat, beam["type"], ex], True)
        run.count("real_" + beam["type"])
        for s in lat["es"]:
            run.count("real_top_" + s["cls"])
        known, new = classify_real(lat, beam, ex, fails)
        for k in known:
            run.known(k)
            run.count("real_known_finding_hits")
        for f in new:
            new_fail.append({"kind": "real_lattice", "lattice": lat, "beam": beam, "except_for": ex, "failure": f})
    return new_fail


# ---------------------------------------------------------------- real lattices in the region of finding F28
F28_FILL = ["Drift", "Drift", "Quadrupole", "Solenoid", "HorizontalCorrector", "Marker", "BPM", "Cavity", "Aperture"]


def gen_f28_real_case(rng, i):
    """Real lattices whose results / sub-segments are EMPTY (see gen_f28_tree): all markers; zero-length inactive elements only;
    an empty sub-segment alone, between skippable elements (one merged run spans it), nested twice, next to a cavity."""
    def empty(n, depth=0):
        e = {"cls": "Segment", "name": n, "es": []}
        for k in range(depth):
            e = {"cls": "Segment", "name": f"{n}w{k}", "es": [e]}
        return e

    def fill(n):
        e = realgen.gen_element(rng, name=n, allow=F28_FILL, method="cheetah")
        if e["cls"] == "Cavity" and e["kw"]["phase"] == 90.0:          # NaN at the zero crossing (finding F90 of C09)
            e["kw"]["phase"] = 45.0
        return e
    shape = ("all_markers", "markers_and_empty_sub", "only_empty_sub", "empty_sub_in_run", "empty_sub_nested", "empty_top",
             "all_zero_length", "empty_sub_mixed")[i % 8]
    if shape == "all_markers":
        es = [{"cls": "Marker", "name": f"m{k}", "kw": {}} for k in range(rng.randrange(1, 4))]
    elif shape == "markers_and_empty_sub":
        es = [{"cls": "Marker", "name": "m0", "kw": {}}, empty("sub"), {"cls": "Marker", "name": "m1", "kw": {}}]
    elif shape == "only_empty_sub":
        es = [empty("sub", rng.choice([0, 1]))]
    elif shape == "empty_sub_in_run":
        es = [realgen.gen_element(rng, cls="Drift", name="d0", method="cheetah"), empty("sub"),
              realgen.gen_element(rng, cls="Quadrupole", name="q1", method="cheetah"), realgen.gen_element(rng, cls="Drift", name="d2", method="cheetah")]
    elif shape == "empty_sub_nested":
        es = [fill("a0"), empty("sub", 2), fill("a1")]
    elif shape == "empty_top":
        es = []
    elif shape == "all_zero_length":
        es = [{"cls": "Marker", "name": "m0", "kw": {}}, {"cls": "Drift", "name": "d0", "kw": {"length": 0.0, "tracking_method": "cheetah"}},
              {"cls": "BPM", "name": "b0", "kw": {"is_active": False}},
              {"cls": "Quadrupole", "name": "q0", "kw": {"length": 0.0, "k1": 0.0, "tracking_method": "cheetah"}}][:rng.randrange(1, 5)]
    else:
        es = [fill(f"a{k}") for k in range(rng.randrange(2, 6))]
        es.insert(rng.randrange(len(es) + 1), empty("sub"))
        if rng.random() < 0.5:
            es.insert(rng.randrange(len(es) + 1), empty("sub2", 1))
    lat = {"cls": "Segment", "name": "f28seg", "es": es}
    beam = realgen.gen_particle_beam(rng, energy=1e8) if rng.random() < 0.5 else realgen.gen_parameter_beam(rng, energy=1e8)
    names = [c["name"] for c in es]
    ex = [n for n in names if rng.random() < 0.2]
    return lat, beam, ex, shape


def f28_real_oracle(run, n):
    """the property oracle on real lattices with empty results / empty sub-segments: after the repair of F28 every
    transformation returns, the result has a length and it equals the original's; while F28 is listed known the lattices whose
    length raises are skipped (counted) and the empty results' lengths are not asked for"""
    new_fail = []
    for i in range(n):
        lat, beam, ex, shape = gen_f28_real_case(run.rng, i)
        st, fails = real_check(lat, beam, ex)
        if st != "ok":
            run.count("real_f28_" + st)
            continue
        run.add_case(["real_f28", lat, beam["type"], ex], True)
        run.count("real_f28_shape_" + shape)
        if not STATE["f28_known"]:
            run.count("real_f28_lengths_of_empty_results_or_subsegments_compared")
        known, new = classify_real(lat, beam, ex, fails)
        for k in known:
            run.known(k)
        for f in new:
            new_fail.append({"kind": "real_lattice", "lattice": lat, "beam": beam, "except_for": ex, "failure": f})
    return new_fail


# ---------------------------------------------------------------- vectorised settings
VEC_FILL = ["Drift", "Quadrupole", "Dipole", "RBend", "Solenoid", "HorizontalCorrector", "VerticalCorrector", "Cavity", "Undulator",
            "Marker", "BPM", "Aperture", "Aperture", "TransverseDeflectingCavity"]
VEC_CLASSES = ["Cavity", "Cavity", "Cavity", "Quadrupole", "Quadrupole", "Dipole", "RBend", "Solenoid", "HorizontalCorrector",
               "VerticalCorrector", "Drift"]


def _vec(rng, B, pool, mix_zero=True):
    """B entries from the pool; with mix_zero an exact 0.0 next to a non-zero value most of the time"""
    v = [rng.choice(pool) for _ in range(B)]
    if mix_zero and rng.random() < 0.7:
        nz = [x for x in pool if x != 0.0]
        v[rng.randrange(B)] = 0.0
        if all(x == 0.0 for x in v) and nz:
            i = rng.randrange(B)
            v[i] = rng.choice(nz)
            v[(i + 1) % B] = 0.0
    return v


def gen_vec_element(rng, B, cls, name):
    """A cheetah-method element with one or two parameters vectorised over a batch of B settings (mixing exact zeros with
    non-zero values): the whole-tensor predicates is_active = any(strength != 0), any(length > 0), all(length == 0) are
    decided differently by the entries of such a batch."""
    e = realgen.gen_element(rng, cls=cls, name=name, method="cheetah", length_pool=[0.25, 0.5, 1.0])
    kw = e["kw"]
    vec_len = rng.random() < 0.3
    if cls == "Cavity":
        # non-accelerating or all-accelerating batches only: a batch mixing accelerating and non-accelerating entries is NaN in
        # Cavity.track itself (finding F5 of C04) and would only be skipped as an unspecified reference
        mode = rng.choice(["decel", "decel", "decel_phase", "accel"])
        if mode == "decel":
            kw["voltage"], kw["phase"] = _vec(rng, B, [0.0, -1e6, -2e6]), rng.choice([0.0, 30.0, -20.0])
        elif mode == "decel_phase":
            kw["voltage"], kw["phase"] = _vec(rng, B, [0.0, 1e6, 2e6]), rng.choice([180.0, 150.0, -160.0])
        else:
            kw["voltage"], kw["phase"] = _vec(rng, B, [1e6, 5e6, 2e7], mix_zero=False), rng.choice([0.0, 30.0, -20.0])
        if vec_len:
            kw["length"] = _vec(rng, B, [0.25, 0.5, 1.0], mix_zero=False)
    elif cls == "Quadrupole":
        if rng.random() < 0.8:
            kw["k1"] = _vec(rng, B, [0.0, 2.0, -3.0, 0.5])
        else:
            vec_len = True
        if vec_len:
            kw["length"] = _vec(rng, B, [0.0, 0.25, 0.5])
    elif cls in ("Dipole", "RBend"):
        kw["angle"] = _vec(rng, B, [0.0, 0.1, -0.02, 0.3])
        if rng.random() < 0.3:
            kw["k1"] = _vec(rng, B, [0.0, 0.5, -1.0])
        if vec_len:
            kw["length"] = _vec(rng, B, [0.0, 0.5, 1.0])
    elif cls == "Solenoid":
        kw["k"] = _vec(rng, B, [0.0, 0.5, -1.0, 3.0])
        if vec_len:
            kw["length"] = _vec(rng, B, [0.0, 0.25, 0.5])
    elif cls in ("HorizontalCorrector", "VerticalCorrector"):
        if rng.random() < 0.8:
            kw["angle"] = _vec(rng, B, [0.0, 1e-3, -2e-3, 0.01])
        else:
            vec_len = True
        if vec_len:
            kw["length"] = _vec(rng, B, [0.0, 0.1, 0.5])
    elif cls == "Drift":
        kw["length"] = _vec(rng, B, [0.0, 0.5, 1.0])
    return e


def gen_vec_case(rng):
    B = rng.choice([2, 2, 3])
    n = rng.randrange(3, 8)
    where = set(rng.sample(range(n), rng.choice([1, 1, 2])))
    es = []
    for i in range(n):
        if i in where:
            es.append(gen_vec_element(rng, B, rng.choice(VEC_CLASSES), f"el{i}"))
        else:
            es.append(realgen.gen_element(rng, name=f"el{i}", allow=VEC_FILL, method="cheetah"))
    bt = rng.choice(["particle", "parameter"])
    for i, e in enumerate(es):
        if e["cls"] == "TransverseDeflectingCavity" and bt == "parameter":      # Bmad-X tracking asserts a ParticleBeam
            es[i] = e = realgen.gen_element(rng, cls="Drift", name=e["name"], method="cheetah")
        if e["cls"] == "Cavity" and e["kw"]["phase"] == 90.0:                    # NaN at the zero crossing (finding F90 of C09)
            e["kw"]["phase"] = 45.0
    lat = {"cls": "Segment", "name": "vseg", "es": es}
    energy = rng.choice([2e7, 1e8, 6e9])
    beam = realgen.gen_particle_beam(rng, energy=energy) if bt == "particle" else realgen.gen_parameter_beam(rng, energy=energy)
    ex = [c["name"] for c in es if rng.random() < 0.15]
    if rng.random() < 0.2:
        ex.append("absent")
    return lat, beam, ex, B


def vec_oracle(run, n):
    """the property oracle on real lattices with vectorised settings (batch of 2-3 settings on one or two elements), both
    beam types, all four optimisations"""
    new_fail = []
    for _ in range(n):
        lat, beam, ex, B = gen_vec_case(run.rng)
        st, fails = real_check(lat, beam, ex)
        if st != "ok":
            run.count("vec_" + st)
            continue
        run.add_case(["vec", lat, beam["type"], ex], True)
        run.count("vec_" + beam["type"])
        run.count("vec_batch_%d" % B)
        for s in lat["es"]:
            for k, v in s["kw"].items():
                if isinstance(v, list) and k in ("voltage", "k1", "k", "angle", "length"):
                    z = [x == 0.0 for x in v]
                    run.count("vec_%s_%s_%s" % (s["cls"], k, "mixed_zero_nonzero" if any(z) and not all(z) else "all_zero" if all(z) else "all_nonzero"))
        known, new = classify_real(lat, beam, ex, fails)
        for k in known:
            run.known(k)
            run.count("vec_known_finding_hits")
        for f in new:
            new_fail.append({"kind": "real_lattice", "lattice": lat, "beam": beam, "except_for": ex, "failure": f})
    return new_fail


# ---------------------------------------------------------------- a zero-strength element ALONE between non-mergeable neighbours
LONE_CLASSES = ["Cavity", "Quadrupole", "Dipole", "RBend", "Solenoid", "HorizontalCorrector", "VerticalCorrector", "Undulator", "Marker", "Drift"]
LONE_NEIGHBOURS = ["bpm", "screen", "cavity", "aperture", "edge"]


def gen_lone_element(rng, cls, name):
    """a skippable element of class `cls` at zero strength (cheetah tracking)"""
    e = realgen.gen_element(rng, cls=cls, name=name, method="cheetah", length_pool=[0.25, 0.5, 1.0, 2.0])
    kw = e["kw"]
    if cls == "Cavity":
        kw["voltage"] = 0.0
        if kw["phase"] == 90.0:
            kw["phase"] = 45.0
    elif cls == "Quadrupole":
        kw["k1"] = 0.0
    elif cls in ("Dipole", "RBend"):
        kw["angle"] = 0.0
        if rng.random() < 0.8:
            kw["k1"] = 0.0          # (angle 0, k1 != 0) is the listed finding F10: kept in, rarely
    elif cls == "Solenoid":
        kw["k"] = 0.0
    elif cls in ("HorizontalCorrector", "VerticalCorrector"):
        kw["angle"] = 0.0
    elif cls == "Undulator":
        kw["is_active"] = False
    return e


def gen_lone_case(rng, i):
    """[run of live elements] N X N [X N ...] [run]: every X is a zero-strength skippable element whose temporary group in
    Segment.track has exactly one member, every N cannot be merged (active BPM / Screen / Cavity / Aperture) or is the start / end of the
    line; a few MeV, energy spread and bunch length of 1e-2 / 1e-3, so that second-order terms in tau are far above the tolerance"""
    n_ctr = [0]

    def nb(kind):
        n_ctr[0] += 1
        nm = f"n{n_ctr[0]}"
        if kind == "bpm":
            return {"cls": "BPM", "name": nm, "kw": {"is_active": True}}
        if kind == "screen":
            return {"cls": "Screen", "name": nm, "kw": {"resolution": [8, 8], "pixel_size": [1e-3, 1e-3], "binning": 1, "misalignment": [0.0, 0.0],
                                                       "is_blocking": False, "is_active": True}}
        if kind == "cavity":
            return {"cls": "Cavity", "name": nm, "kw": {"length": rng.choice([0.5, 1.0]), "voltage": rng.choice([1e6, 2e6, 4e6]), "phase": rng.choice([0.0, 30.0, -20.0]),
                                                       "frequency": 1.3e9}}
        return {"cls": "Aperture", "name": nm, "kw": {"x_max": rng.choice([2e-3, 1.0, float("inf")]), "y_max": rng.choice([2e-3, 1.0, float("inf")]),
                                                     "shape": rng.choice(["rectangular", "elliptical"]), "is_active": True}}

    def live(nm):
        if rng.random() < 0.5:
            return {"cls": "Quadrupole", "name": nm, "kw": {"length": 0.2, "k1": rng.choice([2.0, -3.0, 0.5]), "tracking_method": "cheetah"}}
        return {"cls": "Drift", "name": nm, "kw": {"length": rng.choice([0.3, 0.5]), "tracking_method": "cheetah"}}
    n_lone = rng.choice([1, 1, 2, 3])
    classes = [LONE_CLASSES[(i + j) % len(LONE_CLASSES)] if j == 0 else rng.choice(LONE_CLASSES) for j in range(n_lone)]
    first = LONE_NEIGHBOURS[(i // len(LONE_CLASSES)) % len(LONE_NEIGHBOURS)] if rng.random() < 0.6 else rng.choice(LONE_NEIGHBOURS)
    es = []
    if first != "edge":
        es += [live(f"a{k}") for k in range(rng.randrange(0, 3))] + [nb(first)]
    lone = []
    for j, cls in enumerate(classes):
        es.append(gen_lone_element(rng, cls, f"x{j}"))
        lone.append(f"x{j}")
        last = j == len(classes) - 1
        kind = rng.choice(LONE_NEIGHBOURS if last else LONE_NEIGHBOURS[:-1])
        if kind != "edge":
            es.append(nb(kind))
            if last:
                es += [live(f"z{k}") for k in range(rng.randrange(0, 3))]
    bt = ["particle", "parameter"][(i // 2) % 2] if rng.random() < 0.7 else rng.choice(["particle", "parameter"])
    energy = rng.choice([2e6, 4e6, 6e6, 1e7])
    if bt == "particle":
        beam = realgen.gen_particle_beam(rng, n=rng.choice([3, 5]), energy=energy, scale=1e-3, delta_scale=1e-2)
        beam["survival"] = [1.0 if k == 0 else v for k, v in enumerate(beam["survival"])]
    else:
        beam = realgen.gen_parameter_beam(rng, energy=energy, scale=1e-3)
        beam["mu"][5] *= 10.0                      # energy offset and spread of 1e-2
        for k in range(6):
            beam["cov"][5][k] *= 10.0
            beam["cov"][k][5] *= 10.0
    ex = [n for n in lone if rng.random() < 0.1]
    if rng.random() < 0.15:
        ex.append("absent")
    return {"cls": "Segment", "name": "lone", "es": es}, beam, ex, classes, first


def lone_oracle(run, n):
    """the property oracle on real lattices in which every skippable class at zero strength sits alone between non-mergeable
    neighbours, low energy, beam with energy spread, both beam types, all four optimisations, all six coordinates / moments"""
    new_fail = []
    for i in range(n):
        lat, beam, ex, classes, first = gen_lone_case(run.rng, i)
        st, fails = real_check(lat, beam, ex)
        if st != "ok":
            run.count("lone_" + st)
            continue
        run.add_case(["lone", lat, beam["type"], ex], True)
        run.count("lone_" + beam["type"])
        run.count("lone_first_neighbour_" + first)
        for c in classes:
            run.count("lone_" + c)
        known, new = classify_real(lat, beam, ex, fails)
        for k in known:
            run.known(k)
            run.count("lone_known_finding_hits")
        for f in new:
            new_fail.append({"kind": "real_lattice", "lattice": lat, "beam": beam, "except_for": ex, "failure": f})
    return new_fail

# ---------------------------------------------------------------- optimisations after a history on the same lattice object (round 8, C08-10)
STRENGTH_ATTR = {"Quadrupole": "k1", "Dipole": "angle", "RBend": "angle", "Solenoid": "k", "HorizontalCorrector": "angle",
                 "VerticalCorrector": "angle", "Cavity": "voltage", "TransverseDeflectingCavity": "voltage"}


def _walk(seg):
    import cheetah
    for e in seg.elements:
        if isinstance(e, cheetah.Segment):
            yield from _walk(e)
        else:
            yield e


def switched_off_history(seg, b):
    """every powered element is first switched off (strength 0; diagnostics and apertures inactive), every optimisation is applied
    and the lattice tracked - so whatever the code derives from the parameters (`is_active`, `is_skippable`, cached maps) has been
    read in that state - and then the final values are assigned again.  A derived quantity that is cached at first use and not
    invalidated by the assignment makes the optimisations treat a powered element as switched off."""
    saved = []
    for e in _walk(seg):
        a = STRENGTH_ATTR.get(type(e).__name__)
        if a is not None and isinstance(getattr(e, a, None), torch.Tensor):
            v = getattr(e, a).clone()
            saved.append((e, a, v))
            setattr(e, a, torch.zeros_like(v))
        elif type(e).__name__ in ("Aperture", "Screen", "BPM") and isinstance(getattr(e, "is_active", None), bool):
            saved.append((e, "is_active", e.is_active))
            e.is_active = False
    for op in OPS:
        try:
            apply_op(seg, op, b, []).track(b)
        except Exception:
            pass
    try:
        seg.track(b)
    except Exception:
        pass
    for e, a, v in saved:
        setattr(e, a, v)
    return len(saved)


def history_oracle(run, n):
    """real lattices (random and lone-element generators) whose powered elements went through switched_off_history: all four
    optimisations of the live lattice vs a freshly built lattice with the same final values"""
    new_fail = []
    for i in range(n):
        if i % 2:
            lat, beam, ex = gen_real_case(run.rng)
        else:
            lat, beam, ex, _, _ = gen_lone_case(run.rng, i)
        st, fails = real_check(lat, beam, ex, prepare=switched_off_history)
        if st != "ok":
            run.count("history_" + st)
            continue
        run.add_case(["history", lat, beam["type"], ex], True)
        run.count("history_" + beam["type"])
        known, new = classify_real(lat, beam, ex, fails)
        for k in known:
            run.known(k)
            run.count("history_known_finding_hits")
        for f in new:
            new_fail.append({"kind": "real_lattice_after_history", "lattice": lat, "beam": beam, "except_for": ex, "failure": f,
                             "history": "every powered element switched off, all four optimisations applied and tracked, final values "
                                        "assigned again, then the optimisation under test (see switched_off_history in harness/props/c08.py)"})
    return new_fail



def zl_len(seg):
    try:
        return torch.as_tensor(seg.length).tolist()
    except Exception as ex:
        return f"{type(ex).__name__}"


def replay_known(run):
    """known + still failing -> KNOWN-FINDING; known + passing -> note; fixed + failing again -> VIOLATION with the stored input.
    Returns the texts of the fixed entries that regressed."""
    regressed = []
    for f in common.load_known_findings(PID):
        r = f.get("replay")
        if f.get("status") == "fixed" and r and "lattice" in r:
            run.cov.setdefault("fixed_findings_replayed", []).append(f["id"] + ":" + f["what"][:60])
            try:
                if r.get("expect") == "length_raises":
                    try:
                        apply_op(realgen.build(r["lattice"]), r["op"], realgen.build_beam(r["beam"]), r.get("except_for", [])).length
                        fails = []
                    except TypeError as ex:
                        fails = [{"op": r["op"], "what": f"length raises TypeError: {ex}"}]
                else:
                    st, fails = real_check(r["lattice"], r["beam"], r.get("except_for", []), ops=(r["op"],))
                    if st != "ok":
                        run.notes.append(f"stored input of fixed finding {f['id']} could not be replayed: {st}")
                    fails = [x for x in fails if x["what"].startswith("tracking result differs")] if st == "ok" else []
            except Exception as ex:
                fails = [{"op": r.get("op"), "what": f"exception {type(ex).__name__}: {ex}"}]
            if fails:
                regressed.append(f["what"])
                run.violation({"kind": "real_lattice", "regression_of": f["id"], "what": "fixed finding fails again on its stored input: " + f["what"],
                               "lattice": r["lattice"], "beam": r["beam"], "except_for": r.get("except_for", []), "op": r["op"], "failures": fails,
                               "relation": "transformed segment tracks like the original (rtol 1e-9), same length, excepted elements kept"})
            continue
        if f.get("status") != "known":
            continue
        if r.get("expect") == "length_raises":
            try:
                new = apply_op(realgen.build(r["lattice"]), r["op"], realgen.build_beam(r["beam"]), r.get("except_for", []))
                new.length
                run.cov["known_findings_not_reproduced"].append(f["id"] + ":" + f["what"][:60])
                run.notes.append(f"{f['id']}: the stored input no longer fails (the length of the empty result is {zl_len(new)}); "
                                 f"the status of {f['id']} is stale (flip it to fixed)")
            except TypeError:
                run.known(f["what"])
            continue
        st, fails = real_check(r["lattice"], r["beam"], r.get("except_for", []), ops=(r["op"],))
        if any(x["what"].startswith("tracking result differs") for x in fails):
            run.known(f["what"])
        else:
            run.cov["known_findings_not_reproduced"].append(f["id"] + ":" + f["what"][:60])
    return regressed


# ---------------------------------------------------------------- main
def main(tier, replay=None):
    run = common.Run(PID, tier)
    common.setup_python_env()
    thorough = tier == "thorough"
    STATE["f28_known"] = f28_known()
    run.cov["rule"] = ("random integer-valued element trees (depth<=%d; nested/empty sub-segments, repeated names; 15%% of them aimed at empty results and "
                       "empty sub-segments: all markers, zero-length inactive elements only, an empty (nested) sub-segment alone / inside a merged run / "
                       "next to non-skippable elements / excepted; leaves: energy-dependent skippable "
                       "test maps, CustomTransferMap, Marker, non-linear energy-changing non-skippable test element; half of the test leaves carry an "
                       "is_active attribute) x both beam types x random except_for lists (subsets of top-level names, absent names, nested names): the "
                       "element lists (identity of kept objects, names, lengths, merged matrices), tracking results and lengths of "
                       "transfer_maps_merged / without_inactive_markers / without_inactive_zero_length_elements / inactive_elements_as_drifts are compared "
                       "exactly with vm_compute of the Coq model; plus the property oracle on random real lattices, scalar and with vectorised settings "
                       "(batch of 2-3 values of voltage / k1 / k / angle / length on one or two elements, zeros mixed with non-zero values). Non-trivial = >=2 top-level elements "
                       "and at least one transformation changed the element list (after the repair of F28 also: an empty result or empty sub-segment whose length "
                       "was compared); distinct by full case content." % (5 if thorough else 3))
    if replay:
        return do_replay(run, replay)
    proof_ok = run.proof_stage()
    # second tie (structural): segment.py, CustomTransferMap.from_merging_elements and Element.track are re-translated from
    # REPO's source text and proved equal to Lattice/{Track,Merge,Filter}.v / Beam/Moments.v (Gen/SegGenEquiv.v)
    import translate_stage
    trs = translate_stage.translator_obligation_seg(run)
    if trs["status"] != "ok":
        run.notes.append("translator obligation (segment): " + json.dumps(translate_stage.replay_fields_seg(trs))[:600])
    if not proof_ok:
        run.notes.append(run.proof_problem)

    table, table_fail = class_table(run)
    cases, failing, impl_fail = structural(run, 1500 if thorough else 250, 5 if thorough else 3)
    run.cov["undulator_as_drift"] = ("known finding [F10/F3]: an inactive Undulator is not a drift (R56)" if signature_active(UND_TEXT)
                                     else "an inactive Undulator must track like the Drift that replaces it (finding F3 repaired)")
    new_real = real_oracle(run, 1500 if thorough else 150)
    new_real += vec_oracle(run, 600 if thorough else 60)
    new_real += f28_real_oracle(run, 160 if thorough else 24)
    # zero-strength skippable elements ALONE between non-mergeable neighbours at a few MeV (after the older stages, which keep their random stream)
    new_real += lone_oracle(run, 600 if thorough else 60)
    new_real += history_oracle(run, 400 if thorough else 40)
    regressed = replay_known(run)
    # failures already reported through the stored input of a fixed entry are not reported a second time
    new_real = [it for it in new_real if not (it["failure"].get("regression_of") and set(it["failure"]["regression_of"]) <= set(regressed))]
    n_impl = len(impl_fail)
    impl_fail = [(i, bad) for i, bad in impl_fail if not all(x.get("regression_of") and set(x["regression_of"]) <= set(regressed) for x in bad)]
    if n_impl != len(impl_fail):
        run.count("integer_cases_failing_only_by_the_regression_reported_with_the_stored_input", n_impl - len(impl_fail))
    if failing and STATE["f28_back"] and F28_TEXT in regressed:
        failing = []      # the disagreement IS the repaired defect F28, back: reported above with its stored input
    run.cov["tested_only"] = ["tracking before/after each transformation on real lattices (float64, rtol 1e-9)",
                              "identity of excepted objects and getattr(segment, name) addressability (Python object identity is outside the model)",
                              "vectorised settings: real lattices with a batch of 2-3 settings on one or two elements (cavity voltages, k1, k, angles, lengths "
                              "mixing exact zeros with non-zero values), entry-wise comparison, batch shape, no merge / drift replacement of an element "
                              "that changes the energy in any batch entry (the Coq model is scalar)",
                              "zero-strength skippable elements (Cavity V=0, Quadrupole k1=0, Dipole / RBend angle=0, Solenoid k=0, correctors angle 0, inactive "
                              "Undulator, Marker, Drift) each ALONE between non-mergeable neighbours (active BPM / Screen / Cavity / Aperture, start / end of line) "
                              "at 2-10 MeV with energy spread 1e-2: all six coordinates / moments of the original vs the four transformed segments (rtol 1e-9)",
                              "a tracking difference is attributed to a listed F9/F10 signature only if the original and the transformed segment each track like "
                              "their own elements one after another (skippable elements through their transfer maps): the finding explains the replaced element, "
                              "nothing else"]

    # ---- verdict
    if impl_fail:
        i, bad = impl_fail[0]
        tree, beam, ex, obs = cases[i]
        bad = [x for x in bad if not (x.get("regression_of") and set(x["regression_of"]) <= set(regressed))] or bad
        op, what = bad[0]["op"], bad[0]["what"]

        def pred(t):
            o = observe(t, beam, ex)
            return any(x["op"] == op for x in int_oracle(o, ex))
        tree = shrink_tree(tree, pred)
        o = observe(tree, beam, ex)
        run.violation({"kind": "integer_lattice", "tree": tree, "beam": beam, "except_for": ex, "failures": int_oracle(o, ex),
                       "relation": "transformed segment tracks like the original, same length, excepted elements kept, merges only over skippable runs"})
    elif new_real:
        item = new_real[0]
        hist = item.get("history")
        if hist:
            lat = item["lattice"]
            st, fails = real_check(lat, item["beam"], item["except_for"], ops=(item["failure"]["op"],), prepare=switched_off_history)
        else:
            lat = shrink_real(item["lattice"], item["beam"], item["except_for"], item["failure"]["op"], item["failure"]["what"])
            st, fails = real_check(lat, item["beam"], item["except_for"], ops=(item["failure"]["op"],))
        run.violation({"kind": "real_lattice", "lattice": lat, "beam": item["beam"], "except_for": item["except_for"], "op": item["failure"]["op"],
                       **({"history": hist} if hist else {}),
                       "failures": fails, "relation": "transformed segment tracks like the original (rtol 1e-9, entry-wise and with the same batch shape in vectorised "
                       "settings), same length, excepted elements kept, no merge across / drift replacement of an element that changes the beam energy in any batch entry"})
    elif failing or table_fail:
        if failing:
            tree, beam, ex, obs = cases[failing[0]]
            # look harder for a failing input around the disagreeing case before giving up
            extra = real_oracle(run, 100)
            if extra:
                run.violation(dict(extra[0], relation="transformed segment tracks like the original"))
            else:
                run.violation({"kind": "correspondence", "broken": "coq model Lattice/ZOps.v (c08_check) disagrees with Segment on this case",
                               "tree": tree, "beam": beam, "except_for": ex, "observed": obs}, no_input=True)
        else:
            run.violation({"kind": "class_table", "broken": "Filter.class_has_is_active differs from the live classes", "observed": table}, no_input=True)
    elif trs["status"] != "ok":
        # the structural source no longer translates to the proved model; none of this run's oracles found a failing input
        run.violation(translate_stage.replay_fields_seg(trs), no_input=True)
    elif not proof_ok:
        run.violation({"kind": "proof", "broken": run.proof_problem}, no_input=True)
    return run.finish("proof")


def do_replay(run, path):
    r = json.loads(open(path).read())
    STATE["f28_known"] = f28_known()
    if r.get("kind") in ("integer_lattice", "correspondence"):
        o = observe(r["tree"], r["beam"], r["except_for"])
        bad = int_oracle(o, r["except_for"])
        print("replay:", "property holds on this input" if not bad else f"property FAILS on this input: {json.dumps(bad, default=str)[:1500]}")
        return 1 if bad else 0
    if r.get("kind") == "real_lattice" or "lattice" in r:
        ops = (r["op"],) if r.get("op") else OPS
        st, fails = real_check(r["lattice"], r["beam"], r.get("except_for", []), ops=ops, prepare=switched_off_history if r.get("history") else None)
        print("replay:", "property holds on this input" if not fails else f"property FAILS on this input: {json.dumps(fails, default=str)[:1500]}")
        return 1 if fails else 0
    print("replay: nothing to re-run (" + str(r.get("broken")) + ")")
    return 1
