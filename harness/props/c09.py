"""C09 -- A switched-off element behaves as a drift of the same length.

Stages: proof (Props/C09.v) -> oracle on the implementation alone (Element(strength=0).track vs Drift.track, finiteness,
identity at zero length, continuity strength -> 0) -> correspondence of the Coq model with the code (transfer maps at zero
strength and the Cavity.track extras, `interval` goals; definedness channel for Bmad-X) -> known findings -> verdict."""
import json
import math

import torch

import common
import realgen
from common import dyadic

PID = "C09"
ME = 510998.95069          # Optics/Maps.v m_e ; asserted against cheetah on every run
C_LIGHT = 299792458.0
PREAMBLE = """From Coq Require Import Reals Lra.
From Interval Require Import Tactic.
From Cheetah Require Import Base.Mat Optics.Maps Optics.Off Optics.OffProofs Optics.OffElems Optics.OffRefute Optics.OffClasses Optics.OffMain Optics.OffCorr Optics.UndFixed.
Open Scope R_scope.
Ltac me := unfold m_e; lra.
Ltac entries := unfold m7close, v7close, blockdiag, row, drift_r56_closed, T566_closed, ig_closed, m_e; cbn [c0 c1 c2 c3 c4 c5 c6]; repeat split; interval with (i_prec 80).
Ltac scalar := unfold drift_r56_closed, T566_closed, ig_closed, m_e, row; cbn [c0 c1 c2 c3 c4 c5 c6]; interval with (i_prec 80)."""

LINEAR = ["Quadrupole", "Dipole", "RBend", "Solenoid", "HorizontalCorrector", "VerticalCorrector", "Cavity", "Undulator"]
BMADX = ["Quadrupole", "Dipole", "RBend", "TransverseDeflectingCavity"]
GUARDED = {"Quadrupole", "Dipole", "RBend", "Cavity"}          # cheetah method: k1 == 0 -> 1e-12 in base_rmatrix
STRENGTH = {"Quadrupole": "k1", "Dipole": "angle", "RBend": "angle", "Solenoid": "k", "HorizontalCorrector": "angle",
            "VerticalCorrector": "angle", "Cavity": "voltage", "TransverseDeflectingCavity": "voltage"}
F1 = "Cavity(voltage=0).track adds T566*delta^2 (T566 = 1.5 L igamma2/beta^3) to tau / mu[4]: not a drift [F1]"
F2 = "Cavity(voltage=0).track(ParameterBeam) overwrites cov[4,4], cov[4,5], cov[5,4] with T566*cov55^2 (even at length 0) [F2]"
F3 = "Undulator R56 = +L/gamma^2 but a drift has -L/(beta^2 gamma^2): tau / mu[4] / cov[4,:] differ from Drift [F3]"
F3_BACK = "Undulator differs from Drift of the same length in tau / mu[4] / cov[4,:] (R56): finding F3, listed as fixed, is back"
# finding F3 (Undulator R56): while it is listed `known` for C09 the faithful model of the Undulator row is und_map (the code
# before the repair, refuted: C09_undulator_off_refuted) and a longitudinal deviation from the drift is the known finding; once
# it is flipped to `fixed` the faithful model is und_map_fixed (= drift_map, C09_off_is_drift_like_fixed has no exclusion)
# and the same deviation is a VIOLATION.  Set in main() from known_findings.json.
STATE = {"f3_known": True}


def f3_known():
    return any(f["id"] == "F3" and f.get("status") == "known" for f in common.load_known_findings(PID))
F8A = "Bmad-X Dipole/RBend with angle=0 returns NaN (g = 0 => 0/0 in _bmadx_body) [F8]"
F8B = "Bmad-X Quadrupole with length=0 returns NaN (k1 = b1/(length*rel_p) = 0/0) [F8]"
F8C = "Bmad-X Dipole/RBend with length=0 returns NaN (g = angle/length) [F8]"
F90 = "Cavity(voltage != 0, phase = +-90 deg) returns NaN x, y, tau for every voltage (Ep = 0 => Ei/Ep = inf times sin(0)): the limit voltage -> 0 does not exist at the zero crossing [F90]"


# ---------------------------------------------------------------- generation
def rnd(rng, lo, hi, digits=4):
    return round(rng.uniform(lo, hi), digits)


def gen_energy(rng):
    e = 10 ** rng.uniform(math.log10(1.5e6), math.log10(5e10))
    return float(f"{e:.5e}")


def gen_length(rng, kind):
    if kind == "zero":
        return 0.0
    if kind == "tiny":
        return rng.choice([1e-9, 1e-6, 2.5e-4])
    return rng.choice([0.1, 0.25, 0.5, 1.0, 2.0, 5.0, rnd(rng, 0.05, 3.0)])


def gen_mis(rng):
    return rng.choice([[0.0, 0.0], [rnd(rng, -3e-3, 3e-3, 5), 0.0], [0.0, rnd(rng, -3e-3, 3e-3, 5)],
                       [rnd(rng, -3e-3, 3e-3, 5), rnd(rng, -3e-3, 3e-3, 5)]])


def gen_tilt(rng):
    return rng.choice([0.0, rnd(rng, -1.5, 1.5), math.pi / 4, math.pi / 2, -0.3])


def gen_element(rng, cls, method, lkind):
    """Zero-strength element spec (realgen format) with random values of every non-strength parameter."""
    L = gen_length(rng, lkind)
    if cls == "Quadrupole":
        kw = dict(length=L, k1=0.0, misalignment=gen_mis(rng), tilt=gen_tilt(rng), num_steps=rng.choice([1, 2, 5]), tracking_method=method)
    elif cls in ("Dipole", "RBend"):
        e = "dipole_e" if cls == "Dipole" else "rbend_e"
        kw = dict(length=L, angle=0.0, k1=0.0, tilt=gen_tilt(rng), gap=rng.choice([0.0, 0.02, 0.05]),
                  fringe_integral=rng.choice([0.0, 0.5, 0.3]), fringe_at=rng.choice(["both", "neither", "entrance", "exit"]),
                  tracking_method=method)
        kw[e + "1"] = rng.choice([0.0, rnd(rng, -0.4, 0.4)])
        kw[e + "2"] = rng.choice([0.0, rnd(rng, -0.4, 0.4)])
        if rng.random() < 0.5:
            kw["gap_exit"] = rng.choice([0.0, 0.03])
            kw["fringe_integral_exit"] = rng.choice([0.0, 0.4])
    elif cls == "Solenoid":
        kw = dict(length=L, k=0.0, misalignment=gen_mis(rng))
    elif cls in ("HorizontalCorrector", "VerticalCorrector"):
        kw = dict(length=L, angle=0.0)
    elif cls == "Cavity":
        kw = dict(length=L, voltage=0.0, phase=rng.choice([0.0, 30.0, -90.0, rnd(rng, -180, 180, 1)]), frequency=rng.choice([0.0, 1.3e9, 2.998e9]))
    elif cls == "Undulator":
        kw = dict(length=L, is_active=rng.choice([False, True]))
    elif cls == "TransverseDeflectingCavity":
        kw = dict(length=L, voltage=0.0, phase=rng.choice([0.0, 0.25, rnd(rng, -1, 1, 2)]), frequency=rng.choice([1e9, 2.856e9]),
                  misalignment=gen_mis(rng), tilt=gen_tilt(rng), num_steps=rng.choice([1, 3]), tracking_method="bmadx")
    else:
        raise ValueError(cls)
    return {"cls": cls, "name": "e", "kw": kw}


def gen_beam(rng, btype, energy):
    if btype == "particle":
        n = rng.choice([1, 2, 4])
        ps = []
        for _ in range(n):
            sc = rng.choice([1e-4, 1e-3, 4e-3])
            ps.append([rnd(rng, -2e-3, 2e-3, 6), rnd(rng, -sc, sc, 7), rnd(rng, -2e-3, 2e-3, 6), rnd(rng, -sc, sc, 7),
                       rnd(rng, -1e-3, 1e-3, 6), rnd(rng, -1e-2, 1e-2, 5), 1.0])
        if rng.random() < 0.2:
            ps[0] = [0.0] * 6 + [1.0]
        return {"type": "particle", "particles": ps, "energy": energy, "charges": [rng.choice([1e-12, 3e-13, 0.0]) for _ in range(n)],
                "survival": [rng.choice([1.0, 1.0, 0.5, 0.0]) for _ in range(n)]}
    b = realgen.gen_parameter_beam(rng, energy=energy, scale=rng.choice([1e-3, 3e-3]))
    return b


def method_of(spec):
    if spec["cls"] == "TransverseDeflectingCavity":
        return "bmadx"
    return spec["kw"].get("tracking_method", "cheetah")


def drift_spec(spec):
    return {"cls": "Drift", "name": "d", "kw": {"length": spec["kw"]["length"], "tracking_method": method_of(spec)}}


# ---------------------------------------------------------------- tolerances (derived from the inputs)
def guard_eps(L, amx=0.0, amy=0.0, kappa=1e-12):
    """the proved bound (C09_quad_off_bound etc.): 1.02 kappa (L + L^2 + L^3) (1 + |mx| + |my|)"""
    return 1.02 * kappa * (L + L * L + L ** 3) * (1 + amx + amy)


def coord_scales(spec, X, energy):
    """natural magnitude of each output coordinate for incoming rows X (n,7): everything that is added up to form it"""
    L = float(spec["kw"]["length"])
    mis = spec["kw"].get("misalignment", [0.0, 0.0])
    amx, amy = abs(mis[0]), abs(mis[1])
    g = energy / ME
    ig = 1 / g ** 2
    b2 = 1 - ig
    A = X.abs()
    x, px, y, py, tau, d = (A[:, i] for i in range(6))
    s = torch.zeros_like(A)
    if method_of(spec) == "cheetah":
        s[:, 0] = x + amx + amy + L * (px + py)      # tilt mixes the planes
        s[:, 2] = y + amx + amy + L * (px + py)
        s[:, 1] = px + py
        s[:, 3] = px + py
        s[:, 4] = tau + L * ig / b2 * d
        s[:, 5] = d
    else:
        P = 1 - 1.3 * d
        u = (px ** 2 + py ** 2) / P ** 2
        s[:, 0] = x + y + amx + amy + L * (px + py) / P * (1 + u)
        s[:, 2] = s[:, 0]
        s[:, 1] = px + py
        s[:, 3] = px + py
        s[:, 4] = tau + L * (4 * ig / b2 * d + u) + 1e-6 * L
        s[:, 5] = d + 1e-3
    return s


def coord_tol(spec, X, energy, strength_kappa=None):
    """(n,7) tolerance for |Element(0).track - Drift.track|: round-off, plus the proved guard bound where the code
    substitutes 1e-12 for k1 = 0, plus the paraxial (third-order) remainder of the Bmad-X quadrupole."""
    L = float(spec["kw"]["length"])
    mis = spec["kw"].get("misalignment", [0.0, 0.0])
    amx, amy = abs(mis[0]), abs(mis[1])
    meth = method_of(spec)
    s = coord_scales(spec, X, energy)
    tol = (1e-11 if meth == "cheetah" else 1e-10) * s
    A = X.abs()
    if meth == "cheetah" and spec["cls"] in GUARDED:
        e = guard_eps(L, amx, amy) if strength_kappa is None else guard_eps(L, amx, amy, strength_kappa)
        tol[:, :6] += e * A.sum(dim=1, keepdim=True)          # C09_off_tracks_like_drift: eps * norm1(v)
    if meth == "bmadx" and spec["cls"] == "Quadrupole":
        # drift: x += L (px/P)/sqrt(1-u), u = (px^2+py^2)/P^2 ; paraxial quadrupole at k1=0: x += L px/P.
        # 1/sqrt(1-u) - 1 <= u for 0 <= u <= 1/2  =>  |dx| <= L |px/P| u  (third order in the transverse momenta);
        # z: -u/2 (quadrupole) vs 1 - 1/sqrt(1-u) (drift): |dz| <= L u^2 (fourth order); the truncated series of
        # low_energy_z_correction differs from beta/beta0 - 1 by <= 10 L pz^4 / gamma^2.
        g = energy / ME
        d = A[:, 5]
        P = 1 - 1.3 * d
        u = (A[:, 1] ** 2 + A[:, 3] ** 2) / P ** 2
        third = L * (A[:, 1] + A[:, 3]) / P * u * 1.01
        tol[:, 0] += third
        tol[:, 2] += third
        tol[:, 4] += 1.2 * L * (u ** 2 + 10 * (1.3 * d) ** 4 / g ** 2)
    return tol


# ---------------------------------------------------------------- the oracle on the implementation alone
def beam_arrays(b):
    import cheetah
    if isinstance(b, cheetah.ParticleBeam):
        return {"particles": b.particles.detach().clone(), "energy": b.energy.detach().clone(), "charges": b.particle_charges.detach().clone(),
                "survival": b.survival_probabilities.detach().clone()}
    return {"mu": b._mu.detach().clone(), "cov": b._cov.detach().clone(), "energy": b.energy.detach().clone(), "charge": b.total_charge.detach().clone()}


def finite(arrs):
    return all(bool(torch.isfinite(v).all()) for v in arrs.values())


def compare_to_drift(spec, beam, out, ref, kappa=None):
    """diffs of Element.track output vs Drift.track output: list of (observable, index, |diff|, tol)"""
    energy = float(beam["energy"])
    diffs = []
    for k in ("energy", "charges", "survival", "charge"):
        if k in out:
            d = float((out[k] - ref[k]).abs().max()) if out[k].numel() else 0.0
            if out[k].shape != ref[k].shape or d > 1e-12 * float(ref[k].abs().max()):
                diffs.append((k, None, d, 0.0))
    if beam["type"] == "particle":
        X = torch.tensor(beam["particles"], dtype=torch.float64)
        tol = coord_tol(spec, X, energy, kappa)
        D = (out["particles"] - ref["particles"]).abs()
        if D.shape != tol.shape:
            return diffs + [("particles:shape", None, float("inf"), 0.0)]
        for i in range(D.shape[0]):
            for j in range(7):
                if not (D[i, j] <= tol[i, j]):
                    diffs.append(("particles", [i, j], float(D[i, j]), float(tol[i, j])))
    else:
        mu = torch.tensor([beam["mu"]], dtype=torch.float64)
        tol = coord_tol(spec, mu, energy, kappa)[0]
        D = (out["mu"] - ref["mu"]).abs()
        for j in range(7):
            if not (D[j] <= tol[j]):
                diffs.append(("mu", [j], float(D[j]), float(tol[j])))
        cov = torch.tensor(beam["cov"], dtype=torch.float64)
        sig = cov.diagonal().clamp(min=0).sqrt().unsqueeze(0)
        sig7 = torch.cat([sig[:, :6], torch.zeros(1, 1, dtype=torch.float64)], dim=1)
        spec0 = {"cls": spec["cls"], "kw": dict(spec["kw"], misalignment=[0.0, 0.0])}
        s = coord_scales(spec0, sig7, energy)[0]
        N = float(sig7.sum())
        L = float(spec["kw"]["length"])
        e = guard_eps(L, kappa=kappa or 1e-12) if (method_of(spec) == "cheetah" and spec["cls"] in GUARDED) else 0.0
        DC = (out["cov"] - ref["cov"]).abs()
        for i in range(7):
            for j in range(7):
                t = 1e-10 * float(s[i] * s[j]) + e * N * float(s[i] + s[j]) + e * e * N * N + 1e-300
                if not (DC[i, j] <= t):
                    diffs.append(("cov", [i, j], float(DC[i, j]), t))
    return diffs


def run_case(spec, beam):
    """returns dict(status, out, ref, diffs, exc)"""
    el = realgen.build(spec)
    dr = realgen.build(drift_spec(spec))
    b = realgen.build_beam(beam)
    inc = beam_arrays(b)
    out = beam_arrays(el.track(b))
    ref = beam_arrays(dr.track(b))
    unchanged = all(torch.equal(inc[k], v) for k, v in beam_arrays(b).items())
    return dict(out=out, ref=ref, inc=inc, input_unchanged=unchanged)


def classify(spec, beam, res):
    """-> (verdict, what, diffs); verdict in ok | known | violation.  Known only on an exact signature match."""
    cls, meth, kw = spec["cls"], method_of(spec), spec["kw"]
    L = float(kw["length"])
    out, ref = res["out"], res["ref"]
    if not finite(ref):
        return "ok", "reference Drift output not finite (unspecified input)", []
    if not finite(out):
        if meth == "bmadx" and cls in ("Dipole", "RBend") and L == 0.0:
            return "known", F8C, []
        if meth == "bmadx" and cls in ("Dipole", "RBend") and float(kw["angle"]) == 0.0:
            return "known", F8A, []
        if meth == "bmadx" and cls == "Quadrupole" and L == 0.0:
            return "known", F8B, []
        return "violation", "non-finite output at zero strength", [("finite", None, float("inf"), 0.0)]
    diffs = compare_to_drift(spec, beam, out, ref)
    if not diffs:
        return "ok", "", []

    def only(allowed):
        return all((d[0], tuple(d[1]) if d[1] else None) in allowed for d in diffs)
    tau_obs = {("particles", (i, 4)) for i in range(64)} | {("mu", (4,))}
    cov4 = {("cov", (4, j)) for j in range(7)} | {("cov", (j, 4)) for j in range(7)}
    if cls == "Cavity" and float(kw["voltage"]) == 0.0:
        f2 = {("cov", (4, 4)), ("cov", (4, 5)), ("cov", (5, 4))}
        if only(tau_obs | f2):
            return "known", (F2 if any(d[0] == "cov" for d in diffs) else F1), diffs
    if cls == "Undulator" and only(tau_obs | cov4):
        return ("known", F3, diffs) if STATE["f3_known"] else ("violation", F3_BACK, diffs)
    return "violation", "differs from Drift of the same length and tracking method", diffs


def shrink(spec, beam, still_fails):
    """coordinate-wise: zero the non-strength parameters and drop particles while the failure persists"""
    spec = json.loads(json.dumps(spec))
    beam = json.loads(json.dumps(beam))
    for k, z in (("tilt", 0.0), ("misalignment", [0.0, 0.0]), ("dipole_e1", 0.0), ("dipole_e2", 0.0), ("rbend_e1", 0.0), ("rbend_e2", 0.0),
                 ("gap", 0.0), ("fringe_integral", 0.0), ("phase", 0.0), ("num_steps", 1)):
        if k in spec["kw"] and spec["kw"][k] != z:
            s2 = json.loads(json.dumps(spec))
            s2["kw"][k] = z
            try:
                if still_fails(s2, beam):
                    spec = s2
            except Exception:
                pass
    if beam["type"] == "particle":
        while len(beam["particles"]) > 1:
            ok = False
            for i in range(len(beam["particles"])):
                b2 = dict(beam, particles=beam["particles"][:i] + beam["particles"][i + 1:], charges=beam["charges"][:i] + beam["charges"][i + 1:],
                          survival=beam["survival"][:i] + beam["survival"][i + 1:])
                try:
                    if still_fails(spec, b2):
                        beam, ok = b2, True
                        break
                except Exception:
                    pass
            if not ok:
                break
    return spec, beam


def fails(spec, beam):
    v, _, _ = classify(spec, beam, run_case(spec, beam))
    return v == "violation"


# ---------------------------------------------------------------- vectorised strengths containing exact zeros
VEC_PLAN = [("Quadrupole", "cheetah"), ("Dipole", "cheetah"), ("RBend", "cheetah"), ("Solenoid", "cheetah"), ("HorizontalCorrector", "cheetah"),
            ("VerticalCorrector", "cheetah"), ("Cavity", "cheetah"), ("Quadrupole", "bmadx"), ("TransverseDeflectingCavity", "bmadx")]
VEC_POOL = {"k1": [2.0, -3.0, 0.5, 4.2, -10.0, 1e-3], "bend_angle": [0.1, -0.02, 0.3, 0.01], "bend_k1": [0.5, -1.0, 2.0], "k": [0.5, -1.0, 3.0],
            "cor_angle": [1e-3, -2e-3, 0.01], "tdc_voltage": [1e5, 1e6, -1e6]}


def _zero_mix(rng, B, pool, zero_at):
    """B strengths: exact 0.0 at the indices zero_at, non-zero values from the pool elsewhere (at least one of each)"""
    return [0.0 if i in zero_at else rng.choice(pool) for i in range(B)]


def gen_vec_element(rng, cls, method, lkind, energy):
    """Element whose strength tensor(s) hold a batch of B settings mixing exact zeros with non-zero values (e.g. a scan
    through 0); every other parameter is a scalar.  spec["vec"] names the vectorised keyword arguments."""
    spec = gen_element(rng, cls, method, lkind)
    kw = spec["kw"]
    B = rng.choice([2, 2, 3, 4])
    zero_at = set(rng.sample(range(B), rng.randrange(1, B)))          # 1 .. B-1 zero entries
    if cls == "Quadrupole":
        kw["k1"] = _zero_mix(rng, B, VEC_POOL["k1"], zero_at)
        vec = ["k1"]
    elif cls in ("Dipole", "RBend"):
        # length == 0 with a non-zero angle is the 'thin corrector' branch of Dipole.transfer_map (finding F4: writes the angle
        # into [2][6]; with a vectorised angle `R[..., 2, 6] = self.angle` raises because R has the length's batch shape):
        # a defective region listed elsewhere, so at zero length only the gradient is vectorised
        mode = "k1" if float(kw["length"]) == 0.0 else rng.choice(["angle", "k1", "k1", "both"])
        vec = []
        if mode in ("angle", "both"):
            # zero wherever the entry is switched off; elsewhere a bend angle, or 0 with a gradient only
            kw["angle"] = [0.0 if (i in zero_at or (mode == "both" and rng.random() < 0.3)) else rng.choice(VEC_POOL["bend_angle"]) for i in range(B)]
            vec.append("angle")
        if mode in ("k1", "both"):
            kw["k1"] = [0.0 if i in zero_at else (rng.choice(VEC_POOL["bend_k1"]) if (mode == "k1" or kw["angle"][i] == 0.0 or rng.random() < 0.5) else 0.0)
                        for i in range(B)]
            vec.append("k1")
    elif cls == "Solenoid":
        kw["k"] = _zero_mix(rng, B, VEC_POOL["k"], zero_at)
        vec = ["k"]
    elif cls in ("HorizontalCorrector", "VerticalCorrector"):
        kw["angle"] = _zero_mix(rng, B, VEC_POOL["cor_angle"], zero_at)
        vec = ["angle"]
    elif cls == "Cavity":
        # non-accelerating settings only: a batch mixing accelerating and non-accelerating entries is NaN in the latter by the
        # whole-tensor branch `torch.any(delta_energy > 0)` (finding F5, listed for C04), and at |cos(phase)| ~ 0 every
        # non-zero voltage is NaN [F90]
        if abs(math.cos(math.radians(float(kw["phase"])))) < 1e-3:
            kw["phase"] = rng.choice([30.0, 150.0, -20.0])
        sgn = -1.0 if math.cos(math.radians(float(kw["phase"]))) > 0 else 1.0
        kw["voltage"] = _zero_mix(rng, B, [float(f"{sgn * f * energy:.4e}") for f in (0.01, 0.1, 0.3)], zero_at)
        vec = ["voltage"]
    elif cls == "TransverseDeflectingCavity":
        kw["voltage"] = _zero_mix(rng, B, VEC_POOL["tdc_voltage"], zero_at)
        vec = ["voltage"]
    else:
        raise ValueError(cls)
    spec["vec"] = vec
    return spec


def entry_spec(spec, i):
    """the scalar element of batch entry i of a vectorised spec"""
    kw = dict(spec["kw"])
    for k in spec["vec"]:
        kw[k] = kw[k][i]
    return {"cls": spec["cls"], "name": spec.get("name", "e"), "kw": kw}


def vec_batch(spec):
    return len(spec["kw"][spec["vec"][0]])


def vec_zero_entries(spec):
    return [i for i in range(vec_batch(spec)) if all(float(spec["kw"][k][i]) == 0.0 for k in spec["vec"])]


def classify_vec(spec, beam):
    """Track the beam through the vectorised element; every batch entry whose strengths are all exactly 0 must be finite and
    equal Drift(same length, same method).track(beam) within the tolerances of the scalar case.
    -> list of (verdict, what, diffs, entry) for the zero entries that are not ok (verdict known | violation)."""
    B = vec_batch(spec)
    el = realgen.build(spec)
    b = realgen.build_beam(beam)
    out = beam_arrays(el.track(b))
    ref = beam_arrays(realgen.build(drift_spec(spec)).track(b))
    res = []
    for i in vec_zero_entries(spec):
        oi, shape_bad = {}, None
        for k, v in out.items():
            if v.dim() == ref[k].dim() + 1 and v.shape[0] == B:
                oi[k] = v[i]
            elif v.dim() == ref[k].dim():
                oi[k] = v                          # not vectorised by the element (charges, survival probabilities)
            else:
                shape_bad = (k, list(v.shape), list(ref[k].shape))
        if shape_bad:
            res.append(("violation", f"outgoing {shape_bad[0]} of the vectorised element has shape {shape_bad[1]} (batch {B}, scalar shape {shape_bad[2]})", [], i))
            continue
        v, what, diffs = classify(entry_spec(spec, i), beam, dict(out=oi, ref=ref))
        if v != "ok":
            if v == "violation":
                what = f"batch entry {i} (all strengths exactly 0) of the vectorised element: " + what
            res.append((v, what, diffs, i))
    return res


def fails_vec(spec, beam):
    try:
        return any(r[0] == "violation" for r in classify_vec(spec, beam))
    except Exception:
        return True


def shrink_vec(spec, beam):
    spec, beam = shrink(spec, beam, fails_vec)
    spec = json.loads(json.dumps(spec))
    B = vec_batch(spec)
    while B > 2:            # drop batch entries while the failure persists
        for i in range(B):
            s2 = json.loads(json.dumps(spec))
            for k in s2["vec"]:
                del s2["kw"][k][i]
            if vec_zero_entries(s2) and len(vec_zero_entries(s2)) < B - 1 and fails_vec(s2, beam):
                spec = s2
                break
        else:
            break
        B = vec_batch(spec)
    return spec, beam


def vectorised(run, reps):
    """the oracle on vectorised strength settings: for every class whose strength is a tensor x method x beam type x length kind"""
    new = []
    for _ in range(reps):
        for cls, meth in VEC_PLAN:
            for bt in (("particle",) if meth == "bmadx" else ("particle", "parameter")):
                for lk in ("zero", "tiny", "typical", "typical"):
                    energy = gen_energy(run.rng)
                    spec = gen_vec_element(run.rng, cls, meth, lk, energy)
                    beam = gen_beam(run.rng, bt, energy)
                    run.add_case(["vec", spec, beam], True)
                    run.count(f"vec_{cls}_{meth}_{bt}")
                    run.count("vec_batch_%d_zero_entries_%d" % (vec_batch(spec), len(vec_zero_entries(spec))))
                    try:
                        res = classify_vec(spec, beam)
                    except Exception as ex:
                        run.count("vec_exception_" + cls)
                        new.append({"kind": "vectorised", "spec": spec, "beam": beam,
                                    "what": f"exception for a vectorised strength containing exact zeros: {type(ex).__name__}: {ex}"})
                        continue
                    for v, what, diffs, i in res:
                        if v == "known":
                            run.known(what)
                            run.count("vec_known_finding_entries")
                        else:
                            new.append({"kind": "vectorised", "spec": spec, "beam": beam, "entry": i, "what": what, "diffs": diffs[:6]})
                            if what.endswith(F3_BACK):
                                new[-1]["finding"] = "F3"
    return new


# ---------------------------------------------------------------- continuity strength -> 0
def continuity(run, n_per_class, ks):
    """|out(s) - out(0)| <= C |s| (+ tolerance at 0) along s = +-10^-k; for the quadrupole C is the proved Lipschitz constant."""
    bad = []
    for cls in ["Quadrupole", "Dipole", "RBend", "Solenoid", "HorizontalCorrector", "VerticalCorrector", "Cavity", "TransverseDeflectingCavity",
                "Quadrupole:bmadx", "Dipole:bmadx"]:
        cls, _, m = cls.partition(":")
        meth = m or ("bmadx" if cls == "TransverseDeflectingCavity" else "cheetah")
        for _ in range(n_per_class):
            spec = gen_element(run.rng, cls, meth, "typical")
            if cls == "Cavity":
                # away from the zero crossing: at phase = +-90 deg the active cavity is NaN for every voltage [F90], and near it
                # log(Ef/Ei) and r55_cor are ill-conditioned; the noise allowance below is derived from the conditioning
                spec["kw"]["phase"] = run.rng.choice([0.0, 30.0, -20.0, 45.0])
            energy = gen_energy(run.rng)
            beam = gen_beam(run.rng, "particle" if (meth == "bmadx" or run.rng.random() < 0.6) else "parameter", energy)
            par = STRENGTH[cls]
            L = float(spec["kw"]["length"])
            try:
                base = run_case(spec, beam)
            except Exception as ex:
                run.count("continuity_exception")
                continue
            zero_nan = not finite(base["out"])
            ref0 = base["ref"] if zero_nan else base["out"]      # Bmad-X bend: out(0) is NaN [F8]; the limit must be the drift
            if zero_nan:
                v, what, _ = classify(spec, beam, base)
                if v == "known":
                    run.known(what)
            X = torch.tensor(beam["particles"] if beam["type"] == "particle" else [beam["mu"]], dtype=torch.float64)
            n1 = X.abs().sum(dim=1, keepdim=True)
            for k in ks:
                for sgn in (1.0, -1.0):
                    s = sgn * 10.0 ** (-k)
                    sval = s * energy if par == "voltage" else s
                    sp = json.loads(json.dumps(spec))
                    sp["kw"][par] = sval
                    try:
                        o = beam_arrays(realgen.build(sp).track(realgen.build_beam(beam)))
                    except Exception:
                        run.count("continuity_exception")
                        continue
                    run.cov["evaluations"] += 1
                    run.count("continuity_" + cls + "_" + meth)
                    key = "particles" if beam["type"] == "particle" else "mu"
                    if not finite(o):
                        if cls == "Cavity" and abs(math.cos(math.radians(float(sp["kw"]["phase"])))) < 1e-9:
                            run.known(F90)
                            continue
                        bad.append({"kind": "continuity", "spec": sp, "beam": beam, "what": "non-finite output at small non-zero strength", "strength": sval})
                        continue
                    D = (o[key] - ref0[key]).abs().reshape(-1, 7)
                    if cls == "Quadrupole" and meth == "cheetah":
                        mis = spec["kw"]["misalignment"]
                        C = 1.02 * (L + L * L + L ** 3) * (1 + abs(mis[0]) + abs(mis[1])) * n1      # C09_quad_continuous_at_0
                    else:
                        C = 20.0 * (1 + L) ** 3 * n1
                    tol0 = 2 * coord_tol(spec, X, energy) + (1e-9 * coord_scales(spec, X, energy) if zero_nan else 0.0)
                    allowed = C * abs(s) + tol0
                    if cls == "Cavity":
                        # float conditioning of the active-cavity formulas at relative energy gain s cos(phi):
                        # log(Ef/Ei), Ei/Ep: relative error 1e-16/(|s| cos phi); r55_cor = (...)/(g0-g1)^2: k L tan(phi)/cos(phi) 1e-16/|s|
                        phi = math.radians(float(spec["kw"]["phase"]))
                        kk = 2 * math.pi * float(spec["kw"]["frequency"]) / C_LIGHT
                        noise = 1e-14 / (abs(s) * abs(math.cos(phi)))
                        allowed = allowed + noise * coord_scales(spec, X, energy)
                        allowed[:, 4] += 1e-14 / abs(s) * kk * L * abs(math.tan(phi) / math.cos(phi)) * X[:, 4].abs()
                    viol = D > allowed
                    if bool(viol.any()):
                        i, j = [int(t) for t in viol.nonzero()[0]]
                        bad.append({"kind": "continuity", "spec": sp, "zero_spec": spec, "beam": beam, "strength": sval, "coordinate": [i, j],
                                    "diff": float(D[i, j]), "allowed": float(allowed[i, j]),
                                    "what": "|out(s) - out(0)| > C|s|: output not continuous at zero strength"})
    return bad


# ---------------------------------------------------------------- correspondence with the Coq model
def M7lit(rows):
    return "(mk7 " + " ".join("(row " + " ".join(dyadic(float(v)) for v in r) + ")" for r in rows) + ")"


def V7lit(v):
    return "(mk7 " + " ".join(dyadic(float(x)) for x in v) + ")"


def tm_goal(spec, energy, tm, und_fixed=None):
    """Lemma statement + tactic: all 49 entries of the real element's transfer_map(E) at zero strength agree with Optics/Maps.v.
    und_fixed selects the Undulator transcription (default: by the status of F3, see STATE)"""
    und_fixed = (not STATE["f3_known"]) if und_fixed is None else und_fixed
    cls, kw = spec["cls"], spec["kw"]
    L = float(kw["length"])
    d = dyadic
    tol = f"(IZR 1 / IZR {2 ** 40} * {d(max(1.0, L))})"
    E = d(energy)
    obs = M7lit(tm)
    mis = kw.get("misalignment", [0.0, 0.0])
    side = "[lra|]"
    if cls == "Quadrupole":
        model = f"(quad_map {d(L)} 0 {d(mis[0])} {d(mis[1])} {d(kw['tilt'])} {E})"
        eps = f"(guard_eps {d(L)} * (1 + Rabs {d(mis[0])} + Rabs {d(mis[1])}))"
        step = f"apply m7close_tri with (drift_map {d(L)} {E}); [apply quad_off_bound; lra|]."
    elif cls in ("Dipole", "RBend"):
        e1, e2 = (kw["dipole_e1"], kw["dipole_e2"]) if cls == "Dipole" else (kw["rbend_e1"], kw["rbend_e2"])
        fx = kw.get("fringe_integral_exit", kw["fringe_integral"])
        fn, lem = ("dip_map", "dipole_off_bound") if cls == "Dipole" else ("rbend_map", "rbend_off_bound")
        model = f"({fn} {d(L)} 0 0 {d(e1)} {d(e2)} {d(kw['tilt'])} {d(kw['gap'])} {d(kw['fringe_integral'])} {d(fx)} {E})"
        eps = f"(guard_eps {d(L)})"
        step = f"apply m7close_tri with (drift_map {d(L)} {E}); [apply {lem}; lra|]."
    elif cls == "Cavity":
        model = f"(cavity_off_map {d(L)} {E})"
        eps = f"(guard_eps {d(L)})"
        step = f"apply m7close_tri with (drift_map {d(L)} {E}); [apply cavity_off_bound; lra|]."
    elif cls == "Solenoid":
        model = f"(sol_map {d(L)} 0 {d(mis[0])} {d(mis[1])} {E})"
        eps = "0"
        step = f"rewrite Rplus_0_l, solenoid_off by me."
    elif cls in ("HorizontalCorrector", "VerticalCorrector"):
        fn, lem = ("hcor_map", "hcor_off") if cls[0] == "H" else ("vcor_map", "vcor_off")
        model = f"({fn} {d(L)} 0 {E})"
        eps = "0"
        step = f"rewrite Rplus_0_l, {lem}."
    elif cls == "Undulator":
        if und_fixed:                            # the repaired code (R56 = -L/beta^2 igamma2): literally the drift map
            model = f"(und_map_fixed {d(L)} {E})"
            return (f"m7close (0 + {tol}) {model} {obs}", "rewrite Rplus_0_l, und_map_fixed_is_drift, drift_map_closed by me. entries.")
        model = f"(und_map {d(L)} {E})"          # the code before the repair (R56 = + L igamma2): the refuted map
        return (f"m7close (0 + {tol}) {model} {obs}", "rewrite Rplus_0_l, und_map_closed by me. entries.")
    else:
        raise ValueError(cls)
    # |model - drift| <= eps (theorem) and |drift - observed| <= eps + tol (interval)  =>  |model - observed| <= 2 eps + tol:
    # at guarded points the tolerance is the proved guard bound (DESIGN 2.6)
    bound = f"({eps} + ({eps} + {tol}))" if eps != "0" else f"(0 + {tol})"
    return (f"m7close {bound} {model} {obs}", step + " rewrite drift_map_closed by me. unfold guard_eps, off_eps. entries.")


def correspondence(run, cases):
    """cases: list of (spec, energy).  Returns (failing case indices, errors)."""
    goals, meta = [], []
    for idx, (spec, energy, beam) in enumerate(cases):
        el = realgen.build(spec)
        tm = el.transfer_map(torch.tensor(energy, dtype=torch.float64))
        if tm.dim() != 2 or not bool(torch.isfinite(tm).all()):
            goals.append(("False", "idtac."))
            meta.append((idx, "transfer_map"))
            continue
        goals.append(tm_goal(spec, energy, tm.tolist()))
        meta.append((idx, "transfer_map"))
        if spec["cls"] == "Cavity":
            # the part of Cavity.track that is not the transfer map: tau' (first particle) / cov[4,4]
            L = float(spec["kw"]["length"])
            k = 2 * math.pi * float(spec["kw"]["frequency"]) / C_LIGHT
            phi = math.radians(float(spec["kw"]["phase"]))
            b = realgen.build_beam(beam)
            o = el.track(b)
            g = energy / ME
            if beam["type"] == "particle":
                v = beam["particles"][0]
                obs = float(o.particles[0, 4])
                sc = abs(v[4]) + L / (g * g - 1) * abs(v[5]) * (1 + 2 * abs(v[5])) + 1e-300
                goals.append((f"Rabs (c4 (cavity_off_track {dyadic(L)} {dyadic(energy)} {dyadic(k)} {dyadic(phi)} {V7lit(v)}) - {dyadic(obs)}) <= IZR 1 / IZR {2 ** 38} * {dyadic(sc)}",
                              "rewrite cavity_off_track_tau_closed by me. scalar."))
                meta.append((idx, "cavity_track_tau"))
            else:
                obs = float(o._cov[4, 4])
                s55 = float(beam["cov"][5][5])
                sc = 2 * L / (g * g - 1) * s55 * s55 + 1e-300
                goals.append((f"Rabs (c4 (c4 (cavity_off_track_cov {dyadic(L)} {dyadic(energy)} {M7lit(beam['cov'])})) - {dyadic(obs)}) <= IZR 1 / IZR {2 ** 38} * {dyadic(sc)}",
                              "rewrite cavity_off_cov44_closed by me. scalar."))
                meta.append((idx, "cavity_track_cov44"))
    failing, errs = common.run_real_goals(PID, "corr", PREAMBLE, goals, shard=6, jobs=16, timeout=900)
    run.cov["traces_validated_against_impl"] += len(goals) - len(failing)
    return [(meta[i][0], meta[i][1], errs.get(i, "")[-300:]) for i in failing]


def planted_mutant_selftest(run, cases):
    """the harness perturbs one observed entry and expects the goal to fail (guards against a vacuous correspondence)"""
    spec, energy, _ = cases[0]
    el = realgen.build(spec)
    tm = el.transfer_map(torch.tensor(energy, dtype=torch.float64)).tolist()
    tm[0][1] += 1e-9 * max(1.0, float(spec["kw"]["length"]))
    failing, _ = common.run_real_goals(PID, "planted", PREAMBLE, [tm_goal(spec, energy, tm)], shard=1, jobs=1, timeout=300)
    return failing == [0]


# ---------------------------------------------------------------- known findings
def replay_fixed(run, f):
    """stored input of a finding listed as fixed: it must pass now; failing again is a regression (VIOLATION with that input)"""
    r = f.get("replay") or {}
    run.cov.setdefault("fixed_findings_replayed", []).append(f["id"])
    try:
        if r.get("kind") == "finite_at_nonzero_strength":
            bad = not finite(beam_arrays(realgen.build(r["spec"]).track(realgen.build_beam(r["beam"]))))
            what, diffs = "non-finite output", []
        else:
            v, what, diffs = classify(r["spec"], r["beam"], run_case(r["spec"], r["beam"]))
            bad = v != "ok"
    except Exception as ex:
        bad, what, diffs = True, f"exception: {type(ex).__name__}: {ex}", []
    if bad:
        run.violation({"kind": "regression", "finding": f["id"], "spec": r.get("spec"), "beam": r.get("beam"), "diffs": diffs[:6],
                       "what": f"fixed finding {f['id']} fails again on its stored input ({what}): {f['what']}",
                       "relation": "Element(strength=0).track(b) == Drift(L, same method).track(b)"})
    return bad


def replay_known(run):
    """known + still failing -> KNOWN-FINDING; known + passing -> note; fixed + failing again -> VIOLATION.  Returns regressed ids."""
    regressed = set()
    for f in common.load_known_findings(PID):
        if f.get("status") == "fixed" and f.get("replay"):
            if f["id"] not in regressed and replay_fixed(run, f):
                regressed.add(f["id"])
            continue
        if f.get("status") != "known":
            continue
        r = f["replay"]
        if r.get("kind") == "finite_at_nonzero_strength":
            o = beam_arrays(realgen.build(r["spec"]).track(realgen.build_beam(r["beam"])))
            if not finite(o):
                run.known(F90)
            else:
                run.cov["known_findings_not_reproduced"].append(f["id"] + ":" + f["signature"]["class"])
            continue
        try:
            v, what, diffs = classify(r["spec"], r["beam"], run_case(r["spec"], r["beam"]))
        except Exception as ex:
            v, what = "exception", str(ex)
        if v == "known":
            run.known(what)
        elif v == "ok":
            run.cov["known_findings_not_reproduced"].append(f["id"] + ":" + f["signature"]["class"])
        else:
            run.violation({"kind": "oracle", "spec": r["spec"], "beam": r["beam"], "what": f"stored input of known finding {f['id']} now fails differently: {what}",
                           "relation": "Element(strength=0).track(b) == Drift(L, same method).track(b)"})
    return regressed


# ---------------------------------------------------------------- main
def main(tier, replay=None):
    run = common.Run(PID, tier)
    common.setup_python_env()
    from cheetah.utils.physics import electron_mass_eV
    thorough = tier == "thorough"
    run.cov["rule"] = ("every class with a strength (Quadrupole k1, Dipole/RBend angle+k1, Solenoid k, H/V corrector angle, Cavity and TDC voltage, Undulator) "
                       "at zero strength x tracking method (cheetah; bmadx where supported) x beam type x length in {0, tiny, typical} x energy log-uniform "
                       "1.5 MeV..50 GeV x random tilt/misalignment/edge angles/fringe/gap/phase/frequency/num_steps: Element.track(b) vs Drift(L, same method).track(b) "
                       "on all coordinates, energy, charges; the same for the exactly-zero entries of VECTORISED strengths (batch of 2-4 settings mixing exact zeros with "
                       "non-zero values: k1, bend angle and/or k1, solenoid k, corrector angle, Cavity / TDC voltage); plus continuity sequences strength=+-10^-k. Non-trivial = length>0 or a non-default non-strength parameter; "
                       "distinct by full case content.")
    STATE["f3_known"] = f3_known()
    if replay:
        return do_replay(run, replay)
    if abs(float(electron_mass_eV) - ME) > 0:
        run.violation({"kind": "correspondence", "broken": f"electron_mass_eV = {electron_mass_eV!r} differs from Optics/Maps.v m_e = {ME}"}, no_input=True)
    proof_ok = run.proof_stage()
    # second tie (Bmad-X / conversions): re-translated from REPO's source and proved equal to Bmadx/*.v, Beam/SI.v (Gen/BmadxGenEquiv.v)
    import translate_stage
    trx = translate_stage.translator_obligation_bmadx(run)
    if trx["status"] != "ok":
        run.notes.append("translator obligation (bmadx): " + json.dumps(translate_stage.replay_fields_bmadx(trx))[:600])
    # second tie: the linear-optics core is re-translated from REPO's source and proved equal to Optics/Maps.v (Gen/MapsGenEquiv.v)
    import translate_stage
    tr = translate_stage.translator_obligation(run)
    if tr["status"] != "ok":
        run.notes.append("translator obligation: " + json.dumps(translate_stage.replay_fields(tr))[:600])
    if not proof_ok:
        run.notes.append(run.proof_problem)
    run.cov["undulator_model"] = ("und_map (code before the repair of F3; excluded from the family theorem, C09_undulator_off_refuted)" if STATE["f3_known"]
                                  else "und_map_fixed (code after the repair of F3; = drift_map, C09_off_is_drift_like_fixed)")

    reps = 10 if thorough else 3
    plan = []
    for _ in range(reps):
        for cls in LINEAR:
            for bt in ("particle", "parameter"):
                for lk in ("zero", "tiny", "typical", "typical"):
                    plan.append((cls, "cheetah", bt, lk))
        for cls in BMADX:
            for lk in ("zero", "tiny", "typical", "typical", "typical"):
                plan.append((cls, "bmadx", "particle", lk))
    new, corr_cases = [], []
    for (cls, meth, bt, lk) in plan:
        spec = gen_element(run.rng, cls, meth, lk)
        energy = gen_energy(run.rng)
        beam = gen_beam(run.rng, bt, energy)
        try:
            res = run_case(spec, beam)
        except Exception as ex:
            run.count("exception_" + cls)
            new.append({"kind": "oracle", "spec": spec, "beam": beam, "what": f"exception at zero strength: {type(ex).__name__}: {ex}"})
            continue
        L = float(spec["kw"]["length"])
        nontrivial = L > 0 or any(v not in (0.0, [0.0, 0.0], 1, "both", False, "cheetah") for k, v in spec["kw"].items() if k != "length")
        run.add_case([spec, beam], nontrivial)
        run.count(f"{cls}_{meth}_{bt}")
        run.count("length_" + lk)
        run.count("energy_decade_1e%d" % int(math.log10(energy)))
        v, what, diffs = classify(spec, beam, res)
        if not res["input_unchanged"]:
            v, what = "violation", "track modified its input beam"
        if v == "known":
            run.known(what)
            run.count("known_finding_cases")
        elif v == "violation":
            new.append({"kind": "oracle", "spec": spec, "beam": beam, "what": what, "diffs": diffs[:6]})
            if what == F3_BACK:
                new[-1]["finding"] = "F3"
        if L == 0.0 and finite(res["out"]) and v == "ok":
            # zero length and zero strength = identity
            key = "particles" if bt == "particle" else "mu"
            if float((res["out"][key] - res["inc"][key]).abs().max()) > 1e-12:
                new.append({"kind": "oracle", "spec": spec, "beam": beam, "what": "zero-length zero-strength element is not the identity"})
        # per-class cap, so that every class (the Undulator is last in LINEAR) reaches the correspondence in the quick tier too
        if (meth == "cheetah" and cls in LINEAR and sum(1 for c in corr_cases if c[0]["cls"] == cls) < (15 if thorough else 5)
                and (lk != "zero" or run.rng.random() < 0.5)):
            corr_cases.append((spec, energy, beam))
    run.sample({"spec": plan and spec, "beam": beam})

    new += vectorised(run, 10 if thorough else 2)
    new += continuity(run, 3 if thorough else 1, range(2, 11))

    corr_fail = []
    try:
        corr_fail = correspondence(run, corr_cases)
        if not planted_mutant_selftest(run, corr_cases):
            corr_fail.append((0, "planted-mutant self-test: a perturbed observation was NOT rejected", ""))
    except RuntimeError as ex:
        corr_fail = [(0, "coqc failed outside the goals", str(ex)[-400:])]
    # classify correspondence failures: the refuted Undulator map / Cavity extras are models of known defects
    corr_new = []
    und_idx = [idx for idx, what, err in corr_fail if idx < len(corr_cases) and corr_cases[idx][0]["cls"] == "Undulator" and what == "transfer_map"]
    und_other_ok = False
    if und_idx:
        # the Undulator disagrees with the transcription selected by the status of F3: evaluate the OTHER transcription
        g2 = []
        for idx in und_idx:
            spec, energy, _ = corr_cases[idx]
            tm = realgen.build(spec).transfer_map(torch.tensor(energy, dtype=torch.float64))
            g2.append(tm_goal(spec, energy, tm.tolist(), und_fixed=STATE["f3_known"]) if tm.dim() == 2 and bool(torch.isfinite(tm).all()) else ("False", "idtac."))
        try:
            f2, _ = common.run_real_goals(PID, "corr_und_other", PREAMBLE, g2, shard=6, jobs=16, timeout=900)
            und_other_ok = not f2
        except RuntimeError:
            und_other_ok = False
    for idx, what, err in corr_fail:
        if idx in und_idx and what == "transfer_map" and und_other_ok:
            if STATE["f3_known"]:
                msg = "F3:Undulator.transfer_map equals und_map_fixed (= drift_map), not the modelled defective map: the status of F3 is stale (flip it to fixed)"
                if msg not in run.cov["known_findings_not_reproduced"]:
                    run.cov["known_findings_not_reproduced"].append(msg)
            else:
                # listed fixed but the code computes the old map again: the oracle (classify -> violation) and the replay of the
                # stored F3 input report it with a concrete input
                msg = "F3 is listed fixed but Undulator.transfer_map equals und_map (R56 = +L igamma2): the repaired defect is back"
                if msg not in run.notes:
                    run.notes.append(msg)
            continue
        corr_new.append((idx, what, err))
    regressed = replay_known(run)
    new = [it for it in new if not (it.get("finding") in regressed)]
    run.cov["tested_only"] = ["vectorised strengths: the switched-off entries of a batch mixing exact zeros with non-zero strengths are finite and equal the Drift "
                              "(the Coq model is per setting; entry independence is property C04)",
                              "Bmad-X Quadrupole(k1=0) vs Bmad-X Drift: third-order bound L|px/P|u on x,y and L u^2 on z (tolerance justified in coord_tol, not proved in Coq)",
                              "TransverseDeflectingCavity(voltage=0) vs Bmad-X Drift (proof belongs to C07)",
                              "ParameterBeam covariance closeness (the Coq theorem covers the map and particles; cov checked numerically with the derived bound)",
                              "continuity along strength=+-10^-k for classes other than the cheetah Quadrupole (generous Lipschitz constant 20(1+L)^3)",
                              "Bmad-X definedness: NaN observed exactly at the points where the modelled guards (necessary conditions only) are false"]

    # ---- verdict
    if new:
        item = new[0]
        if item.get("kind") == "oracle" and "spec" in item:
            try:
                s2, b2 = shrink(item["spec"], item["beam"], fails)
                item = dict(item, spec=s2, beam=b2)
                v, what, diffs = classify(s2, b2, run_case(s2, b2))
                item["diffs"] = diffs[:6]
            except Exception:
                pass
        elif item.get("kind") == "vectorised":
            try:
                s2, b2 = shrink_vec(item["spec"], item["beam"])
                res = [r for r in classify_vec(s2, b2) if r[0] == "violation"]
                if res:
                    item = dict(item, spec=s2, beam=b2, entry=res[0][3], what=res[0][1], diffs=res[0][2][:6])
            except Exception:
                pass
            item["relation"] = ("every batch entry of Element(strength=[..., 0, ...]).track(b) whose strengths are exactly 0 is finite and equals "
                                "Drift(length, same tracking_method).track(b) within the derived tolerance of the scalar case")
            run.violation(item)
            return run.finish("proof")
        item["relation"] = "Element(strength=0).track(b) == Drift(length, same tracking_method).track(b) within the derived tolerance; finite; continuous at 0"
        run.violation(item)
    elif corr_new:
        idx, what, err = corr_new[0]
        spec, energy, beam = corr_cases[idx] if idx < len(corr_cases) else (None, None, None)
        run.violation({"kind": "correspondence", "broken": f"Coq model (Optics/Maps.v, Optics/Off.v) disagrees with the code: {what}", "spec": spec,
                       "energy": energy, "beam": beam, "coqc": err}, no_input=True)
    elif tr["status"] != "ok":
        # the source no longer translates to the proved model; none of this run's oracles found a failing input
        run.violation(translate_stage.replay_fields(tr), no_input=True)
    elif trx["status"] != "ok":
        # the Bmad-X / conversion source no longer translates to the proved model; none of this run's oracles found a failing input
        run.violation(translate_stage.replay_fields_bmadx(trx), no_input=True)
    elif not proof_ok:
        run.violation({"kind": "proof", "broken": run.proof_problem}, no_input=True)
    return run.finish("proof")


def do_replay(run, path):
    r = json.loads(open(path).read())
    if r.get("kind") == "continuity":
        spec, beam = r["zero_spec"] if "zero_spec" in r else r["spec"], r["beam"]
        o0 = run_case(spec, beam)
        o = beam_arrays(realgen.build(r["spec"]).track(realgen.build_beam(beam)))
        key = "particles" if beam["type"] == "particle" else "mu"
        base = o0["out"] if finite(o0["out"]) else o0["ref"]
        D = (o[key] - base[key]).abs().reshape(-1, 7)
        i, j = r.get("coordinate", [0, 0])
        ok = finite(o) and float(D[i, j]) <= r.get("allowed", 0.0)
        print("replay:", "property holds on this input" if ok else f"property FAILS on this input: |out(s)-out(0)|[{i},{j}] = {float(D[i, j])} > {r.get('allowed')}")
        return 0 if ok else 1
    if r.get("kind") == "vectorised":
        try:
            res = classify_vec(r["spec"], r["beam"])
        except Exception as ex:
            print(f"replay: property FAILS on this input: exception {type(ex).__name__}: {ex}")
            return 1
        bad = [x for x in res if x[0] == "violation"]
        for x in res:
            if x[0] == "known":
                print("replay: KNOWN-FINDING:", x[1])
        print("replay:", "property holds on this input" if not bad else f"property FAILS on this input: {bad[0][1]} {bad[0][2][:4]}")
        return 1 if bad else 0
    beam = r.get("beam") or gen_beam(run.rng, "particle", r.get("energy", 1e8))
    v, what, diffs = classify(r["spec"], beam, run_case(r["spec"], beam))
    print("replay:", "property holds on this input" if v == "ok" else f"{'KNOWN-FINDING' if v == 'known' else 'property FAILS on this input'}: {what} {diffs[:4]}")
    return 1 if v == "violation" else 0
