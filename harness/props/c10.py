"""C10 -- Energy, charge and particle survival are accounted for exactly."""
import copy
import json
import math
from fractions import Fraction

import torch

import common
import realgen
from common import coq_list, coq_string, qlit

PID = "C10"
INF = float("inf")
PREAMBLE = """From Coq Require Import List Bool String QArith.
From Cheetah Require Import Lattice.Track Lattice.Energy Diag.Aperture Beam.Stats.
Import ListNotations. Open Scope string_scope. Open Scope Q_scope."""
DT = torch.float64


# ---------------------------------------------------------------- Coq printers
def qinf(v):
    return "Inf" if v == INF else f"(Fin {qlit(v)})"


def coq_ap(kw):
    return (f"(mkap {qinf(kw['x_max'])} {qinf(kw['y_max'])} {'Rect' if kw['shape'] == 'rectangular' else 'Ellip'} "
            f"{'true' if kw['is_active'] else 'false'})")


def coq_pbeam(b):
    rows = coq_list([coq_list([qlit(v) for v in row]) for row in b["particles"]])
    return (f"(mkpb {rows} {qlit(b['energy'])} {coq_list([qlit(v) for v in b['charges']])} "
            f"{coq_list([qlit(v) for v in b['survival']])})")


def coq_tree(spec):
    if spec["cls"] == "Segment":
        return f"(Seg {coq_string(spec['name'])} {coq_list([coq_tree(c) for c in spec['es']])})"
    kw = spec["kw"]
    if spec["cls"] == "Aperture":
        return f"(Leaf (QAp {coq_ap(kw)}))"
    if spec["cls"] == "Screen":
        return f"(Leaf (QScr (mkscr {'true' if kw['is_active'] else 'false'} {'true' if kw['is_blocking'] else 'false'})))"
    if spec["cls"] == "Drift":
        return f"(Leaf (QDrift {qlit(kw['length'])}))"
    if spec["cls"] == "Marker":
        return "(Leaf QMark)"
    raise ValueError(spec["cls"])


def observe_pbeam(b):
    """JSON-able exact observation of a (non-vectorised) ParticleBeam."""
    return {"type": "particle", "particles": b.particles.reshape(-1, 7).tolist(), "energy": float(b.energy),
            "charges": b.particle_charges.reshape(-1).tolist(), "survival": b.survival_probabilities.reshape(-1).tolist()}


def finite_beam(ob):
    return all(math.isfinite(v) for row in ob["particles"] for v in row) and all(math.isfinite(v) for v in ob["survival"])


# ---------------------------------------------------------------- aperture: exact specification in Python (the oracle)
def expected_mask(kw, x, y):
    """1 / 0 for a particle strictly inside / outside; None where the property leaves membership open
    (exactly on the edge; for the elliptical float formula: within rounding distance 1e-12 of it)."""
    xm, ym = kw["x_max"], kw["y_max"]
    if kw["shape"] == "rectangular":
        def side(v, m):
            if m == INF:
                return "in"
            v, m = Fraction(v), Fraction(m)
            if -m < v < m:
                return "in"
            if v < -m or v > m:
                return "out"
            return "edge"
        sx, sy = side(x, xm), side(y, ym)
        if sx == "out" or sy == "out":
            # decided whatever happens on the other axis, unless that one sits on the edge: leave it open
            return None if "edge" in (sx, sy) else 0
        if "edge" in (sx, sy):
            return None
        return 1
    if xm == 0 or ym == 0:
        return 0
    v = Fraction(0)
    if xm != INF:
        v += Fraction(x) ** 2 / Fraction(xm) ** 2
    if ym != INF:
        v += Fraction(y) ** 2 / Fraction(ym) ** 2
    if abs(v - 1) <= Fraction(1, 10 ** 12):
        return None
    return 1 if v < 1 else 0


def run_aperture(kw, beam):
    import cheetah
    ap = cheetah.Aperture(x_max=torch.tensor(kw["x_max"], dtype=DT), y_max=torch.tensor(kw["y_max"], dtype=DT),
                          shape=kw["shape"], is_active=kw["is_active"], name="ap", dtype=DT)
    b = realgen.build_beam(beam)
    return observe_pbeam(ap.track(b))


def aperture_oracle(kw, beam, out):
    """The property on the implementation alone. Returns list of problems."""
    bad = []
    if out["particles"] != beam["particles"]:
        bad.append("coordinates changed")
    if out["charges"] != beam["charges"] or out["energy"] != beam["energy"]:
        bad.append("charges/energy changed")
    if len(out["survival"]) != len(beam["survival"]):
        return bad + ["number of particles changed"]
    for i, (p, s, s2) in enumerate(zip(beam["particles"], beam["survival"], out["survival"])):
        if not kw["is_active"]:
            exp = s
        else:
            m = expected_mask(kw, p[0], p[2])
            if m is None:
                continue
            exp = s if m == 1 else 0.0
        if s2 != exp:
            bad.append(f"particle {i} (x={p[0]!r}, y={p[2]!r}): survival {s!r} -> {s2!r}, expected {exp!r}")
    return bad


HALF = [2.0 ** -10, 0.5, 1.0, 1e-3, 3.0, 0.75, 2.5e-4, INF, INF]


def near(rng, m):
    """a coordinate around the edge m (never exactly on it)"""
    if m == INF:
        return rng.choice([0.0, 1.0, -1e3, 1e6, rng.uniform(-5, 5)])
    if m == 0.0:
        return rng.choice([0.0, 1e-9, -1.0])
    sgn = rng.choice([1.0, -1.0])
    k = rng.randrange(10)
    if k == 0:
        v = math.nextafter(m, INF)
    elif k == 1:
        v = math.nextafter(m, 0.0)
    elif k == 2:
        v = m * (1 + 2.0 ** -rng.randrange(20, 50))
    elif k == 3:
        v = m * (1 - 2.0 ** -rng.randrange(20, 50))
    elif k == 4:
        v = 0.0
    elif k == 5:
        v = m * rng.choice([10.0, 1e3])
    else:
        v = rng.uniform(0, 1.6) * m
    return sgn * v


def gen_aperture_case(rng):
    shape = rng.choice(["rectangular", "elliptical"])
    kw = {"x_max": rng.choice(HALF), "y_max": rng.choice(HALF), "shape": shape, "is_active": rng.random() < 0.85}
    if rng.random() < 0.04:
        kw[rng.choice(["x_max", "y_max"])] = 0.0
    n = rng.randrange(1, 7)
    ps = []
    for _ in range(n):
        for _try in range(50):
            if shape == "elliptical" and kw["x_max"] not in (INF, 0.0) and kw["y_max"] not in (INF, 0.0) and rng.random() < 0.6:
                th = rng.uniform(0, 2 * math.pi)
                rr = rng.choice([1 + 2.0 ** -30, 1 - 2.0 ** -30, 1 + 1e-9, 1 - 1e-9, 1.001, 0.999, 0.3, 2.0])
                x, y = kw["x_max"] * math.cos(th) * rr, kw["y_max"] * math.sin(th) * rr
            else:
                x, y = near(rng, kw["x_max"]), near(rng, kw["y_max"])
            if expected_mask(kw, x, y) is not None:
                break
        else:
            x, y = 0.0, 0.0
            if expected_mask(kw, x, y) is None:
                x = 0.125
        ps.append([x, round(rng.uniform(-1e-3, 1e-3), 6), y, round(rng.uniform(-1e-3, 1e-3), 6),
                   round(rng.uniform(-1e-3, 1e-3), 6), round(rng.uniform(-1e-3, 1e-3), 6), 1.0])
    beam = {"type": "particle", "particles": ps, "energy": rng.choice(realgen.ENERGIES),
            "charges": [rng.choice([1e-12, 2e-12, 0.0, 1.0]) for _ in range(n)],
            "survival": [rng.choice([1.0, 1.0, 1.0, 0.5, 0.25, 0.0]) for _ in range(n)]}
    return kw, beam


def aperture_stage(run, n_cases):
    cases, terms, oracle_bad = [], [], []
    for _ in range(n_cases):
        kw, beam = gen_aperture_case(run.rng)
        out = run_aperture(kw, beam)
        masks = [expected_mask(kw, p[0], p[2]) for p in beam["particles"]]
        if any(m is None for m in masks):
            run.count("ap_discarded_edge")
            continue
        run.add_case(["ap", kw, beam], kw["is_active"] and any(s != 0 for s in beam["survival"]))
        run.count("ap_" + kw["shape"] + ("" if kw["is_active"] else "_inactive"))
        run.count("ap_inf_halfsize" if INF in (kw["x_max"], kw["y_max"]) else "ap_finite")
        run.count("ap_particles_inside", sum(1 for m in masks if m == 1))
        run.count("ap_particles_outside", sum(1 for m in masks if m == 0))
        prob = aperture_oracle(kw, beam, out)
        if prob:
            oracle_bad.append({"kind": "aperture", "aperture": kw, "beam": beam, "observed": out, "problems": prob,
                               "relation": "active aperture zeroes survival strictly outside, keeps it strictly inside, leaves everything else untouched"})
        cases.append((kw, beam, out))
        terms.append(f"mkapcase {coq_ap(kw)} {coq_pbeam(beam)} {coq_pbeam(out)}")
    if cases:
        run.sample({"aperture": cases[0][0], "beam": cases[0][1], "observed_survival": cases[0][2]["survival"]})
    failing = common.run_shards(PID, "ap", PREAMBLE, terms, "ap_check", shard=50, jobs=8)
    run.cov["traces_validated_against_impl"] += len(cases)
    return cases, failing, oracle_bad


def parameter_passthrough(run, n):
    """ParameterBeam through an aperture: returned as is (bit for bit)."""
    import cheetah
    bad = []
    for _ in range(n):
        kw, _b = gen_aperture_case(run.rng)
        pb = realgen.gen_parameter_beam(run.rng)
        ap = cheetah.Aperture(x_max=torch.tensor(kw["x_max"], dtype=DT), y_max=torch.tensor(kw["y_max"], dtype=DT),
                              shape=kw["shape"], is_active=kw["is_active"], name="ap", dtype=DT)
        b = realgen.build_beam(pb)
        o = ap.track(b)
        same = (isinstance(o, cheetah.ParameterBeam) and torch.equal(o._mu, b._mu) and torch.equal(o._cov, b._cov)
                and torch.equal(o.energy, b.energy) and torch.equal(o.total_charge, b.total_charge))
        run.add_case(["ap_param", kw, pb], True)
        run.count("ap_parameter_beam")
        if not same:
            bad.append({"kind": "aperture_parameter", "aperture": kw, "beam": pb,
                        "relation": "Aperture.track(ParameterBeam) returns the beam unchanged"})
    return bad


# ---------------------------------------------------------------- exact lattices: apertures / screens / drifts / markers, nested
def gen_exact_leaf(rng, i):
    k = rng.randrange(10)
    if k < 4:
        shape = rng.choice(["rectangular", "elliptical"])
        if shape == "rectangular":
            pool = [j * 0.125 + 2.0 ** -16 for j in (1, 2, 4, 6, 8, 12, 16)] + [INF]
        else:
            pool = [0.5, 1.0, 2.0, 4.0, INF]
        return {"cls": "Aperture", "name": f"a{i}", "kw": {"x_max": rng.choice(pool), "y_max": rng.choice(pool), "shape": shape,
                                                          "is_active": rng.random() < 0.8}}
    if k < 6:
        return {"cls": "Screen", "name": f"s{i}", "kw": {"is_active": rng.random() < 0.6, "is_blocking": rng.random() < 0.35}}
    if k < 9:
        return {"cls": "Drift", "name": f"d{i}", "kw": {"length": rng.choice([0.25, 0.5, 1.0, 2.0, 0.0]), "tracking_method": "cheetah"}}
    return {"cls": "Marker", "name": f"m{i}", "kw": {}}


def gen_exact_tree(rng, depth, n_max, counter):
    es = []
    for _ in range(rng.randrange(0 if depth < 2 else 1, n_max + 1)):
        counter[0] += 1
        if depth > 0 and rng.random() < 0.25:
            es.append(gen_exact_tree(rng, depth - 1, max(2, n_max // 2), counter))
        else:
            es.append(gen_exact_leaf(rng, counter[0]))
    counter[0] += 1
    return {"cls": "Segment", "name": f"seg{counter[0]}", "es": es}


def gen_exact_beam(rng):
    n = rng.randrange(1, 6)
    g = 2.0 ** -12

    def c(scale):
        return rng.randrange(-int(scale / g), int(scale / g) + 1) * g
    ps = [[c(2.0), c(0.5), c(2.0), c(0.5), c(0.01), c(0.01), 1.0] for _ in range(n)]
    return {"type": "particle", "particles": ps, "energy": rng.choice(realgen.ENERGIES),
            "charges": [rng.choice([1e-12, 2e-12, 0.0, 1.0]) for _ in range(n)],
            "survival": [rng.choice([1.0, 1.0, 1.0, 0.5, 0.0]) for _ in range(n)]}


def flat_leaves(spec):
    if spec["cls"] == "Segment":
        out = []
        for c in spec["es"]:
            out += flat_leaves(c)
        return out
    return [spec]


def fold_expect(spec, beam):
    """Specification-side run on the implementation: the flattened elements one after another, with the aperture
    decision taken by the exact Python specification.  Returns (expected survival or None if an edge was hit, final beam)."""
    b = realgen.build_beam(beam)
    surv = list(beam["survival"])
    for leaf in flat_leaves(spec):
        if leaf["cls"] == "Aperture" and leaf["kw"]["is_active"]:
            xs, ys = b.particles[..., 0].reshape(-1).tolist(), b.particles[..., 2].reshape(-1).tolist()
            for i, (x, y) in enumerate(zip(xs, ys)):
                m = expected_mask(leaf["kw"], x, y)
                if m is None:
                    return None, None
                if m == 0:
                    surv[i] = 0.0
        if leaf["cls"] == "Screen" and leaf["kw"]["is_active"] and leaf["kw"]["is_blocking"]:
            surv = [0.0] * len(surv)
        b = realgen.build(leaf).track(b)
    return surv, b


def exact_lattice_stage(run, n_cases, depth):
    cases, terms, oracle_bad = [], [], []
    tries = 0
    while len(cases) < n_cases and tries < 4 * n_cases:
        tries += 1
        tree = gen_exact_tree(run.rng, depth, 6, [0])
        beam = gen_exact_beam(run.rng)
        exp_surv, _ = fold_expect(tree, beam)
        if exp_surv is None:
            run.count("lat_discarded_edge")
            continue
        seg = realgen.build(tree)
        out = observe_pbeam(seg.track(realgen.build_beam(beam)))
        leaves = flat_leaves(tree)
        blocking = any(l["cls"] == "Screen" and l["kw"]["is_active"] and l["kw"]["is_blocking"] for l in leaves)
        n_ap = sum(1 for l in leaves if l["cls"] == "Aperture" and l["kw"]["is_active"])
        run.add_case(["lat", tree, beam], n_ap >= 1 or blocking)
        run.count("lat_active_apertures_%d" % min(n_ap, 4))
        run.count("lat_blocking_screen" if blocking else "lat_no_blocking_screen")
        run.count("lat_skippable_segment" if seg.is_skippable else "lat_non_skippable_segment")
        prob = []
        if out["survival"] != exp_surv:
            prob.append(f"survival {out['survival']} expected {exp_surv}")
        if out["charges"] != beam["charges"] or len(out["particles"]) != len(beam["particles"]):
            prob.append("charges / number of particles changed")
        if out["energy"] != beam["energy"]:
            prob.append("energy changed without a cavity")
        if any(s2 > s for s, s2 in zip(beam["survival"], out["survival"])):
            prob.append("a survival probability increased")
        if prob:
            oracle_bad.append({"kind": "lattice_exact", "lattice": tree, "beam": beam, "observed": out, "problems": prob,
                               "relation": "survival after a lattice = incoming survival zeroed by every active aperture the particle misses and by any blocking active screen"})
        cases.append((tree, beam, out))
        terms.append(f"mklat {coq_tree(tree)} {coq_pbeam(beam)} {coq_pbeam(out)}")
    if cases:
        run.sample({"lattice": cases[0][0], "beam": cases[0][1], "observed_survival": cases[0][2]["survival"]})
    failing = common.run_shards(PID, "lat", PREAMBLE, terms, "lat_check", shard=50, jobs=8)
    run.cov["traces_validated_against_impl"] += len(cases)
    return cases, failing, oracle_bad


# ---------------------------------------------------------------- statistics
def gen_stats_case(rng):
    n = rng.randrange(2, 9)
    while True:
        if rng.random() < 0.6:
            w = [rng.choice([1.0, 1.0, 0.0]) for _ in range(n)]
        else:
            w = [rng.choice([1.0, 0.5, 0.25, 0.75, 0.3, 0.0]) for _ in range(n)]
        W = sum(w)
        if W > 0 and W - sum(v * v for v in w) / W >= 0.3:
            break
    scale = rng.choice([1e-3, 1.0, 50.0])
    off = rng.choice([0.0, 0.0, scale, -2 * scale])
    ps = [[off + rng.uniform(-scale, scale), rng.uniform(-1e-3, 1e-3) * rng.choice([1, 1, 100]), rng.uniform(-scale, scale),
           rng.uniform(-1e-3, 1e-3), rng.uniform(-1e-3, 1e-3), rng.uniform(-1e-3, 1e-3), 1.0] for _ in range(n)]
    return {"type": "particle", "particles": ps, "energy": rng.choice(realgen.ENERGIES),
            "charges": [rng.choice([1e-12, 2e-12, 5e-13, 0.0]) for _ in range(n)], "survival": w}


def observe_stats(beam):
    from cheetah.utils.statistics import unbiased_weighted_variance
    b = realgen.build_beam(beam)
    return {"mu_x": float(b.mu_x), "mu_px": float(b.mu_px), "var_x": float(unbiased_weighted_variance(b.x, b.survival_probabilities, dim=-1)),
            "sigma_xpx": float(b.sigma_xpx), "sigma_x": float(b.sigma_x), "total_charge": float(b.total_charge),
            "nsurv": float(b.num_particles_survived)}


def stats_term(beam, o):
    xs = [p[0] for p in beam["particles"]]
    ys = [p[1] for p in beam["particles"]]
    ql = lambda l: coq_list([qlit(v) for v in l])  # noqa: E731
    sx, sy = max(abs(v) for v in xs), max(abs(v) for v in ys)
    sq = max([abs(v) for v in beam["charges"]] + [1e-30]) * len(xs)
    return (f"mkst {ql(xs)} {ql(ys)} {ql(beam['charges'])} {ql(beam['survival'])} (1 # {2 ** 36}) {qlit(sx)} {qlit(sy)} {qlit(sq)} "
            f"{qlit(o['mu_x'])} {qlit(o['mu_px'])} {qlit(o['var_x'])} {qlit(o['sigma_xpx'])} {qlit(o['sigma_x'])} {qlit(o['total_charge'])} {qlit(o['nsurv'])}")


STAT_NAMES = ["mu_x", "mu_px", "mu_y", "mu_py", "mu_tau", "mu_p", "sigma_x", "sigma_px", "sigma_y", "sigma_py", "sigma_tau", "sigma_p",
              "sigma_xpx", "sigma_ypy", "total_charge", "num_particles_survived"]


def stats_filtered_oracle(beam):
    """every statistic of a beam with 0/1 survival equals that of the beam with the lost particles deleted"""
    w = beam["survival"]
    if any(v not in (0.0, 1.0) for v in w) or sum(w) < 2:
        return None
    keep = [i for i, v in enumerate(w) if v == 1.0]
    sub = {"type": "particle", "particles": [beam["particles"][i] for i in keep], "energy": beam["energy"],
           "charges": [beam["charges"][i] for i in keep], "survival": [1.0] * len(keep)}
    a, b = realgen.build_beam(beam), realgen.build_beam(sub)
    bad = []
    scale = max(abs(v) for p in beam["particles"] for v in p[:6])
    for nme in STAT_NAMES:
        va, vb = float(getattr(a, nme)), float(getattr(b, nme))
        tol = 1e-9 * max(abs(va), abs(vb)) + 1e-12 * (scale if nme != "total_charge" else 1e-12)
        if not (abs(va - vb) <= tol):
            bad.append(f"{nme}: with lost particles {va!r}, with them deleted {vb!r}")
    # and the survivors' statistics are the textbook unbiased sample statistics (exact rational reference)
    n = len(keep)
    cols = {"x": 0, "px": 1, "y": 2, "py": 3, "tau": 4, "p": 5}
    fr = {c: [Fraction(beam["particles"][i][j]) for i in keep] for c, j in cols.items()}
    mean = {c: sum(v) / n for c, v in fr.items()}

    def cov(c1, c2):
        return sum((u - mean[c1]) * (v - mean[c2]) for u, v in zip(fr[c1], fr[c2])) / (n - 1)
    ref = {"mu_" + c: float(mean[c]) for c in cols}
    ref.update({"sigma_" + c: math.sqrt(float(cov(c, c))) for c in cols})
    ref.update({"sigma_xpx": float(cov("x", "px")), "sigma_ypy": float(cov("y", "py")),
                "total_charge": float(sum(Fraction(beam["charges"][i]) for i in keep)), "num_particles_survived": float(n)})
    for nme, vr in ref.items():
        va = float(getattr(a, nme))
        tol = 1e-9 * max(abs(va), abs(vr)) + 1e-11 * (scale * (scale if nme in ("sigma_xpx", "sigma_ypy") else 1.0) if nme != "total_charge" else 1e-12)
        if not (abs(va - vr) <= tol):
            bad.append(f"{nme}: {va!r}, unbiased sample statistic of the survivors {vr!r}")
    return bad


# ---------------------------------------------------------------- statistics of VECTORISED beams (survival with a batch dimension)
def gen_weight_row(rng, n):
    while True:
        if rng.random() < 0.6:
            w = [rng.choice([1.0, 1.0, 0.0]) for _ in range(n)]
        else:
            w = [rng.choice([1.0, 0.5, 0.25, 0.75, 0.3, 0.0]) for _ in range(n)]
        W = sum(w)
        if W > 0 and W - sum(v * v for v in w) / W >= 0.3:
            return w


def gen_vec_stats_case(rng):
    """a beam whose survival probabilities carry a batch dimension of 2-3 entries with a different loss pattern each:
    mode 'survival'  -- constructed with survival_probabilities of shape (B, n), coordinates shared by the entries
    mode 'full'      -- coordinates (B, n, 7), charges and survival (B, n): every entry is a beam of its own
    mode 'aperture'  -- a plain beam through an active Aperture whose x_max (or y_max) is a vector of B half-sizes"""
    mode = rng.choice(["survival", "full", "aperture", "aperture"])
    B = rng.choice([2, 3])
    n = rng.randrange(4, 9)
    proto = None
    while proto is None or len(proto["particles"]) != n:
        proto = gen_stats_case(rng)
    case = {"mode": mode, "energy": proto["energy"]}
    if mode == "full":
        entries = [proto]
        while len(entries) < B:
            e = gen_stats_case(rng)
            if len(e["particles"]) == n:
                entries.append(e)
        case.update(particles=[e["particles"] for e in entries], charges=[e["charges"] for e in entries], survival=[e["survival"] for e in entries])
        return case
    case.update(particles=proto["particles"], charges=proto["charges"])
    if mode == "survival":
        rows = [proto["survival"]]
        while len(rows) < B:
            r = gen_weight_row(rng, n)
            if r not in rows:
                rows.append(r)
        case["survival"] = rows
        return case
    # aperture: half-sizes strictly between the k-th and (k+1)-th smallest |coordinate| (k >= 2 survivors at least, a different k per entry)
    axis = rng.choice(["x", "y"])
    col = 0 if axis == "x" else 2
    mags = sorted(abs(p[col]) for p in proto["particles"])
    ks = rng.sample(range(2, n + 1), B)
    half = [(mags[k - 1] + mags[k]) / 2 if k < n else mags[-1] * 2 for k in ks]
    case.update(survival=[1.0] * n if rng.random() < 0.7 else [rng.choice([1.0, 1.0, 0.5, 0.75]) for _ in range(n)],
                aperture={"axis": axis, "half_sizes": half, "shape": rng.choice(["rectangular", "elliptical"])})
    return case


def build_vec(case):
    """the vectorised beam of a case (for mode 'aperture': after the vectorised aperture) and the list of per-entry scalar beam specs"""
    import cheetah
    T = lambda v: torch.tensor(v, dtype=DT)  # noqa: E731
    b = cheetah.ParticleBeam(T(case["particles"]), T(case["energy"]), particle_charges=T(case["charges"]),
                             survival_probabilities=T(case["survival"]), dtype=DT)
    if case["mode"] == "full":
        entries = [{"type": "particle", "particles": p, "energy": case["energy"], "charges": c, "survival": w}
                   for p, c, w in zip(case["particles"], case["charges"], case["survival"])]
        return b, entries
    if case["mode"] == "survival":
        return b, [{"type": "particle", "particles": case["particles"], "energy": case["energy"], "charges": case["charges"], "survival": w}
                   for w in case["survival"]]
    ap = case["aperture"]
    hs = T(ap["half_sizes"])
    other = T(INF)
    el = cheetah.Aperture(x_max=hs if ap["axis"] == "x" else other, y_max=hs if ap["axis"] == "y" else other, shape=ap["shape"], is_active=True,
                          name="vap", dtype=DT)
    out = el.track(b)
    entries = []
    for h in ap["half_sizes"]:
        e1 = cheetah.Aperture(x_max=T(h) if ap["axis"] == "x" else other, y_max=T(h) if ap["axis"] == "y" else other, shape=ap["shape"],
                              is_active=True, name="sap", dtype=DT)
        entries.append(observe_pbeam(e1.track(b)))
    return out, entries


def vec_stats_oracle(case):
    """Every statistic of entry i of the vectorised beam == the statistic of the un-vectorised beam of entry i (same coordinates, charges and
    survival), which in turn (0/1 survival) == the statistic of the beam with the lost particles deleted.  Returns (problems, entries, observed)."""
    try:
        vb, entries = build_vec(case)
    except Exception as ex:
        return [f"building / tracking the vectorised beam raised {ex!r}"[:300]], [], []
    B = len(entries)
    prob, observed = [], []
    surv = vb.survival_probabilities
    if tuple(surv.shape) != (B, len(entries[0]["particles"])):
        prob.append(f"survival_probabilities of the vectorised beam have shape {tuple(surv.shape)}, expected {(B, len(entries[0]['particles']))}")
        return prob, entries, observed
    vec = {}
    for nme in STAT_NAMES:
        try:
            v = getattr(vb, nme)
            v = torch.as_tensor(v, dtype=DT).reshape(-1).tolist()
        except Exception as ex:
            prob.append(f"{nme} of the vectorised beam raised {ex!r}"[:300])
            continue
        if len(v) != B:
            prob.append(f"{nme} of the vectorised beam has {len(v)} entries, expected {B}")
            continue
        vec[nme] = v
    for i, e in enumerate(entries):
        if surv[i].tolist() != e["survival"]:
            prob.append(f"entry {i}: survival {surv[i].tolist()} but the un-vectorised aperture gives {e['survival']}")
            continue
        a = realgen.build_beam(e)
        scale = max(abs(v) for p in e["particles"] for v in p[:6])
        keep = [k for k, v in enumerate(e["survival"]) if v == 1.0]
        deleted = None
        if all(v in (0.0, 1.0) for v in e["survival"]) and len(keep) >= 2:
            deleted = realgen.build_beam({"type": "particle", "particles": [e["particles"][k] for k in keep], "energy": e["energy"],
                                          "charges": [e["charges"][k] for k in keep], "survival": [1.0] * len(keep)})
        for nme, v in vec.items():
            for ref, label in ((a, "un-vectorised beam with the same losses"), (deleted, "beam with the lost particles deleted")):
                if ref is None:
                    continue
                vr = float(getattr(ref, nme))
                tol = 1e-9 * max(abs(v[i]), abs(vr)) + 1e-12 * (scale * (scale if nme in ("sigma_xpx", "sigma_ypy") else 1.0) if nme != "total_charge" else 1e-12)
                if not (abs(v[i] - vr) <= tol):
                    prob.append(f"entry {i} {nme}: vectorised beam {v[i]!r}, {label} {vr!r}")
    # observation of each entry for the Coq statistics model
    try:
        from cheetah.utils.statistics import unbiased_weighted_variance
        var = torch.as_tensor(unbiased_weighted_variance(vb.x, surv, dim=-1), dtype=DT).reshape(-1).tolist()
        if not prob and len(var) == B:
            for i in range(B):
                observed.append({"mu_x": vec["mu_x"][i], "mu_px": vec["mu_px"][i], "var_x": var[i], "sigma_xpx": vec["sigma_xpx"][i],
                                 "sigma_x": vec["sigma_x"][i], "total_charge": vec["total_charge"][i], "nsurv": vec["num_particles_survived"][i]})
    except Exception as ex:
        prob.append(f"unbiased_weighted_variance on vectorised weights raised {ex!r}"[:300])
    return prob, entries, observed


def shrink_vec_case(case):
    """keep two entries only, while the failure persists"""
    try:
        B = len(case["survival"]) if case["mode"] != "aperture" else len(case["aperture"]["half_sizes"])
        if B <= 2:
            return case
        for drop in range(B):
            c2 = copy.deepcopy(case)
            if case["mode"] == "aperture":
                del c2["aperture"]["half_sizes"][drop]
            else:
                for k in ("survival",) + (("particles", "charges") if case["mode"] == "full" else ()):
                    del c2[k][drop]
            if vec_stats_oracle(c2)[0]:
                return c2
    except Exception:
        pass
    return case


def stats_stage(run, n_cases, n_vec=0):
    cases, terms, oracle_bad = [], [], []
    for _ in range(n_cases):
        beam = gen_stats_case(run.rng)
        o = observe_stats(beam)
        if not all(math.isfinite(v) for v in o.values()):
            run.count("stats_discarded_nonfinite")
            continue
        zero_one = all(v in (0.0, 1.0) for v in beam["survival"])
        run.add_case(["stats", beam], any(v != 1.0 for v in beam["survival"]))
        run.count("stats_01_weights" if zero_one else "stats_fractional_weights")
        prob = stats_filtered_oracle(beam)
        if prob:
            oracle_bad.append({"kind": "stats_filtered", "beam": beam, "problems": prob,
                               "relation": "statistics of a beam with lost particles == statistics of the beam with those particles deleted"})
        elif prob is not None:
            run.count("stats_filtered_oracle_runs")
        cases.append((beam, o))
        terms.append(stats_term(beam, o))
    # vectorised beams: survival probabilities with a batch dimension (constructed so, or produced by a vectorised aperture)
    vec_bad = []
    for _ in range(n_vec):
        case = gen_vec_stats_case(run.rng)
        prob, entries, observed = vec_stats_oracle(case)
        lost = any(v != 1.0 for row in (case["survival"] if case["mode"] != "aperture" else [[0.0]]) for v in row)
        run.add_case(["stats_vec", case], lost)
        run.count("stats_vectorised_" + case["mode"])
        if prob:
            case = shrink_vec_case(case)
            vec_bad.append({"kind": "stats_vectorised", "case": case, "problems": vec_stats_oracle(case)[0] or prob,
                            "relation": "every statistic of entry i of a beam with vectorised survival == that statistic of the un-vectorised beam of "
                                        "entry i == (0/1 survival) that of the beam with the lost particles deleted"})
            continue
        for e, o in zip(entries, observed):
            if all(math.isfinite(v) for v in o.values()):
                run.count("stats_vectorised_entries")
                cases.append((dict(e, vectorised_entry_of=case["mode"]), o))
                terms.append(stats_term(e, o))
    oracle_bad.extend(sorted(vec_bad, key=lambda it: len(json.dumps(it["case"]))))      # the smallest failing case first
    if cases:
        run.sample({"stats_beam": cases[0][0], "observed": cases[0][1]})
    failing = common.run_shards(PID, "stats", PREAMBLE, terms, "st_check", shard=50, jobs=8)
    run.cov["traces_validated_against_impl"] += len(cases)
    return cases, failing, oracle_bad


# ---------------------------------------------------------------- VECTORISED apertures: half sizes with a batch shape, +inf next to finite entries
VDT = {"float32": torch.float32, "float64": torch.float64}
VHALF = [0.5, 1.0, 0.25, 2.0, 0.125]          # dyadic (exact in float32); particle coordinates are odd multiples of 1/128: never on an edge
VQ = [2.0 ** -40, 2.0 ** -39, 0.0, 1.0, 3 * 2.0 ** -41]


def nested(shape, fn, idx=()):
    """nested list of the given shape with entries fn(multi-index)"""
    if not shape:
        return fn(idx)
    return [nested(shape[1:], fn, idx + (k,)) for k in range(shape[0])]


def at(nest, idx):
    for k in idx:
        nest = nest[k]
    return nest


def bshape(*shapes):
    return tuple(torch.broadcast_shapes(*[tuple(s) for s in shapes]))


def bidx(idx, shape, full):
    """the index into a tensor of batch shape `shape` that entry `idx` of the broadcast batch shape `full` reads"""
    off = len(full) - len(shape)
    return tuple(0 if shape[k] == 1 else idx[off + k] for k in range(len(shape)))


def shape_of(nest, inner):
    """batch shape of a nested list whose innermost `inner` levels are data"""
    s = []
    while isinstance(nest, list):
        s.append(len(nest))
        nest = nest[0]
    return tuple(s[:len(s) - inner])


def gen_half_vectors(rng, layout, B):
    """(x_max, y_max) as nested lists / floats: batch shapes mixing +inf and finite entries"""
    fin = lambda: rng.choice(VHALF)  # noqa: E731

    def mixed(n):
        while True:
            v = [INF if rng.random() < 0.45 else fin() for _ in range(n)]
            if INF in v and any(h != INF for h in v):
                return v
    if layout == "x_only":
        return mixed(B), rng.choice([INF, INF, fin()])
    if layout == "y_only":
        return rng.choice([INF, INF, fin()]), mixed(B)
    if layout == "both_same":
        x = mixed(B)
        return x, [INF if h == INF else fin() for h in x]
    if layout == "both_opposite":
        x = mixed(B)
        return x, [fin() if h == INF else INF for h in x]
    if layout == "outer":                         # x_max (B, 1) against y_max (B2,)
        return [[h] for h in mixed(B)], mixed(rng.choice([2, 3]))
    if layout == "finite":
        return [fin() for _ in range(B)], [fin() for _ in range(B)]
    if layout == "all_inf_x":
        return [INF] * B, mixed(B)
    raise ValueError(layout)


def gen_vec_aperture_case(rng):
    layout = rng.choice(["x_only", "y_only", "both_same", "both_opposite", "both_opposite", "outer", "finite", "all_inf_x"])
    B = rng.choice([2, 3, 4])
    xm, ym = gen_half_vectors(rng, layout, B)
    ap_shape = bshape(shape_of(xm, 0), shape_of(ym, 0))
    n = rng.randrange(3, 7)
    g = lambda s: (2 * rng.randrange(-int(s * 64) - 1, int(s * 64) + 1) + 1) / 128  # noqa: E731

    def particle():
        return [g(rng.choice([0.3, 1.2, 2.5])), g(0.5), g(rng.choice([0.3, 1.2, 2.5])), g(0.5), g(0.01), g(0.01), 1.0]
    beam_mode = rng.choice(["plain", "plain", "batch", "survival", "outer"])
    if beam_mode == "plain":
        bs = ()
    elif beam_mode in ("batch", "survival"):
        bs = (ap_shape[-1],)                      # lines up with the last batch dimension of the aperture
    else:
        bs = (rng.choice([2, 3]),) + (1,) * len(ap_shape)      # a leading batch dimension of the beam: every beam x every aperture
    proto = [particle() for _ in range(n)]
    if beam_mode in ("batch", "outer"):
        parts = nested(bs, lambda i: [particle() for _ in range(n)])
    else:
        parts = proto
    srow = lambda: [rng.choice([1.0, 1.0, 1.0, 0.5, 0.25, 0.0]) for _ in range(n)]  # noqa: E731
    surv = nested(bs, lambda i: srow()) if beam_mode != "plain" and rng.random() < 0.8 else srow()
    return {"layout": layout, "x_max": xm, "y_max": ym, "shape": rng.choice(["rectangular", "elliptical"]), "is_active": rng.random() < 0.85,
            "dtype": rng.choice(["float64", "float64", "float32"]), "beam_mode": beam_mode, "particles": parts, "survival": surv,
            "charges": [rng.choice(VQ) for _ in range(n)], "energy": rng.choice(realgen.ENERGIES),
            "where": rng.choice(["alone", "alone", "segment", "segment_drift", "two_apertures"])}


def vec_aperture_objects(case):
    import cheetah
    dt = VDT[case["dtype"]]
    T = lambda v: torch.tensor(v, dtype=dt)  # noqa: E731
    beam = cheetah.ParticleBeam(T(case["particles"]), T(case["energy"]), particle_charges=T(case["charges"]),
                                survival_probabilities=T(case["survival"]), dtype=dt)
    ap = cheetah.Aperture(x_max=T(case["x_max"]), y_max=T(case["y_max"]), shape=case["shape"], is_active=case["is_active"], name="vap", dtype=dt)
    return beam, ap, dt


def scalar_aperture(kw, dt, name="sap"):
    import cheetah
    return cheetah.Aperture(x_max=torch.tensor(kw["x_max"], dtype=dt), y_max=torch.tensor(kw["y_max"], dtype=dt), shape=kw["shape"],
                            is_active=kw["is_active"], name=name, dtype=dt)


def vec_aperture_oracle(case, want_terms=False):
    """Entry by entry, a vectorised aperture is the scalar aperture of that entry: survival (exact specification and the real un-vectorised
    Aperture), untouched coordinates / charges / energy, broadcast shape of the survival tensor, total charge, and every beam statistic of
    the entry.  Returns (problems, coq_cases) with coq_cases = [(kw, beam_in, beam_out_observed)] per entry for ap_check."""
    import cheetah
    prob, coq_cases = [], []
    try:
        beam, ap, dt = vec_aperture_objects(case)
        pre = None
        if case["where"] == "alone":
            out = ap.track(beam)
            at_ap = beam
        elif case["where"] == "segment":
            out = cheetah.Segment([cheetah.Marker(name="m0"), ap, cheetah.Marker(name="m1")]).track(beam)
            at_ap = beam
        elif case["where"] == "segment_drift":
            pre = cheetah.Drift(length=torch.tensor(0.5, dtype=dt), name="d0", dtype=dt)
            post = cheetah.Drift(length=torch.tensor(0.25, dtype=dt), name="d1", dtype=dt)
            out = cheetah.Segment([pre, ap, post]).track(beam)
            at_ap = pre.track(beam)
        else:                                    # two vectorised apertures in a row (the second one: the transposed half sizes)
            ap2 = cheetah.Aperture(x_max=ap.y_max.clone(), y_max=ap.x_max.clone(), shape=case["shape"], is_active=case["is_active"], name="vap2", dtype=dt)
            out = cheetah.Segment([ap, ap2]).track(beam)
            at_ap = beam
    except Exception as ex:
        return [f"building / tracking raised {ex!r}"[:300]], coq_cases
    n = len(case["charges"])
    beam_bs = bshape(tuple(beam.particles.shape[:-2]), tuple(beam.survival_probabilities.shape[:-1]))
    ap_bs = bshape(tuple(ap.x_max.shape), tuple(ap.y_max.shape))
    full = bshape(beam_bs, ap_bs) if case["is_active"] else beam_bs
    if not isinstance(out, cheetah.ParticleBeam):
        return ["outgoing beam is not a ParticleBeam"], coq_cases
    so = out.survival_probabilities
    want_shape = full + (n,) if case["is_active"] else tuple(beam.survival_probabilities.shape)
    if tuple(so.shape) != want_shape:
        return [f"survival_probabilities of the outgoing beam have shape {tuple(so.shape)}, expected {want_shape} "
                f"(beam batch {beam_bs} x aperture batch {ap_bs})"], coq_cases
    so = torch.broadcast_to(so, full + (n,))
    if case["where"] in ("alone", "segment", "two_apertures"):
        if not torch.equal(out.particles, beam.particles):
            prob.append("coordinates changed")
    if not torch.equal(out.particle_charges, beam.particle_charges) or not torch.equal(out.energy, beam.energy):
        prob.append("charges / energy changed")
    P_ap = torch.broadcast_to(at_ap.particles, full + (n, 7)) if case["is_active"] else None
    S_in = torch.broadcast_to(beam.survival_probabilities, full + (n,))
    P_in = torch.broadcast_to(beam.particles, full + (n, 7))
    xs, ys = torch.broadcast_to(ap.x_max, ap_bs), torch.broadcast_to(ap.y_max, ap_bs)
    tq = torch.as_tensor(out.total_charge, dtype=torch.float64)
    if case["is_active"] and tuple(tq.shape) != full:
        prob.append(f"total_charge has shape {tuple(tq.shape)}, expected {full}")
    stats = {}
    for nme in STAT_NAMES:
        try:
            v = torch.as_tensor(getattr(out, nme), dtype=torch.float64)
            stats[nme] = torch.broadcast_to(v, full) if v.dim() <= len(full) else v
        except Exception as ex:
            prob.append(f"{nme} of the outgoing beam raised {ex!r}"[:300])
    eps = 1e-6 if case["dtype"] == "float32" else 1e-12
    for idx in ([()] if not full else [tuple(i) for i in torch.cartesian_prod(*[torch.arange(s) for s in full]).reshape(-1, len(full)).tolist()]):
        if len(prob) > 6:
            break
        s_in = [float(v) for v in S_in[idx]]
        s_out = [float(v) for v in so[idx]]
        if not case["is_active"]:
            if s_out != s_in:
                prob.append(f"entry {idx}: inactive aperture changed survival {s_in} -> {s_out}")
            continue
        ai = bidx(idx, ap_bs, full)
        kw = {"x_max": float(xs[ai]), "y_max": float(ys[ai]), "shape": case["shape"], "is_active": True}
        kws = [kw] + ([{"x_max": kw["y_max"], "y_max": kw["x_max"], "shape": case["shape"], "is_active": True}] if case["where"] == "two_apertures" else [])
        rows = [[float(v) for v in r] for r in P_ap[idx]]
        masks = [[expected_mask(k, r[0], r[2]) for r in rows] for k in kws]
        if any(m is None for ms in masks for m in ms):
            continue                              # (only after a drift: a coordinate on an edge is unspecified)
        exp = [s * min(ms[i] for ms in masks) if min(ms[i] for ms in masks) == 1 else 0.0 for i, s in enumerate(s_in)]
        if s_out != exp:
            prob.append(f"entry {idx} (x_max={kw['x_max']!r}, y_max={kw['y_max']!r}): survival {s_out}, expected {exp} "
                        f"(incoming {s_in}, x={[r[0] for r in rows]}, y={[r[2] for r in rows]})")
            continue
        # the real un-vectorised aperture(s) on the un-vectorised beam of this entry
        e_in = {"type": "particle", "particles": [[float(v) for v in r] for r in P_in[idx]], "energy": float(beam.energy), "charges":
                [float(v) for v in beam.particle_charges], "survival": s_in}
        b1 = realgen.build_beam(e_in, dtype=dt)
        if case["where"] == "segment_drift":
            b1 = pre.track(b1)
        e_at = observe_pbeam(b1)
        for k in kws:
            b1 = scalar_aperture(k, dt).track(b1)
        if tuple(b1.survival_probabilities.shape) != (n,):
            prob.append(f"entry {idx}: the un-vectorised aperture on the un-vectorised beam returns survival_probabilities of shape "
                        f"{tuple(b1.survival_probabilities.shape)}, expected {(n,)}")
            continue
        if [float(v) for v in b1.survival_probabilities] != s_out:
            prob.append(f"entry {idx}: vectorised aperture gives survival {s_out}, the un-vectorised aperture x_max={kw['x_max']!r}, "
                        f"y_max={kw['y_max']!r} gives {[float(v) for v in b1.survival_probabilities]}")
            continue
        if case["where"] != "two_apertures":
            coq_cases.append((kw, e_at, dict(e_at, survival=s_out)))
        # total charge and every statistic of the entry
        qf = sum(Fraction(q) * Fraction(s) for q, s in zip(e_in["charges"], s_out))
        if tuple(tq.shape) == full and not abs(float(tq[idx]) - float(qf)) <= eps * max(float(qf), 1e-300) * 8:
            prob.append(f"entry {idx}: total_charge {float(tq[idx])!r}, sum of charge x survival {float(qf)!r}")
        ref = realgen.build_beam(dict(e_in, survival=s_out, particles=[[float(v) for v in r] for r in torch.broadcast_to(out.particles, full + (n, 7))[idx]]), dtype=dt)
        scale = max(abs(v) for r in rows for v in r[:6])
        for nme, v in stats.items():
            if tuple(v.shape) != full:
                prob.append(f"{nme} has shape {tuple(v.shape)}, expected {full}")
                continue
            vr = float(torch.as_tensor(getattr(ref, nme), dtype=torch.float64))
            va = float(v[idx])
            if not math.isfinite(vr):
                continue                          # fewer than two survivors: statistic undefined
            tol = 1e3 * eps * max(abs(va), abs(vr)) + eps * (scale * (scale if nme in ("sigma_xpx", "sigma_ypy") else 1.0) if nme != "total_charge" else 1e-12)
            if not abs(va - vr) <= tol:
                prob.append(f"entry {idx} {nme}: vectorised beam {va!r}, un-vectorised beam with the same losses {vr!r}")
    return prob, coq_cases


def shrink_vec_aperture(case):
    """un-vectorise what can be un-vectorised, drop particles, while the failure persists"""
    def fails(c):
        try:
            return bool(vec_aperture_oracle(c)[0])
        except Exception:
            return False
    if not fails(case):
        return case
    for cand in ({"where": "alone"}, {"dtype": "float64"}, {"beam_mode": "plain", "particles": None, "survival": None}):
        c2 = copy.deepcopy(case)
        c2.update(cand)
        if cand.get("beam_mode") == "plain":
            p, s = case["particles"], case["survival"]
            while isinstance(p[0][0], list):
                p = p[0]
            while isinstance(s[0], list):
                s = s[0]
            c2["particles"], c2["survival"] = p, s
        if c2 != case and fails(c2):
            case = c2
    if case["beam_mode"] == "plain":
        k = 0
        while len(case["charges"]) > 1 and k < len(case["charges"]):
            c2 = copy.deepcopy(case)
            for key in ("particles", "survival", "charges"):
                del c2[key][k]
            if fails(c2):
                case = c2
            else:
                k += 1
    return case


def vec_aperture_stage(run, n_cases):
    coq, terms, bad = [], [], []
    import cheetah
    for k in range(n_cases):
        case = gen_vec_aperture_case(run.rng)
        try:
            prob, coq_cases = vec_aperture_oracle(case)
        except Exception as ex:                   # an exception raised while observing the implementation is an observation
            prob, coq_cases = [f"observing the vectorised aperture raised {ex!r}"[:300]], []
        run.add_case(["ap_vec", case], case["is_active"])
        run.count("apvec_layout_" + case["layout"])
        run.count("apvec_beam_" + case["beam_mode"])
        run.count("apvec_" + case["where"])
        run.count("apvec_" + case["dtype"] + "_" + case["shape"] + ("" if case["is_active"] else "_inactive"))
        if prob:
            case = shrink_vec_aperture(case)
            try:
                prob = vec_aperture_oracle(case)[0] or prob
            except Exception:
                pass
            bad.append({"kind": "aperture_vectorised", "case": case, "problems": prob,
                        "relation": "entry by entry a vectorised aperture acts like the un-vectorised aperture with that entry's half sizes: survival "
                                    "zeroed strictly outside, kept strictly inside; survival tensor of the broadcast shape; total charge and statistics per entry"})
            continue
        for kw, e_in, e_out in coq_cases[:8]:
            if finite_beam(e_in):
                run.count("apvec_entries_checked_in_coq")
                coq.append((kw, e_in, e_out))
                terms.append(f"mkapcase {coq_ap(kw)} {coq_pbeam(e_in)} {coq_pbeam(e_out)}")
        if k % 6 == 0:                            # ParameterBeam through a vectorised aperture: returned as is
            try:
                _b, ap, _dt = vec_aperture_objects(case)
                pb = realgen.gen_parameter_beam(run.rng)
                b = realgen.build_beam(pb)
                o = ap.track(b)
                if not (isinstance(o, cheetah.ParameterBeam) and torch.equal(o._mu, b._mu) and torch.equal(o._cov, b._cov) and torch.equal(o.total_charge, b.total_charge)):
                    bad.append({"kind": "aperture_parameter", "aperture": {"x_max": case["x_max"], "y_max": case["y_max"], "shape": case["shape"],
                                                                             "is_active": case["is_active"]}, "beam": pb,
                                "relation": "Aperture.track(ParameterBeam) returns the beam unchanged"})
            except Exception as ex:
                bad.append({"kind": "aperture_parameter_raises", "case": case, "problems": [repr(ex)[:300]]})
    failing = common.run_shards(PID, "apvec", PREAMBLE, terms, "ap_check", shard=50, jobs=8)
    run.cov["traces_validated_against_impl"] += len(coq)
    bad.sort(key=lambda it: len(json.dumps(it)))
    return coq, failing, bad


# ---------------------------------------------------------------- real lattices: energy / charges / survival / blocking
def real_flat(spec):
    return flat_leaves(spec)


def energy_oracle(lat, beam):
    """Returns (status, problems). status in {"ok","skip:<why>"}."""
    import cheetah
    try:
        seg = realgen.build(lat)
        b = realgen.build_beam(beam)
        out = seg.track(b)
    except Exception as ex:  # inputs the code rejects (e.g. SpaceChargeKick on a ParameterBeam, E + dE <= 0)
        return "skip:exception_" + type(ex).__name__, []
    return accounting(real_flat(lat), b, out)


def accounting(leaves, b, out):
    """the energy / charge / survival clauses for one tracked beam, given the flat element specs the beam went through"""
    import cheetah
    gains = [l["kw"]["voltage"] * math.cos(math.radians(l["kw"]["phase"])) for l in leaves if l["cls"] == "Cavity"]
    e_in, e_out = float(b.energy), float(out.energy)
    prob = []
    if not math.isfinite(e_out):
        return "skip:nonfinite_energy", []
    tol = 1e-9 * max(abs(e_in), abs(e_out), sum(abs(g) for g in gains))
    if abs((e_out - e_in) - sum(gains)) > tol:
        prob.append(f"energy out - in = {e_out - e_in!r}, sum over cavities of V cos(phi) = {sum(gains)!r}")
    blocking = any(l["cls"] == "Screen" and l["kw"]["is_active"] and l["kw"]["is_blocking"] for l in leaves)
    if isinstance(b, cheetah.ParticleBeam):
        if not isinstance(out, cheetah.ParticleBeam) or out.num_particles != b.num_particles:
            prob.append("number of particles changed")
        elif not torch.equal(out.particle_charges.reshape(-1), b.particle_charges.reshape(-1)):
            prob.append("particle charges changed")
        else:
            s_in, s_out = b.survival_probabilities.reshape(-1), out.survival_probabilities.reshape(-1)
            if s_out.shape != s_in.shape:
                prob.append("survival shape changed")
            else:
                if bool(torch.any(s_out < 0)) or bool(torch.any(s_out > 1)) or bool(torch.any(torch.isnan(s_out))):
                    prob.append(f"survival outside [0,1]: {s_out.tolist()}")
                if bool(torch.any(s_out > s_in)):
                    prob.append(f"survival increased: {s_in.tolist()} -> {s_out.tolist()}")
                if blocking and (bool(torch.any(s_out != 0)) or float(out.total_charge) != 0.0):
                    prob.append(f"blocking active screen but survival {s_out.tolist()}, total charge {float(out.total_charge)!r}")
                if not blocking and not any(l["cls"] == "Aperture" and l["kw"]["is_active"] for l in leaves) and not torch.equal(s_in, s_out):
                    prob.append("survival changed without an active aperture or blocking screen")
    else:
        q_in, q_out = float(b.total_charge), float(out.total_charge)
        if blocking and q_out != 0.0:
            prob.append(f"blocking active screen but ParameterBeam total_charge {q_out!r}")
        if not blocking and q_out != q_in:
            prob.append(f"ParameterBeam total_charge changed {q_in!r} -> {q_out!r}")
    return "ok", prob


def gen_energy_lattice(rng):
    """random real lattice, biased to contain cavities / apertures / screens"""
    allow = None
    if rng.random() < 0.6:
        allow = ["Drift", "Quadrupole", "Cavity", "Cavity", "Aperture", "Screen", "Marker", "BPM", "HorizontalCorrector", "Solenoid", "Dipole"]
    lat = realgen.gen_lattice(rng, n_max=6, depth=2, allow=allow, method="cheetah" if rng.random() < 0.7 else None)
    # NaN-producing Bmad-X configurations (dipole angle 0, zero-length bmadx elements) are out of scope: make them cheetah-tracked
    for l in flat_leaves(lat):
        kw = l["kw"]
        if kw.get("tracking_method") == "bmadx" and (l["cls"] in ("Dipole", "RBend") and kw.get("angle") == 0.0 or kw.get("length") == 0.0):
            kw["tracking_method"] = "cheetah"
        if l["cls"] == "Cavity":
            kw["voltage"] = rng.choice([0.0, 1e6, 5e6, -1e6, 2.5e5, 1.234e7])
            kw["phase"] = rng.choice([0.0, 30.0, -20.0, 90.0, 180.0, 45.0, round(rng.uniform(-180, 180), 3)])
    return lat


def energy_stage(run, n):
    bad = []
    for _ in range(n):
        lat = gen_energy_lattice(run.rng)
        for bt in ("particle", "parameter"):
            e0 = run.rng.choice([2e7, 1e8, 6e9])
            beam = realgen.gen_particle_beam(run.rng, energy=e0) if bt == "particle" else realgen.gen_parameter_beam(run.rng, energy=e0)
            st, prob = energy_oracle(lat, beam)
            if st != "ok":
                run.count("real_" + st)
                continue
            ncav = sum(1 for l in flat_leaves(lat) if l["cls"] == "Cavity" and l["kw"]["voltage"] != 0)
            run.add_case(["real", lat, bt], ncav >= 1)
            run.count("real_%s_cavities_%d" % (bt, min(ncav, 3)))
            if prob:
                bad.append({"kind": "real_lattice", "lattice": lat, "beam": beam, "problems": prob,
                            "relation": "energy out - in == sum V cos(phi) over cavities; charges, particle number constant; survival in [0,1], non-increasing; blocking screen => no charge"})
    return bad


# ---------------------------------------------------------------- histories on ONE lattice object: track, assign, track again
HIST_V = [0.0, 0.0, 1e6, 5e6, -1e6, 1.234e7]
HIST_PH = [0.0, 30.0, -20.0, 180.0, 45.0]


def gen_history_case(rng):
    """A lattice with nested SKIPPABLE sub-segments directly followed by cavities (off or on) and apertures, anchored by elements that
    are not skippable, and a sequence of assignments (cavity voltages / phases, activity flags, aperture sizes) applied to the one
    lattice object between tracks.  Names are unique; steps address elements by name."""
    ctr = [0]

    def nm(p):
        ctr[0] += 1
        return f"{p}{ctr[0]}"

    def cav(v=None):
        return {"cls": "Cavity", "name": nm("cav"), "kw": {"length": rng.choice([0.5, 1.0]), "voltage": rng.choice(HIST_V) if v is None else v,
                                                          "phase": rng.choice(HIST_PH), "frequency": 1.3e9}}

    def ap(active=None):
        return {"cls": "Aperture", "name": nm("ap"), "kw": {"x_max": rng.choice([2e-4, 5e-4, 1.0, INF]), "y_max": rng.choice([2e-4, 5e-4, 1.0, INF]),
                                                          "shape": rng.choice(["rectangular", "elliptical"]),
                                                          "is_active": (rng.random() < 0.5) if active is None else active}}

    def passive():
        k = rng.randrange(6)
        if k == 0:
            return {"cls": "Drift", "name": nm("d"), "kw": {"length": rng.choice([0.3, 0.5, 1.0]), "tracking_method": "cheetah"}}
        if k == 1:
            return {"cls": "Quadrupole", "name": nm("q"), "kw": {"length": 0.2, "k1": rng.choice([2.0, -2.0, 0.0]), "tracking_method": "cheetah"}}
        if k == 2:
            return {"cls": "Marker", "name": nm("m"), "kw": {}}
        if k == 3:
            return {"cls": "BPM", "name": nm("bpm"), "kw": {"is_active": False}}
        if k == 4:
            return cav(0.0)
        return ap(False)

    def sub(depth):
        es = [passive() for _ in range(rng.randrange(1, 4))]
        if depth > 0 and rng.random() < 0.3:
            es.insert(rng.randrange(len(es) + 1), sub(depth - 1))
        return {"cls": "Segment", "name": nm("sub"), "es": es}
    top = []
    for _ in range(rng.randrange(1, 4)):
        r = rng.random()
        if r < 0.35:
            top.append(cav(rng.choice([1e6, 5e6, 2e7])))
        elif r < 0.55:
            top.append(ap(True))
        elif r < 0.7:
            top.append({"cls": "BPM", "name": nm("bpm"), "kw": {"is_active": True}})
        top.append(sub(1))
        for _ in range(rng.randrange(1, 4)):
            r = rng.random()
            top.append(cav() if r < 0.55 else ap() if r < 0.8 else passive())
    lat = {"cls": "Segment", "name": "line", "es": top}
    settable = []
    for l in flat_leaves(lat):
        if l["cls"] == "Cavity":
            settable += [(l["name"], "voltage")] * 3 + [(l["name"], "phase")]
        elif l["cls"] == "Aperture":
            settable += [(l["name"], "is_active"), (l["name"], "x_max"), (l["name"], "y_max")]
        elif l["cls"] == "BPM":
            settable += [(l["name"], "is_active")]
    steps = []
    for _ in range(rng.randrange(2, 5)):
        step = []
        for name, attr in rng.sample(settable, min(len(settable), rng.randrange(1, 4))):
            if attr == "voltage":
                v = rng.choice([1e6, 5e6, -1e6, 1.234e7, 0.0])
            elif attr == "phase":
                v = rng.choice(HIST_PH + [round(rng.uniform(-180, 180), 3)])
            elif attr == "is_active":
                v = rng.random() < 0.6
            else:
                v = rng.choice([2e-4, 5e-4, 1.0, INF])
            step.append({"name": name, "attr": attr, "value": v})
        steps.append(step)
    beams = [realgen.gen_particle_beam(rng, n=rng.choice([3, 5]), energy=1e8), realgen.gen_parameter_beam(rng, energy=1e8)]
    return lat, steps, beams


def _structure(e):
    import cheetah
    if isinstance(e, cheetah.Segment):
        return [str(e.name), "Segment", [_structure(c) for c in e.elements]]
    return [str(e.name), type(e).__name__]


def _spec_structure(s):
    if s["cls"] == "Segment":
        return [s["name"], "Segment", [_spec_structure(c) for c in s["es"]]]
    return [s["name"], s["cls"]]


def run_history(lat, steps, beams):
    """Apply the history to ONE lattice object.  After every track: the closed-form energy sum / charge / survival clauses with the
    CURRENT settings, the same beam through a FRESHLY built lattice with the current settings, and `tracking does not change the
    lattice` (nesting structure, flattened names, total length).  Returns (problems, number of tracks compared)."""
    spec = copy.deepcopy(lat)
    seg = realgen.build(spec)
    index = {}

    def walk(e, s):
        index[s["name"]] = (e, s)
        if s["cls"] == "Segment":
            for c, cs in zip(e.elements, s["es"]):
                walk(c, cs)
    walk(seg, spec)

    def lattice_problems(when):
        out = []
        try:
            want, got = _spec_structure(spec), _structure(seg)
            if got != want:
                out.append(f"{when}: the nesting structure of the lattice object changed: {json.dumps(got)[:400]} expected {json.dumps(want)[:400]}")
            names = [e.name for e in seg.flattened().elements]
            if names != [l["name"] for l in flat_leaves(spec)]:
                out.append(f"{when}: flattened element names {names} expected {[l['name'] for l in flat_leaves(spec)]}")
            tot = sum(float(l["kw"].get("length", 0.0)) for l in flat_leaves(spec))
            if abs(float(seg.length) - tot) > 1e-12 * max(1.0, tot):
                out.append(f"{when}: total length {float(seg.length)!r} expected {tot!r}")
        except Exception as ex:  # noqa
            out.append(f"{when}: inspecting the lattice object raised {ex!r}"[:300])
        return out
    prob = lattice_problems("after construction")
    n_tracks = 0
    for k, step in enumerate([[]] + list(steps)):
        for a in step:
            if a["name"] not in index:
                continue             # element dropped by shrinking
            obj, node = index[a["name"]]
            node["kw"][a["attr"]] = a["value"]
            setattr(obj, a["attr"], torch.tensor(a["value"], dtype=DT) if a["attr"] in realgen.TENSOR_KW else a["value"])
        for beam in beams:
            when = f"track {k} ({beam['type']} beam, after {k} assignment steps)"
            b = realgen.build_beam(beam)
            try:
                fresh = realgen.build(spec).track(b)
            except Exception:  # noqa -- settings the code rejects (E + dE <= 0 ...): unspecified
                continue
            try:
                out = seg.track(b)
            except Exception as ex:  # noqa
                prob.append(f"{when}: the lattice object raised {ex!r} where a freshly built lattice with the same settings tracks"[:300])
                continue
            n_tracks += 1
            st, p = accounting(flat_leaves(spec), b, out)
            prob += [f"{when}: {x}" for x in p]
            d = realgen.beams_close(out, fresh, rtol=1e-11, atol=1e-15)
            if d:
                prob.append(f"{when}: outgoing beam differs from the one of a freshly built lattice with the current settings: {d}; "
                            f"energy {float(out.energy)!r} vs {float(fresh.energy)!r}")
            prob += lattice_problems("after " + when)
        if len(prob) > 12:
            break
    return prob, n_tracks


def _hist_key(prob):
    """what a shrunk history must still show: the energy clause if it failed, else the comparison with a fresh lattice, else anything"""
    for key in ("energy out - in", "freshly built"):
        if any(key in p for p in prob):
            return key
    return ""


def history_stage(run, n):
    bad = []
    for _ in range(n):
        lat, steps, beams = gen_history_case(run.rng)
        prob, n_tracks = run_history(lat, steps, beams)
        leaves = flat_leaves(lat)
        run.add_case(["history", lat, steps], n_tracks >= 4)
        run.count("history_tracks_compared", n_tracks)
        run.count("history_steps_%d" % len(steps))
        run.count("history_cavities_%d" % min(sum(1 for l in leaves if l["cls"] == "Cavity"), 5))
        if any(a["attr"] == "voltage" and a["value"] != 0.0 and any(l["name"] == a["name"] and l["kw"]["voltage"] == 0.0 for l in leaves) for s in steps for a in s):
            run.count("history_cavity_switched_on_after_a_track")
        if prob:
            bad.append({"kind": "history", "lattice": lat, "steps": steps, "beams": beams, "problems": prob[:12],
                        "relation": "after every track of a history (track, assign voltages / phases / activity flags / aperture sizes, track again) on ONE lattice "
                                    "object: energy out - in == sum V cos(phi) with the current settings, charges / particle number constant, survival in [0,1] and "
                                    "non-increasing, the outgoing beam equals the one of a freshly built lattice with the current settings, and tracking leaves the "
                                    "lattice (nesting, flattened names, total length) unchanged"})
    return bad


# ---------------------------------------------------------------- shrinking / verdict / replay
def shrink_lattice(item, still_fails):
    lat = item["lattice"]
    changed = True
    while changed:
        changed = False

        def paths(e, p=()):
            if e["cls"] == "Segment":
                for i, c in enumerate(e["es"]):
                    yield p + (i,)
                    yield from paths(c, p + (i,))
        for p in list(paths(lat)):
            t2 = copy.deepcopy(lat)
            node = t2
            for i in p[:-1]:
                node = node["es"][i]
            if p[-1] >= len(node["es"]):
                continue
            del node["es"][p[-1]]
            try:
                if still_fails(t2):
                    lat = t2
                    changed = True
                    break
            except Exception:
                pass
    item = dict(item)
    item["lattice"] = lat
    return item


def recheck(item):
    """Re-run the oracle of a replay item on the current tree; returns list of problems (empty = property holds)."""
    k = item.get("kind")
    if k == "aperture":
        out = run_aperture(item["aperture"], item["beam"])
        return aperture_oracle(item["aperture"], item["beam"], out)
    if k == "aperture_parameter":
        import cheetah
        kw = item["aperture"]
        ap = cheetah.Aperture(x_max=torch.tensor(kw["x_max"], dtype=DT), y_max=torch.tensor(kw["y_max"], dtype=DT),
                              shape=kw["shape"], is_active=kw["is_active"], name="ap", dtype=DT)
        b = realgen.build_beam(item["beam"])
        o = ap.track(b)
        ok = torch.equal(o._mu, b._mu) and torch.equal(o._cov, b._cov) and torch.equal(o.total_charge, b.total_charge)
        return [] if ok else ["ParameterBeam changed by an aperture"]
    if k == "lattice_exact":
        exp, _ = fold_expect(item["lattice"], item["beam"])
        out = observe_pbeam(realgen.build(item["lattice"]).track(realgen.build_beam(item["beam"])))
        prob = []
        if exp is not None and out["survival"] != exp:
            prob.append(f"survival {out['survival']} expected {exp}")
        if out["charges"] != item["beam"]["charges"] or out["energy"] != item["beam"]["energy"]:
            prob.append("charges or energy changed")
        return prob
    if k == "stats_filtered":
        return stats_filtered_oracle(item["beam"]) or []
    if k == "stats_vectorised":
        return vec_stats_oracle(item["case"])[0]
    if k in ("aperture_vectorised", "aperture_parameter_raises"):
        try:
            return vec_aperture_oracle(item["case"])[0]
        except Exception as ex:
            return [f"observing the vectorised aperture raised {ex!r}"[:300]]
    if k == "real_lattice":
        st, prob = energy_oracle(item["lattice"], item["beam"])
        return prob
    if k == "history":
        return run_history(item["lattice"], item["steps"], item["beams"])[0]
    return []


def main(tier, replay=None):
    run = common.Run(PID, tier)
    common.setup_python_env()
    thorough = tier == "thorough"
    run.cov["rule"] = ("(1) single apertures: both shapes, finite/infinite/zero half-sizes, active flag, particles inside, outside, +-1 ulp and "
                       "+-2^-k relative around the edge (never on it; elliptical: not within 1e-12 of it), fractional incoming survival -- exact "
                       "comparison of the outgoing beam with vm_compute of the Q model; (2) nested lattices of apertures/screens/exact drifts/markers "
                       "on dyadic beams -- exact comparison of Segment.track with the Q instance of the generic Segment model; (3) statistics of "
                       "random beams with 0/1 and fractional survival vs the exact rational model (2^-36 relative, checked in Coq over Q); "
                       "(4) property oracles on the implementation: random real lattices with cavities x both beam types (energy, charges, count, "
                       "survival range/monotone, blocking screen), statistics with lost particles vs particles deleted; (5) vectorised beams (batch of 2-3, a "
                       "different loss pattern per entry; survival constructed with a batch dimension or produced by a vectorised Aperture): every "
                       "statistic of every entry vs the un-vectorised beam / the beam with the lost particles deleted, and vs the Q model; (6) VECTORISED "
                       "apertures: half sizes with batch shapes mixing +inf and finite entries (x only, y only, both at the same / opposite positions, "
                       "(B,1) x (B2,) outer shapes), both shapes, active/inactive, float32/float64, alone / inside a Segment / after a drift / two in a row, x "
                       "plain, lined-up and outer-broadcast vectorised beams: every entry vs the exact specification, vs the un-vectorised real Aperture and "
                       "vs the Q model (ap_check per entry), shape of the survival tensor, total charge and all statistics per entry. Non-trivial = active "
                       "aperture with surviving input / lattice with an active aperture or blocking screen / beam with a lost particle / lattice "
                       "with a live cavity; distinct by full case content.")
    if replay:
        return do_replay(run, replay)
    proof_ok = run.proof_stage()
    import translate_stage
    tr_diag = translate_stage.translator_obligation_diag(run, parts=("cavity", "screen"))
    if tr_diag["status"] != "ok":
        run.notes.append("translator obligation (cavity energy / screen blocking): " + json.dumps(translate_stage.replay_fields_diag(tr_diag))[:600])
    # second tie: the beam statistics / Twiss getters / aperture mask are re-translated from REPO's source and proved equal to the
    # hand-written models (Gen/StatsGenEquiv.v)
    import translate_stage
    tr_stats = translate_stage.translator_obligation_stats(run)
    if tr_stats["status"] != "ok":
        run.notes.append("translator obligation (stats): " + json.dumps(translate_stage.replay_fields_stats(tr_stats))[:600])
    # second tie (structural): segment.py, CustomTransferMap.from_merging_elements and Element.track are re-translated from
    # REPO's source text and proved equal to Lattice/{Track,Merge,Filter}.v / Beam/Moments.v (Gen/SegGenEquiv.v)
    import translate_stage
    trs = translate_stage.translator_obligation_seg(run)
    if trs["status"] != "ok":
        run.notes.append("translator obligation (segment): " + json.dumps(translate_stage.replay_fields_seg(trs))[:600])
    if not proof_ok:
        run.notes.append(run.proof_problem)

    ap_cases, ap_fail, ap_bad = aperture_stage(run, 5000 if thorough else 400)
    par_bad = parameter_passthrough(run, 200 if thorough else 30)
    lat_cases, lat_fail, lat_bad = exact_lattice_stage(run, 3000 if thorough else 250, 3 if thorough else 2)
    st_cases, st_fail, st_bad = stats_stage(run, 3000 if thorough else 300, 600 if thorough else 40)
    real_bad = energy_stage(run, 1500 if thorough else 70)
    # vectorised apertures (half sizes with a batch shape mixing +inf and finite entries), after the older stages, which keep their random
    # stream; the per-entry Coq cases join the aperture correspondence, the oracle findings join the aperture findings
    vap_cases, vap_fail, vap_bad = vec_aperture_stage(run, 1200 if thorough else 90)
    ap_fail = ap_fail + [len(ap_cases) + i for i in vap_fail]
    ap_cases = ap_cases + vap_cases
    ap_bad = ap_bad + vap_bad
    # histories on one lattice object (after the older stages, which keep their random stream)
    hist_bad = history_stage(run, 600 if thorough else 30)
    hist_bad.sort(key=lambda it: (["energy out - in", "freshly built", ""].index(_hist_key(it["problems"])), len(json.dumps(it["lattice"]))))
    run.cov["tested_only"] = ["energy accounting / charge / survival invariants on lattices of all real element classes (float64, 1e-9 relative): "
                              "the Coq theorems cover them modulo the leaf contract, which is discharged in Coq only for the modelled classes",
                              "sigma_* (square root) is compared through its square",
                              "statistics other than mu_x, mu_px, var_x, sigma_x, sigma_xpx, total_charge, num_particles_survived are covered by the "
                              "deleted-particles oracle only",
                              "histories on one lattice object (nested skippable sub-segments followed by cavities / apertures; track, assign voltages / phases / "
                              "activity flags / aperture sizes, track again, 2-4 times): energy sum, charge and survival clauses after EVERY track with the current "
                              "settings, equality with a freshly built lattice, and the lattice object's nesting / flattened names / length before and after"]
    for f in common.load_known_findings(PID):
        if f.get("status") == "known":
            prob = recheck(f["replay"])
            if prob:
                run.known(f["what"])
            else:
                run.cov["known_findings_not_reproduced"].append(f["id"])

    # ---- verdict
    oracle_bad = ap_bad + par_bad + lat_bad + st_bad + real_bad + hist_bad
    if oracle_bad:
        seen = set()
        for item in oracle_bad:
            if item["kind"] in seen:
                continue
            seen.add(item["kind"])
            if item["kind"] in ("lattice_exact", "real_lattice"):
                beam = item["beam"]
                item = shrink_lattice(item, lambda t: bool(recheck({"kind": item["kind"], "lattice": t, "beam": beam})))
                item["problems"] = recheck(item)
            if item["kind"] == "history":
                full, key = item, _hist_key(item["problems"])

                def still(it):
                    return any(key in p for p in recheck(it))
                for bm in item["beams"]:
                    if len(item["beams"]) > 1 and still(dict(item, beams=[bm])):
                        full = item = dict(item, beams=[bm])
                        break
                item = shrink_lattice(item, lambda t: still(dict(full, lattice=t)))
                for j in range(len(item["steps"]) - 1, -1, -1):          # drop assignment steps that are not needed
                    cand = dict(item, steps=item["steps"][:j] + item["steps"][j + 1:])
                    if still(cand):
                        item = cand
                present = {l["name"] for l in flat_leaves(item["lattice"])}
                item["steps"] = [[a for a in st if a["name"] in present] for st in item["steps"]]      # assignments to elements dropped above
                item["problems"] = recheck(item)[:12]
            run.violation(item)
    elif ap_fail or lat_fail or st_fail:
        if ap_fail:
            kw, beam, out = ap_cases[ap_fail[0]]
            run.violation({"kind": "correspondence", "broken": "Coq model Diag/Aperture.v (ap_check) disagrees with Aperture.track on this case",
                           "aperture": kw, "beam": beam, "observed": out, "n_disagreeing": len(ap_fail)}, no_input=True)
        if lat_fail:
            tree, beam, out = lat_cases[lat_fail[0]]
            run.violation({"kind": "correspondence", "broken": "Coq instance Lattice/Energy.v (lat_check) disagrees with Segment.track on this case",
                           "lattice": tree, "beam": beam, "observed": out, "n_disagreeing": len(lat_fail)}, no_input=True)
        if st_fail:
            beam, o = st_cases[st_fail[0]]
            run.violation({"kind": "correspondence", "broken": "Coq model Beam/Stats.v (st_check) disagrees with the beam statistics on this case",
                           "beam": beam, "observed": o, "n_disagreeing": len(st_fail)}, no_input=True)
    elif trs["status"] != "ok":
        # the structural source no longer translates to the proved model; none of this run's oracles found a failing input
        run.violation(translate_stage.replay_fields_seg(trs), no_input=True)
    elif tr_stats["status"] != "ok":
        # the source no longer translates to the proved model and none of this run's oracles found a failing input
        run.violation(translate_stage.replay_fields_stats(tr_stats), no_input=True)
    elif tr_diag["status"] != "ok":
        # the source no longer translates to the proved model; none of this run's oracles found a failing input
        run.violation(translate_stage.replay_fields_diag(tr_diag), no_input=True)
    elif not proof_ok:
        run.violation({"kind": "proof", "broken": run.proof_problem}, no_input=True)
    return run.finish("proof")


def do_replay(run, path):
    r = json.loads(open(path).read())
    if r.get("kind") in ("correspondence", "proof"):
        print("replay: this replay names a broken correspondence/proof, not a failing input; re-run ./check C10")
        return 1
    prob = recheck(r)
    print("replay:", "property holds on this input" if not prob else f"property FAILS on this input: {prob}")
    return 1 if prob else 0
