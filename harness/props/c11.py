"""C11 -- Tracking has no side effects on its inputs and no hidden state."""
import copy
import hashlib
import json

import torch

import common
import realgen
from common import coq_list, zlit

PID = "C11"
PREAMBLE = """From Coq Require Import List Bool ZArith.
From Cheetah Require Import Ops.History.
Import ListNotations. Open Scope Z_scope."""

ASSIGNABLE = ["length", "k1", "angle", "tilt", "voltage", "phase", "k", "misalignment", "dipole_e1", "dipole_e2"]
POOL = {
    "length": [0.2, 0.4, 1.0], "k1": [0.0, 1.5, -2.5], "angle": [0.0, 0.02, -0.05], "tilt": [0.0, 0.3], "voltage": [0.0, 2e6, 4e6],
    "phase": [0.0, 15.0], "k": [0.0, 0.8], "misalignment": [[0.0, 0.0], [1e-3, -5e-4]], "dipole_e1": [0.0, 0.03], "dipole_e2": [0.0, -0.02],
}
CLASSES = ["Drift", "Quadrupole", "Dipole", "Solenoid", "HorizontalCorrector", "VerticalCorrector", "Cavity", "Undulator", "Marker", "BPM",
           "Screen", "Aperture", "CustomTransferMap", "RBend", "TransverseDeflectingCavity", "SpaceChargeKick"]
_F12_CLASSES = ("Quadrupole", "Screen", "Undulator", "SpaceChargeKick")   # finding F12 (C14/C15): clone() dropped or rejected attributes


def _f12_known():
    return any(f.get("id") == "F12" and f.get("status") == "known" for f in common.load_known_findings("C15") + common.load_known_findings("C14"))


# while F12 is listed `known` clones of those classes are unconstrained here; since its repair (b273117) a clone must track like the original
CLONE_OFFENDERS = _F12_CLASSES if _f12_known() else ()


def leaves(spec, path=()):
    if spec["cls"] == "Segment":
        for i, c in enumerate(spec["es"]):
            yield from leaves(c, path + (i,))
    else:
        yield path, spec


def get_live(seg, path):
    e = seg
    for i in path:
        e = e.elements[i]
    return e


def get_live_by_name(seg, spec, path):
    """reach the element through the segments' by-name handles (segment.<name>)"""
    e, s = seg, spec
    for i in path:
        s = s["es"][i]
        h = getattr(e, s["name"])
        e = h if not isinstance(h, list) else e.elements[i]
    return e


def gen_history_case(rng, thorough):
    particle_only = False
    for _ in range(50):
        lat = realgen.gen_lattice(rng, n_max=6 if thorough else 5, depth=1, allow=CLASSES)
        names = [s["name"] for _, s in leaves(lat)]
        if len(set(names)) == len(names) and len(names) >= 2:
            break
    for _, s in leaves(lat):
        if s["kw"].get("tracking_method") == "bmadx" or s["cls"] in ("TransverseDeflectingCavity", "SpaceChargeKick"):
            particle_only = True
        if s["cls"] == "Screen":
            s["kw"]["is_blocking"] = False if rng.random() < 0.8 else s["kw"]["is_blocking"]
    beams = [realgen.gen_particle_beam(rng, n=rng.choice([3, 5]), energy=rng.choice([2e7, 1e8]))]
    beams.append(realgen.gen_particle_beam(rng, n=4, energy=rng.choice([2e7, 1e8])))
    if not particle_only:
        beams.append(realgen.gen_parameter_beam(rng, energy=rng.choice([2e7, 1e8])))
    for b in beams:
        if b["type"] == "particle":
            b["charges"] = [1e-12 for _ in b["charges"]]
    if rng.random() < 0.5:
        # related beams: same particles at another reference energy (an energy scan) or with other charges -- a result that depends
        # on anything but the current parameter values and THIS beam (a cache keyed on part of the input) shows up only then
        b2 = copy.deepcopy(beams[0])
        if rng.random() < 0.6:
            b2["energy"] = 1e8 if beams[0]["energy"] != 1e8 else 2e7
        else:
            b2["charges"] = [3e-12 for _ in b2["charges"]]
        beams[1] = b2
    positions = [(p, s["name"], k) for p, s in leaves(lat) for k in s["kw"] if k in ASSIGNABLE]
    diags = [(p, s["name"]) for p, s in leaves(lat) if s["cls"] in ("Screen", "BPM")]
    nondiag = [list(p) for p, s in leaves(lat)]      # diagnostics included: a direct track records the beam (read-out then unspecified)
    stored = [list(p) for p, s in leaves(lat) if s["cls"] == "CustomTransferMap"]
    n_ops = rng.randrange(4, 41 if thorough else 13)
    ops = []
    for _ in range(n_ops):
        r = rng.random()
        if r < 0.3 and positions:
            i = rng.randrange(len(positions))
            ops.append(["assign", i, rng.choice(POOL[positions[i][2]]), rng.choice(["direct", "by_name"])])
        elif r < 0.4 and diags:
            ops.append(["set_active", rng.randrange(len(diags)), rng.choice([True, False])])
        elif r < 0.7:
            ops.append(["track", rng.randrange(len(beams))])
        elif r < 0.85 and diags:
            ops.append(["read", rng.randrange(len(diags))])
        elif r < 0.86:
            ops.append(["clone_track", rng.randrange(len(beams))])
        elif r < 0.94 and nondiag:
            # track through ONE element object directly; elements that hold a stored map are preferred targets
            pool = stored if (stored and rng.random() < 0.6) else nondiag
            ops.append(["etrack", rng.choice(pool), rng.randrange(len(beams))])
        else:
            ops.append(["optim", rng.randrange(4), rng.randrange(len(beams))])
    if not any(o[0] == "track" for o in ops):
        ops.append(["track", 0])
    return {"lattice": lat, "beams": beams, "ops": ops}


def gen_targeted_cases(rng):
    """Hidden-state probes, one per element class and run: the element alone, first in the lattice (so that the caller's own
    beam reaches it) and in the middle; tracked with beams that share their particles but differ in the reference energy or
    in the charges, interleaved (b0, b1, b0, b2, b0); diagnostics active, blocking or not, misaligned, read after every track."""
    out = []
    for cls in CLASSES:
        spec = realgen.gen_element(rng, cls=cls, name="x")
        if cls in ("Screen", "BPM"):
            spec["kw"]["is_active"] = True
        if cls == "Screen":
            spec["kw"]["is_blocking"] = rng.random() < 0.5
            spec["kw"]["misalignment"] = [rng.choice([1e-3, -2e-3]), rng.choice([5e-4, -1e-3])]
        if cls == "Aperture":
            spec["kw"]["is_active"] = True
        d1 = realgen.gen_element(rng, cls="Drift", name="d1", method="cheetah")
        d2 = realgen.gen_element(rng, cls="Drift", name="d2", method="cheetah")
        es = rng.choice([[spec], [spec, d2], [d1, spec, d2]])
        lat = {"cls": "Segment", "name": "t", "es": copy.deepcopy(es)}
        particle_only = spec["kw"].get("tracking_method") == "bmadx" or cls in ("TransverseDeflectingCavity", "SpaceChargeKick")
        b0 = realgen.gen_particle_beam(rng, n=rng.choice([4, 6]), energy=rng.choice([2e7, 1e8]))
        b0["charges"] = [1e-12 for _ in b0["charges"]]
        b0["survival"] = [1.0 for _ in b0["survival"]]
        b1 = copy.deepcopy(b0)
        b1["energy"] = 1e8 if b0["energy"] != 1e8 else 2e7
        b2 = copy.deepcopy(b0)
        b2["charges"] = [3e-12 for _ in b2["charges"]]
        beams = [b0, b1, b2]
        if not particle_only:
            q0 = realgen.gen_parameter_beam(rng, energy=b0["energy"])
            q1 = copy.deepcopy(q0)
            q1["energy"] = b1["energy"]
            beams += [q0, q1]
        seq = [0, 1, 0, 2, 0] + ([3, 4, 3, 0] if not particle_only else [])
        ops = []
        has_diag = cls in ("Screen", "BPM")
        if has_diag:
            # a beam that was lost completely upstream (all survival probabilities 0) after a live one: the read-out must not
            # keep showing the previous shot
            dead = copy.deepcopy(b0)
            dead["survival"] = [0.0 for _ in dead["survival"]]
            beams.append(dead)
            di = len(beams) - 1
            seq = seq[:3] + [di, 0, di] + seq[3:]
        for bi in seq:
            ops.append(["track", bi])
            if has_diag:
                ops.append(["read", 0])
        ops.append(["etrack", [es.index(spec)], 0])
        ops.append(["track", 1])
        out.append({"lattice": lat, "beams": beams, "ops": ops, "targeted": cls})
    # elements that share a name but not their parameters: clones (and tracks) must keep them apart
    for cls in ("Quadrupole", "Drift", "Dipole", "HorizontalCorrector"):
        a = realgen.gen_element(rng, cls=cls, name="dup", method="cheetah")
        b = realgen.gen_element(rng, cls=cls, name="dup", method="cheetah")
        for k in b["kw"]:
            if k in ("length",):
                b["kw"][k] = round(a["kw"][k] * 1.5 + 0.1, 4)
            if k in ("k1", "angle"):
                b["kw"][k] = round(-1.3 * a["kw"][k] + 0.2, 4)
        d = realgen.gen_element(rng, cls="Drift", name="mid", method="cheetah")
        lat = {"cls": "Segment", "name": "t", "es": [a, d, b] if rng.random() < 0.5 else [a, {"cls": "Segment", "name": "inner", "es": [d, b]}]}
        b0 = realgen.gen_particle_beam(rng, n=4, energy=1e8)
        b0["charges"] = [1e-12 for _ in b0["charges"]]
        q0 = realgen.gen_parameter_beam(rng, energy=1e8)
        out.append({"lattice": lat, "beams": [b0, q0], "ops": [["track", 0], ["clone_track", 0], ["clone_track", 1], ["track", 1], ["clone_track", 0]],
                    "targeted": "duplicate_names_" + cls})
    return out


# ---------------------------------------------------------------- execution on the implementation
def tensor_bytes(t):
    t = t.detach()
    return (str(t.dtype), tuple(t.shape), t.contiguous().numpy().tobytes())


def snapshot_module(m, skip_diag_state=True):
    """bytes of every buffer (recursively) + plain attributes that define behaviour"""
    snap = {}
    for n, b in m.named_buffers():
        if "_read_beam" in n:      # a screen's recorded beam is diagnostic state, allowed to change
            continue
        snap["buf:" + n] = tensor_bytes(b)
    for n, sub in m.named_modules():
        if "_read_beam" in n:
            continue
        for k, v in vars(sub).items():
            if k.startswith("_") and k not in ("_e1", "_e2"):
                continue
            if k in ("reading", "cached_reading", "training"):
                continue
            if isinstance(v, (bool, int, float, str, tuple)):
                snap[f"attr:{n}.{k}"] = repr(v)
    return snap


def versions(m):
    return {n: b._version for n, b in m.named_buffers()}


def hash_beam(b):
    h = hashlib.sha1()
    h.update(type(b).__name__.encode())
    for n, t in sorted(b.named_buffers()):
        h.update(n.encode())
        h.update(repr(tensor_bytes(t)).encode())
    return h.hexdigest()


def hash_reading(r):
    if r is None:
        return "none"
    if isinstance(r, torch.Tensor):
        return hashlib.sha1(repr(tensor_bytes(r)).encode()).hexdigest()
    return "exc:" + str(r)


def current_spec(case, values, active):
    spec = copy.deepcopy(case["lattice"])
    positions = [(p, s["name"], k) for p, s in leaves(case["lattice"]) for k in s["kw"] if k in ASSIGNABLE]
    diags = [(p, s["name"]) for p, s in leaves(case["lattice"]) if s["cls"] in ("Screen", "BPM")]
    for (p, _, k), v in zip(positions, values):
        s = spec
        for i in p:
            s = s["es"][i]
        s["kw"][k] = v
    for (p, _), a in zip(diags, active):
        s = spec
        for i in p:
            s = s["es"][i]
        s["kw"]["is_active"] = a
    return spec


def live_spec(el, spec):
    """Spec of a fresh lattice holding the FINAL parameter values as read back from the live objects
    (constructor parameters via their public attributes; e.g. RBend.rbend_e1 is derived from dipole_e1 and angle)."""
    import inspect
    if spec["cls"] == "Segment":
        return {"cls": "Segment", "name": spec["name"], "es": [live_spec(e, c) for e, c in zip(el.elements, spec["es"])]}
    kw = {}
    sig = inspect.signature(type(el).__init__)
    for pname in spec["kw"]:
        if pname in sig.parameters and hasattr(el, pname):
            v = getattr(el, pname)
            if isinstance(v, torch.Tensor):
                v = v.detach().tolist()
            elif isinstance(v, tuple):
                v = list(v)
            kw[pname] = v
        else:
            kw[pname] = spec["kw"][pname]
    out = {"cls": spec["cls"], "name": spec["name"], "kw": kw}
    if spec["cls"] == "RBend":
        # rbend_e1/e2 are derived (dipole_e - angle/2): reading them back and re-adding angle/2 can differ by one ulp from the
        # stored edge angles, so the fresh element is given the stored values themselves
        out["_post"] = {"dipole_e1": el.dipole_e1.detach().tolist(), "dipole_e2": el.dipole_e2.detach().tolist()}
    return out


def build_fresh(spec):
    seg = realgen.build(spec)

    def fix(e, s):
        if s["cls"] == "Segment":
            for c, cs in zip(e.elements, s["es"]):
                fix(c, cs)
        elif "_post" in s:
            for k, v in s["_post"].items():
                setattr(e, k, torch.tensor(v, dtype=torch.float64))
    fix(seg, spec)
    return seg


def read_diag(el):
    try:
        return el.reading
    except Exception as ex:  # e.g. singular covariance for a ParameterBeam image
        return type(ex).__name__


def execute(case):
    """Run the history on live objects.  Returns (obs ids, value-id table, problems)."""
    import cheetah
    lat = case["lattice"]
    seg = realgen.build(lat)
    beams = [realgen.build_beam(b) for b in case["beams"]]
    positions = [(p, s["name"], k) for p, s in leaves(lat) for k in s["kw"] if k in ASSIGNABLE]
    diags = [(p, s["name"]) for p, s in leaves(lat) if s["cls"] in ("Screen", "BPM")]
    values = []
    for p, _, k in positions:
        s = lat
        for i in p:
            s = s["es"][i]
        values.append(s["kw"][k])
    active = []
    for p, _ in diags:
        s = lat
        for i in p:
            s = s["es"][i]
        active.append(bool(s["kw"].get("is_active", False)))
    has_offender = any(s["cls"] in CLONE_OFFENDERS for _, s in leaves(lat))
    val_ids, classes, obs, problems = {}, {}, [], []
    last_beam_at = [None] * len(diags)      # (spec at that time, beam index) of the last recorded beam
    tainted = [False] * len(diags)          # BPM.track records even when inactive; transfer_maps_merged calls it directly
    case['_unconstrained_reads'] = []

    def vid(pos, v):
        key = (pos, json.dumps(v))
        return val_ids.setdefault(key, len(val_ids) + 1)

    def cls_id(h):
        return classes.setdefault(h, len(classes) + 1)
    init_vals = [vid(i, v) for i, v in enumerate(values)]
    uniq = [0]

    def unique():
        uniq[0] -= 1
        return uniq[0]

    for k, o in enumerate(case["ops"]):
        if o[0] == "assign":
            _, i, v, how = o
            p, name, attr = positions[i]
            el = get_live(seg, p) if how == "direct" else get_live_by_name(seg, lat, p)
            old = getattr(el, attr)
            setattr(el, attr, torch.tensor(v, dtype=old.dtype))
            values[i] = v
            vid(i, v)
            obs.append(0)
        elif o[0] == "set_active":
            _, d, a = o
            get_live(seg, diags[d][0]).is_active = a
            active[d] = a
            obs.append(0)
        elif o[0] in ("track", "clone_track", "optim"):
            bi = o[-1]
            b = beams[bi]
            before_b = {n: tensor_bytes(t) for n, t in b.named_buffers()}
            before_v = {n: t._version for n, t in b.named_buffers()}
            before_s = snapshot_module(seg)
            try:
                if o[0] == "track":
                    out = seg.track(b)
                    for d, (p, _) in enumerate(diags):
                        if active[d]:
                            last_beam_at[d] = (live_spec(seg, lat), bi)
                elif o[0] == "clone_track":
                    out = seg.clone().track(b)
                else:
                    kind = o[1]
                    if kind == 0:
                        opt = seg.transfer_maps_merged(incoming_beam=b)
                        for d, (p, _) in enumerate(diags):
                            if isinstance(get_live(seg, p), cheetah.BPM) and not active[d]:
                                tainted[d] = True     # merging tracks the beam through skippable elements directly (allowed): reading unspecified
                    elif kind == 1:
                        opt = seg.without_inactive_markers()
                    elif kind == 2:
                        opt = seg.without_inactive_zero_length_elements()
                    else:
                        opt = seg.inactive_elements_as_drifts()
                    out = opt.track(b)
                    # the optimised lattice shares the retained element objects, so its diagnostics may have seen this beam --
                    # through a lattice whose equivalence to the original is C08's business (known findings F9/F10 there):
                    # read-outs are unspecified here until the next track through the original lattice
                    for d, (p, _) in enumerate(diags):
                        tainted[d] = True
                h = hash_beam(out)
            except Exception as ex:
                out, h = None, "exc:" + type(ex).__name__
            if {n: tensor_bytes(t) for n, t in b.named_buffers()} != before_b or {n: t._version for n, t in b.named_buffers()} != before_v:
                problems.append({"op": k, "what": "incoming beam modified by " + o[0]})
            if snapshot_module(seg) != before_s:
                after = snapshot_module(seg)
                changed = sorted(x for x in set(after) | set(before_s) if after.get(x) != before_s.get(x))
                problems.append({"op": k, "what": f"element parameters modified by {o[0]}: {changed[:4]}"})
            if o[0] == "track":
                obs.append(cls_id(h))
                # oracle: a freshly built lattice with the current values tracks identically
                try:
                    fresh = build_fresh(live_spec(seg, lat))
                    hf = hash_beam(fresh.track(realgen.build_beam(case["beams"][bi])))
                except Exception as ex:
                    hf = "exc:" + type(ex).__name__
                if hf != h:
                    problems.append({"op": k, "what": "track differs from a freshly built lattice with the same parameter values"})
            elif o[0] == "clone_track" and not has_offender:
                obs.append(cls_id(h))
                # oracle: the clone tracks like a freshly built lattice with the current values
                try:
                    fresh = build_fresh(live_spec(seg, lat))
                    hf = hash_beam(fresh.track(realgen.build_beam(case["beams"][bi])))
                except Exception as ex:
                    hf = "exc:" + type(ex).__name__
                if hf != h:
                    problems.append({"op": k, "what": "a clone tracks differently from a freshly built lattice with the same parameter values"})
            else:
                obs.append(0)      # result not constrained here (optimised copy: C08; clone of an F12 class: C15)
        elif o[0] == "etrack":
            el = get_live(seg, tuple(o[1]))
            b = beams[o[2]]
            for d, (p, _) in enumerate(diags):
                if tuple(p) == tuple(o[1]):
                    tainted[d] = True      # the diagnostic saw a beam outside a track of the lattice: its read-out is not constrained until the next track
            before_b = {n: tensor_bytes(t) for n, t in b.named_buffers()}
            before_s = snapshot_module(seg)
            try:
                el.track(b)
            except Exception:
                pass       # e.g. a Bmad-X element with a ParameterBeam: rejected input
            if {n: tensor_bytes(t) for n, t in b.named_buffers()} != before_b:
                problems.append({"op": k, "what": "incoming beam modified by tracking directly through " + type(el).__name__})
            if snapshot_module(seg) != before_s:
                after = snapshot_module(seg)
                changed = sorted(x for x in set(after) | set(before_s) if after.get(x) != before_s.get(x))
                problems.append({"op": k, "what": f"element parameters modified by tracking directly through {type(el).__name__}: {changed[:4]}"})
            obs.append(0)
        elif o[0] == "read":
            d = o[1]
            el = get_live(seg, diags[d][0])
            r = read_diag(el)
            h = "read:" + hash_reading(r)
            if tainted[d]:
                obs.append(0)
                case['_unconstrained_reads'].append(k)
                continue
            obs.append(cls_id(h))
            # oracle: the reading equals that of a fresh lattice that saw only the last recorded beam
            if last_beam_at[d] is not None and isinstance(el, (cheetah.Screen, cheetah.BPM)):
                spec_then, bi = last_beam_at[d]
                try:
                    fresh = build_fresh(spec_then)
                    fresh.track(realgen.build_beam(case["beams"][bi]))
                    rf = "read:" + hash_reading(read_diag(get_live(fresh, diags[d][0])))
                except Exception as ex:
                    rf = "exc"
                if rf != h:
                    problems.append({"op": k, "what": f"reading of {diags[d][1]} does not reflect the most recent beam that passed it"})
    return obs, init_vals, [vid(i, v) for i, v in enumerate(values)], val_ids, active, problems


def coq_case(case, obs, val_ids):
    lat = case["lattice"]
    positions = [(p, s["name"], k) for p, s in leaves(lat) for k in s["kw"] if k in ASSIGNABLE]
    diags = [(p, s["name"]) for p, s in leaves(lat) if s["cls"] in ("Screen", "BPM")]
    has_offender = any(s["cls"] in CLONE_OFFENDERS for _, s in leaves(lat))
    init_p, init_a = [], []
    for i, (p, _, k) in enumerate(positions):
        s = lat
        for j in p:
            s = s["es"][j]
        init_p.append(val_ids[(i, json.dumps(s["kw"][k]))])
    for p, _ in diags:
        s = lat
        for j in p:
            s = s["es"][j]
        init_a.append(bool(s["kw"].get("is_active", False)))
    ops = []
    init_a_now = list(init_a)
    for k, o in enumerate(case["ops"]):
        if o[0] == "set_active":
            init_a_now[o[1]] = o[2]
        if o[0] == "assign":
            ops.append(f"Assign {o[1]}%nat {zlit(val_ids[(o[1], json.dumps(o[2]))])}")
        elif o[0] == "set_active":
            ops.append(f"SetActive {o[1]}%nat {'true' if o[2] else 'false'}")
        elif o[0] == "track":
            ops.append(f"Track {o[1]}")
        elif o[0] == "etrack":
            ops.append(f"SetActive 0%nat {'true' if (init_a_now[0] if init_a_now else False) else 'false'}")    # no-op in the model
        elif o[0] == "read":
            if k in case.get('_unconstrained_reads', []):
                ops.append(f"SetActive {o[1]}%nat {'true' if init_a_now[o[1]] else 'false'}")    # no-op: this read-out is unspecified
            else:
                ops.append(f"Read {o[1]}%nat")
        elif o[0] == "clone_track":
            if not has_offender:
                ops.append(f"CloneTrack {o[1]}")
            else:   # result unconstrained (clone of an F12 class) and the clone's diagnostics are its own: a no-op for the original
                ops.append(f"SetActive 0%nat {'true' if (init_a_now[0] if init_a_now else False) else 'false'}")
        else:
            ops.append(f"Optim {o[1]}%nat {o[2]}")
    return (f"(({coq_list([zlit(x) for x in init_p])} : list Z), ({coq_list(['true' if a else 'false' for a in init_a])} : list bool), "
            f"({coq_list(ops)} : list op), ({coq_list([zlit(x) for x in obs])} : list Z))")


CHECKER = "(fun c => let '(p, a, ops, obs) := c in history_check p a ops obs)"


def shrink(case, still_fails):
    ops = case["ops"]
    i = 0
    while i < len(ops):
        c2 = dict(case, ops=ops[:i] + ops[i + 1:])
        try:
            if still_fails(c2):
                ops = c2["ops"]
                case = c2
                continue
        except Exception:
            pass
        i += 1
    return case


def main(tier, replay=None):
    run = common.Run(PID, tier)
    thorough = tier == "thorough"
    run.cov["rule"] = ("random operation histories (assign parameter directly or through the segment's by-name handle, toggle a diagnostic, "
                       "track with either beam type, read screen/BPM, clone+track, apply one of the four lattice optimisations) of length "
                       f"<= {40 if thorough else 12} on random lattices of real elements (16 classes, one nesting level). Each history is executed on live objects; "
                       "the Coq model predicts which results must be identical (vm_compute); byte snapshots detect in-place writes; every track "
                       "and read-out is compared bit-for-bit with a freshly built lattice. Half of the histories use related beams (same particles at another "
                       "reference energy or with other charges); one targeted hidden-state probe per element class and run (element alone / first / in the "
                       "middle; interleaved tracks of beams that differ only in energy or charge; active, blocking, misaligned diagnostics read after "
                       "every track; direct track through the element). Non-trivial = at least one assignment before a later track.")
    if replay:
        case = json.loads(open(replay).read())["case"]
        problems = execute(case)[5]
        print("replay:", "property holds on this history" if not problems else f"property FAILS: {problems[:3]}")
        return 1 if problems else 0
    proof_ok = run.proof_stage()
    n = 600 if thorough else 150
    cases, terms, bad = [], [], []
    targeted = [c for _ in range(3 if thorough else 1) for c in gen_targeted_cases(run.rng)]
    for k in range(n + len(targeted)):
        case = targeted[k] if k < len(targeted) else gen_history_case(run.rng, thorough)
        if "targeted" in case:
            run.count("targeted_" + case["targeted"])
        try:
            obs, init_vals, final_vals, val_ids, active, problems = execute(case)
        except Exception as ex:
            run.count("harness_exception_" + type(ex).__name__)
            continue
        ops = case["ops"]
        nontrivial = any(o[0] == "assign" and any(o2[0] == "track" for o2 in ops[i + 1:]) for i, o in enumerate(ops))
        run.add_case(case, nontrivial)
        for o in ops:
            run.count("op_" + o[0])
        run.count("len_%02d" % (len(ops) // 5 * 5))
        if problems:
            bad.append((case, problems))
        cases.append(case)
        terms.append(coq_case(case, obs, val_ids))
    if cases:
        run.sample({"lattice": cases[0]["lattice"], "ops": cases[0]["ops"]})
    failing = common.run_shards(PID, "hist", PREAMBLE, terms, CHECKER)
    run.cov["traces_validated_against_impl"] = len(cases)
    run.cov["tested_only"] = ["purity of the real code (no in-place writes, no hidden state): observed on sampled histories, not proved of PyTorch code",
                              "storage aliasing between outgoing beams and element buffers is not examined"]
    if bad:
        case, problems = bad[0]
        small = shrink(case, lambda c: bool(execute(c)[5]))
        run.violation({"kind": "history", "case": small, "problems": execute(small)[5],
                       "relation": "no side effects on inputs; track == track through a freshly built lattice; reading reflects the last beam"})
    elif failing:
        run.violation({"kind": "correspondence", "broken": "Ops/History.v history_check: equal model tokens with different observed results",
                       "case": cases[failing[0]]}, no_input=True)
    elif not proof_ok:
        run.violation({"kind": "proof", "broken": run.proof_problem}, no_input=True)
    return run.finish("proof")
