"""C12 -- dtype is preserved and float64 simulations are float64-accurate."""
import json
import os

import torch

import ast_sites
import common
import realgen

PID = "C12"
DT = {"float32": torch.float32, "float64": torch.float64}


def fdt(m):
    """dtypes of all floating buffers of a module (recorded read beams of screens excluded)"""
    return {n: str(b.dtype).replace("torch.", "") for n, b in m.named_buffers() if b.is_floating_point() and "_read_beam" not in n}


def wrong(m, dt):
    return {n: d for n, d in fdt(m).items() if d != dt}


# ---------------------------------------------------------------- A. dtype preservation
def dtype_oracle(run, n_per_class):
    import cheetah
    bad = []

    def rec(op, cls, dt, detail, spec=None):
        bad.append({"kind": "dtype", "op": op, "cls": cls, "dtype": dt, "detail": detail, "spec": spec})

    for dt in ("float32", "float64"):
        tdt = DT[dt]
        for cls in realgen.CLASSES:
            for i in range(n_per_class):
                spec = realgen.gen_element(run.rng, cls=cls, name="e", method="cheetah" if i % 2 == 0 else None)
                try:
                    e = realgen.build(spec, tdt)
                except Exception as ex:
                    run.count("build_exception_" + cls)
                    continue
                run.add_case(["dtype", dt, spec], True)
                run.count(f"dtype_{dt}_{cls}")
                if cls in ("Marker", "BPM"):
                    continue      # their constructors take no dtype: the 0.0 placeholder length stays in the default dtype
                if wrong(e, dt):
                    rec("construct", cls, dt, wrong(e, dt), spec)
                for bt in ("particle", "parameter"):
                    b = realgen.build_beam(realgen.gen_particle_beam(run.rng) if bt == "particle" else realgen.gen_parameter_beam(run.rng), tdt)
                    try:
                        out = e.track(b)
                    except Exception:
                        continue
                    if wrong(out, dt):
                        rec("track/" + bt, cls, dt, wrong(out, dt), spec)
                try:
                    c = e.clone()
                    if wrong(c, dt):
                        rec("clone", cls, dt, wrong(c, dt), spec)
                except TypeError:
                    pass      # SpaceChargeKick.clone raises (finding F12 of C14/C15)
                try:
                    for piece in e.split(torch.tensor(0.07, dtype=tdt)):
                        if wrong(piece, dt):
                            rec("split", cls, dt, wrong(piece, dt), spec)
                except Exception as ex:
                    rec("split", cls, dt, f"{type(ex).__name__}: {str(ex)[:120]}", spec)
        # lattice optimisations
        for _ in range(6):
            lat = realgen.gen_lattice(run.rng, n_max=5, depth=1, method="cheetah")
            try:
                seg = realgen.build(lat, tdt)
                b = realgen.build_beam(realgen.gen_parameter_beam(run.rng), tdt)
                for name, f in (("merged", lambda: seg.transfer_maps_merged(b)), ("no_markers", seg.without_inactive_markers),
                                ("no_zero_len", seg.without_inactive_zero_length_elements), ("as_drifts", seg.inactive_elements_as_drifts),
                                ("flattened", seg.flattened), ("clone", seg.clone)):
                    o = f()
                    if wrong(o, dt):
                        rec("segment." + name, "Segment", dt, wrong(o, dt), lat)
                    out = o.track(b)
                    if wrong(out, dt):
                        rec("segment." + name + ".track", "Segment", dt, wrong(out, dt), lat)
            except Exception:
                run.count("optim_exception")
        # merging a run of skippable elements that starts with a Marker / inactive BPM (their placeholder length is float32)
        for first in ("Marker", "BPM"):
            lat = {"cls": "Segment", "name": "s", "es": [
                {"cls": first, "name": "m0", "kw": {}},
                {"cls": "Drift", "name": "d1", "kw": {"length": 0.3123456789012345, "tracking_method": "cheetah"}},
                {"cls": "Quadrupole", "name": "q1", "kw": {"length": 0.2, "k1": 1.2345678901234567, "tracking_method": "cheetah"}},
                {"cls": "Aperture", "name": "a1", "kw": {"x_max": 1.0, "y_max": 1.0, "shape": "rectangular", "is_active": True}},
                {"cls": first, "name": "m2", "kw": {}},
                {"cls": "Drift", "name": "d2", "kw": {"length": 0.1, "tracking_method": "cheetah"}}]}
            try:
                seg = realgen.build(lat, tdt)
                for bt in ("particle", "parameter"):
                    b = realgen.build_beam(realgen.gen_particle_beam(run.rng) if bt == "particle" else realgen.gen_parameter_beam(run.rng), tdt)
                    merged = seg.transfer_maps_merged(b)
                    run.add_case(["dtype", dt, "merged_leading_" + first, bt], True)
                    w = {n: d for n, d in wrong(merged, dt).items() if "predefined_transfer_map" in n or n.endswith("length") and "combined" in n}
                    w = {n: d for n, d in wrong(merged, dt).items() if not n.split(".")[-1] == "length" or "elements.0" in n or "elements.2" in n}
                    tm_bad = {n: d for n, d in wrong(merged, dt).items() if n.endswith("predefined_transfer_map")}
                    if tm_bad:
                        rec("segment.merged(leading " + first + ")", "Segment", dt, tm_bad, lat)
                    try:
                        out = merged.track(b)
                        ref = seg.track(b)
                        if wrong(out, dt):
                            rec("segment.merged(leading " + first + ").track", "Segment", dt, wrong(out, dt), lat)
                        elif realgen.beams_close(out, ref, rtol=1e-6 if dt == "float32" else 1e-12, atol=1e-9 if dt == "float32" else 1e-16):
                            rec("segment.merged(leading " + first + ").track", "Segment", dt, "merged lattice tracks differently beyond round-off of " + dt, lat)
                    except Exception as ex:
                        rec("segment.merged(leading " + first + ").track", "Segment", dt, f"{type(ex).__name__}: {str(ex)[:120]}", lat)
            except Exception as ex:
                # building / merging a plain lattice of this dtype must not raise (e.g. a dtype mismatch inside the merge)
                rec("segment.merged(leading " + first + ")", "Segment", dt, f"{type(ex).__name__}: {str(ex)[:160]}", lat)
        # beam constructors and transformations
        kw = dict(dtype=tdt)
        tw = dict(beta_x=torch.tensor(2.0, dtype=tdt), alpha_x=torch.tensor(0.5, dtype=tdt), emittance_x=torch.tensor(1e-8, dtype=tdt),
                  beta_y=torch.tensor(3.0, dtype=tdt), alpha_y=torch.tensor(-0.2, dtype=tdt), emittance_y=torch.tensor(2e-8, dtype=tdt))
        ctors = [("ParameterBeam.from_parameters", lambda: cheetah.ParameterBeam.from_parameters(**kw)),
                 ("ParameterBeam.from_twiss", lambda: cheetah.ParameterBeam.from_twiss(**tw, **kw)),
                 ("ParticleBeam.from_parameters", lambda: cheetah.ParticleBeam.from_parameters(num_particles=50, **kw)),
                 ("ParticleBeam.from_twiss", lambda: cheetah.ParticleBeam.from_twiss(num_particles=50, **tw, **kw)),
                 ("ParticleBeam.uniform_3d_ellipsoid", lambda: cheetah.ParticleBeam.uniform_3d_ellipsoid(num_particles=50, **kw)),
                 ("ParticleBeam.make_linspaced", lambda: cheetah.ParticleBeam.make_linspaced(num_particles=10, **kw))]
        beams = {}
        for name, f in ctors:
            try:
                b = f()
            except Exception as ex:
                run.count("ctor_exception_" + name)
                continue
            run.add_case(["ctor", dt, name], True)
            beams[name] = b
            if wrong(b, dt):
                rec(name, "Beam", dt, wrong(b, dt))
        for name, b in beams.items():
            for op, f in (("transformed_to", lambda: b.transformed_to(mu_x=torch.tensor(1e-3, dtype=tdt).expand(b.mu_x.shape).clone())),
                          ("clone", b.clone)):
                try:
                    o = f()
                    if wrong(o, dt):
                        rec(name + "." + op, "Beam", dt, wrong(o, dt))
                except Exception as ex:
                    run.count("beamop_exception_" + op)
            if isinstance(b, cheetah.ParticleBeam):
                for op, f in (("linspaced", lambda: b.linspaced(7)),):
                    try:
                        o = f()
                        if wrong(o, dt):
                            rec(name + "." + op, "Beam", dt, wrong(o, dt))
                    except Exception:
                        run.count("beamop_exception_" + op)
                try:
                    x = b.to_xyz_pxpypz()
                    if str(x.dtype) != "torch." + dt:
                        rec(name + ".to_xyz_pxpypz", "Beam", dt, str(x.dtype))
                except Exception:
                    pass
        # small utilities
        from cheetah.utils import elementwise_linspace
        r = elementwise_linspace(torch.tensor([0.0, 1.0], dtype=tdt), torch.tensor([1.0, 3.0], dtype=tdt), 4)
        if r.dtype != tdt:
            rec("elementwise_linspace", "utils", dt, str(r.dtype))
        # screen reading
        for method in ("histogram", "kde"):
            try:
                s = cheetah.Screen(resolution=(8, 6), pixel_size=torch.tensor([1e-3, 1e-3], dtype=tdt), is_active=True, method=method, dtype=tdt)
                b = realgen.build_beam(realgen.gen_particle_beam(run.rng, n=5), tdt)
                s.track(b)
                img = s.reading
                if img.dtype != tdt:
                    rec("Screen.reading/" + method, "Screen", dt, str(img.dtype))
            except Exception as ex:
                rec("Screen.reading/" + method, "Screen", dt, f"{type(ex).__name__}: {str(ex)[:100]}")
        # importers
        bdir = common.BUILD / PID
        bdir.mkdir(parents=True, exist_ok=True)
        lte = bdir / "acc.lte"
        lte.write_text("d1: drift, l=0.123456789012345\nq1: quad, l=0.2, k1=1.23456789012345\nb1: sbend, l=0.3, angle=0.0123456789012\n"
                       "line1: line=(d1,q1,b1)\n")
        try:
            seg = cheetah.Segment.from_elegant(str(lte), "line1", dtype=tdt)
            if wrong(seg, dt):
                rec("from_elegant", "Segment", dt, wrong(seg, dt))
        except Exception as ex:
            run.count("import_exception")
    return bad


# ---------------------------------------------------------------- B. float64 accuracy against extended precision
def tight_uniform_field(c07, spec, E0, parts, mp):
    """float64 Bmad-X bend body (no fringes) vs C07's independent 40-digit computation of the motion in a uniform field, at round-off
    tolerance relative to the natural scale of each coordinate: positions and tau to 4e-15 (|value| + L), the momenta and delta (all
    normalised to the reference momentum) to 4e-15 (|value| + 1): the code evaluates them from O(L) / O(1) intermediate quantities, so
    that is what float64 round-off means here; a float32 constant or a cancelling formula is off by 1e-12 and more."""
    import copy
    q = copy.deepcopy(spec)
    q["kw"].update({"fringe_at": "neither", "tilt": 0.0})
    out = c07.make(q).track(c07.beam(parts, E0)).particles.tolist()
    m, L, th = mp.mpf(c07.m_eV()), mp.mpf(q["kw"]["length"]), mp.mpf(q["kw"]["angle"])
    g = th / L
    E0d = mp.mpf(E0)
    p0 = mp.sqrt(E0d * E0d - m * m)
    for i, p in enumerate(parts):
        x, px, y, py, tau, d = [mp.mpf(v) for v in p[:6]]
        en = E0d + d * p0
        pc = mp.sqrt(en * en - m * m)
        P = pc / p0
        beta, beta0 = pc / en, p0 / E0d
        n = mp.sqrt(P * P - py * py)
        r = n / g
        s1 = px / n
        c1 = mp.sqrt(1 - s1 * s1)
        R1 = 1 / g + x
        C = (R1 - r * c1, r * s1)
        e = (mp.cos(th), mp.sin(th))
        eC = e[0] * C[0] + e[1] * C[1]
        D = eC * eC - (C[0] ** 2 + C[1] ** 2) + r * r
        R2 = eC + mp.sign(g) * mp.sqrt(D)
        N = ((R2 * e[0] - C[0]) / r, (R2 * e[1] - C[1]) / r)
        d2 = (-N[1], N[0])
        d1 = (s1, c1)
        turn = mp.atan2(d1[0] * d2[1] - d1[1] * d2[0], d1[0] * d2[0] + d1[1] * d2[1])
        arc = r * turn
        z2 = -beta * tau + beta * L / beta0 - P * arc / n
        exp = [R2 - 1 / g, n * (d2[0] * e[0] + d2[1] * e[1]), y + py * arc / n, py, -z2 / beta, d]
        for j in range(6):
            tol = 4e-15 * (abs(float(exp[j])) + (float(L) if j in (0, 2, 4) else 1.0))
            if not abs(out[i][j] - float(exp[j])) <= tol:
                return {"what": "Bmad-X bend body in float64 vs 40-digit reference (exact motion in a uniform field)", "particle": p, "coordinate": j,
                        "observed": out[i][j], "expected": float(exp[j]), "tol": tol}
    return None


def accuracy_oracle(run):
    """float64 runs vs 40-digit references (mpmath); float32 runs vs float64 runs."""
    import cheetah
    import mpmath as mp
    mp.mp.dps = 40
    bad = []
    tdt = torch.float64
    # (1) imported parameters carry the file's value to float64 accuracy
    lte = common.BUILD / PID / "acc.lte"
    vals = {"d1.length": "0.123456789012345", "q1.length": "0.2", "q1.k1": "1.23456789012345", "b1.angle": "0.0123456789012"}
    try:
        seg = cheetah.Segment.from_elegant(str(lte), "line1", dtype=tdt)
        for key, sval in vals.items():
            en, attr = key.split(".")
            got = float(getattr(getattr(seg, en), attr))
            exp = float(sval)
            run.add_case(["accuracy", "import", key], True)
            if abs(got - exp) > 1e-14 * abs(exp):
                bad.append({"kind": "accuracy", "what": "elegant import in float64", "key": key, "got": got, "expected": exp, "rel_err": abs(got - exp) / abs(exp)})
    except Exception:
        run.count("import_exception")
    # (2) transformed_to
    pb = cheetah.ParticleBeam(torch.tensor([[1e-3, 2e-4, -5e-4, 1e-4, 3e-4, 1e-3, 1.0], [-2e-3, 1e-4, 4e-4, -3e-4, 1e-4, -2e-3, 1.0],
                                            [5e-4, -3e-4, 1e-4, 2e-4, -4e-4, 5e-4, 1.0], [0.0, 1e-4, -1e-4, 0.0, 2e-4, 1e-4, 1.0]], dtype=tdt),
                              torch.tensor(1e8, dtype=tdt), particle_charges=torch.full((4,), 1e-12, dtype=tdt), dtype=tdt)
    target = 1.2345678901234e-3
    t = pb.transformed_to(mu_x=torch.tensor(target, dtype=tdt))
    xs = [mp.mpf(float(v)) for v in pb.particles[:, 0]]
    mu = sum(xs) / 4
    exp = [float(x - mu + mp.mpf(target)) for x in xs]
    got = [float(v) for v in t.particles[:, 0]]
    run.add_case(["accuracy", "transformed_to"], True)
    err = max(abs(g - e) for g, e in zip(got, exp))
    if err > 1e-15:
        bad.append({"kind": "accuracy", "what": "ParticleBeam.transformed_to in float64", "max_abs_err": err, "scale": 1e-3})
    # (3) SI conversion
    xp = pb.to_xyz_pxpypz()
    from scipy import constants
    c, me, mec2 = mp.mpf(constants.speed_of_light), mp.mpf(constants.electron_mass), mp.mpf(cheetah.utils.physics.electron_mass_eV)
    g0 = mp.mpf(1e8) / mec2
    b0 = mp.sqrt(1 - 1 / g0 ** 2)
    p0 = g0 * b0 * me * c
    exp_px = [float(mp.mpf(float(v)) * p0) for v in pb.particles[:, 1]]
    got_px = [float(v) for v in xp[:, 1]]
    run.add_case(["accuracy", "to_xyz_pxpypz"], True)
    rel = max(abs(g - e) / abs(e) for g, e in zip(got_px, exp_px))
    if rel > 1e-13:
        bad.append({"kind": "accuracy", "what": "ParticleBeam.to_xyz_pxpypz in float64 (SI momenta)", "max_rel_err": rel})
    # (4) transfer maps: drift and quadrupole, float64 vs mpmath, float32 vs float64
    for L, k1, E in [(0.5, 2.0, 1e8), (1.25, -3.5, 5e6), (0.3, 0.7, 6e9), (2.0, 10.0, 2e7)]:
        g = mp.mpf(E) / mec2
        ig2 = 1 / g ** 2
        beta2 = 1 - ig2
        sk = mp.sqrt(abs(mp.mpf(k1)))
        if k1 > 0:
            cx, sx, cy, sy = mp.cos(sk * L), mp.sin(sk * L) / sk, mp.cosh(sk * L), mp.sinh(sk * L) / sk
        else:
            cx, sx, cy, sy = mp.cosh(sk * L), mp.sinh(sk * L) / sk, mp.cos(sk * L), mp.sin(sk * L) / sk
        ref = {(0, 0): cx, (0, 1): sx, (1, 0): -mp.mpf(k1) * sx, (1, 1): cx, (2, 2): cy, (2, 3): sy, (3, 2): mp.mpf(k1) * sy, (3, 3): cy,
               (4, 5): -mp.mpf(L) / beta2 * ig2}
        q64 = cheetah.Quadrupole(torch.tensor(L, dtype=tdt), torch.tensor(k1, dtype=tdt), dtype=tdt).transfer_map(torch.tensor(E, dtype=tdt))
        q32 = cheetah.Quadrupole(torch.tensor(L), torch.tensor(k1), dtype=torch.float32).transfer_map(torch.tensor(E))
        run.add_case(["accuracy", "quad_map", L, k1, E], True)
        for (i, j), r in ref.items():
            scale = max(abs(float(r)), 1e-3 if (i, j) != (4, 5) else abs(float(r)))
            e64 = abs(float(q64[i, j]) - float(r)) / scale
            e32 = abs(float(q32[i, j]) - float(q64[i, j])) / scale
            if e64 > 1e-13:
                bad.append({"kind": "accuracy", "what": "Quadrupole.transfer_map float64 vs 40-digit reference", "entry": [i, j], "rel_err": e64, "params": [L, k1, E]})
            if e32 > 2e-5:
                bad.append({"kind": "accuracy", "what": "Quadrupole.transfer_map float32 vs float64", "entry": [i, j], "rel_err": e32, "params": [L, k1, E]})
    # (4b) active cavity: outgoing delta of off-crest / long-bunch particles, float64 vs 40-digit evaluation of the coded formula
    from scipy import constants as _c
    for L, V, ph, f, E in [(1.0, 2e7, 30.0, 1.3e9, 1e8), (0.5, 5e6, -60.0, 2.998e9, 2e7), (1.0, 1e7, 0.0, 1.3e9, 5e7)]:
        cav = cheetah.Cavity(torch.tensor(L, dtype=tdt), voltage=torch.tensor(V, dtype=tdt), phase=torch.tensor(ph, dtype=tdt),
                             frequency=torch.tensor(f, dtype=tdt), dtype=tdt)
        ps = [[1e-4, 1e-5, -2e-4, 2e-5, 3e-3, 1e-3, 1.0], [0.0, 0.0, 0.0, 0.0, -5e-3, -2e-3, 1.0], [2e-4, 0.0, 1e-4, 0.0, 1e-2, 0.0, 1.0]]
        out = cav.track(cheetah.ParticleBeam(torch.tensor(ps, dtype=tdt), torch.tensor(E, dtype=tdt), dtype=tdt))
        phi = mp.mpf(ph) * mp.pi / 180
        E1 = mp.mpf(E) + mp.mpf(V) * mp.cos(phi)
        g0, g1 = mp.mpf(E) / mec2, E1 / mec2
        b0, b1 = mp.sqrt(1 - 1 / g0 ** 2), mp.sqrt(1 - 1 / g1 ** 2)
        k = 2 * mp.pi * mp.mpf(f) / mp.mpf(_c.speed_of_light)
        run.add_case(["accuracy", "cavity_delta", L, V, ph, f, E], True)
        for i, p in enumerate(ps):
            tau, dl = mp.mpf(p[4]), mp.mpf(p[5])
            ref = dl * mp.mpf(E) * b0 / (E1 * b1) + mp.mpf(V) * b0 / (E1 * b1) * (mp.cos(-tau * b0 * k + phi) - mp.cos(phi))
            got = float(out.particles[i, 5])
            err = abs(got - float(ref)) / max(abs(float(ref)), 1e-6)
            if err > 1e-11:
                bad.append({"kind": "accuracy", "what": "Cavity.track delta in float64 vs 40-digit reference", "rel_err": err, "params": [L, V, ph, f, E],
                            "particle": p, "got": got, "expected": float(ref)})
    # (4c) linearly spaced beams: the coordinates of a float64 beam are equally spaced to float64 round-off (the weights i/(n-1)
    #      must not be float32), for the helper and for the constructors that use it, scalar and vectorised
    from fractions import Fraction
    from cheetah.utils import elementwise_linspace
    for n in (11, 7, 4):
        a, b = torch.tensor([-1.2345678901234e-3, 0.3], dtype=tdt), torch.tensor([2.3456789012345e-3, 0.7000000000001], dtype=tdt)
        got = elementwise_linspace(a, b, n)
        run.add_case(["accuracy", "elementwise_linspace", n], True)
        for v in range(2):
            fa, fb = Fraction(float(a[v])), Fraction(float(b[v]))
            for i in range(n):
                exp = float(fa + (fb - fa) * Fraction(i, n - 1))
                err = abs(float(got[v, i]) - exp) / max(abs(float(fa)), abs(float(fb)))
                if err > 1e-15:
                    bad.append({"kind": "accuracy", "what": "elementwise_linspace in float64 vs exact rational reference", "n": n, "index": i,
                                "got": float(got[v, i]), "expected": exp, "rel_err": err})
                    break
        if got.dtype != tdt:
            bad.append({"kind": "accuracy", "what": "elementwise_linspace returns dtype " + str(got.dtype)})
        mk = cheetah.ParticleBeam.make_linspaced(num_particles=n, mu_x=torch.tensor([1e-3, -2e-3], dtype=tdt), sigma_x=torch.tensor([1.7e-4, 3.1e-4], dtype=tdt),
                                                 sigma_px=torch.tensor(2.3e-5, dtype=tdt), energy=torch.tensor(1e8, dtype=tdt), dtype=tdt)
        lin = [("ParticleBeam.make_linspaced", mk)]
        try:
            qb = cheetah.ParameterBeam.from_parameters(mu_x=torch.tensor(1e-3, dtype=tdt), sigma_x=torch.tensor(1.7e-4, dtype=tdt),
                                                       sigma_px=torch.tensor(2.3e-5, dtype=tdt), energy=torch.tensor(1e8, dtype=tdt), dtype=tdt)
            lin.append(("ParameterBeam.linspaced", qb.linspaced(n)))
            lin.append(("ParticleBeam.linspaced", mk.linspaced(n)))
        except Exception:
            run.count("linspaced_exception")
        run.add_case(["accuracy", "linspaced_beams", n], True)
        for name, lb in lin:
            P = lb.particles.reshape(-1, lb.particles.shape[-2], 7)
            for row in P:
                for c in range(6):
                    col = [Fraction(float(v)) for v in row[:, c]]
                    scale = max(abs(col[0]), abs(col[-1]))
                    if scale == 0:
                        continue
                    dev = max(abs(col[i] - (col[0] + (col[-1] - col[0]) * Fraction(i, n - 1))) for i in range(n)) / scale
                    if dev > 4e-15:
                        bad.append({"kind": "accuracy", "what": name + " in float64: coordinates are not equally spaced to float64 round-off",
                                    "n": n, "coordinate": c, "rel_dev": float(dev)})
                        break
    # (4d) Bmad-X tracking in float64 vs 40-digit references, and float32 vs float64: drift (closed form) and the body of weak / strong
    #      bends (exact motion in a uniform field; C07's independent circle-intersection computation, here at round-off tolerance)
    import importlib
    c07 = importlib.import_module("props.c07")
    for L, E, d in [(0.789, 4.5e7, -0.03), (1.5, 6e6, 0.02), (0.2, 1e9, 0.0)]:
        ps = [[6e-4, 1.6e-3, -1.1e-3, -5.7e-4, -2.8e-4, d, 1.0], [0.0, 0.0, 0.0, 0.0, 0.0, 0.0, 1.0], [-1e-3, 2e-4, 5e-4, 1e-3, 1e-3, -d / 2, 1.0]]
        out = cheetah.Drift(torch.tensor(L, dtype=tdt), tracking_method="bmadx", dtype=tdt).track(
            cheetah.ParticleBeam(torch.tensor(ps, dtype=tdt), torch.tensor(E, dtype=tdt), dtype=tdt)).particles
        run.add_case(["accuracy", "bmadx_drift", L, E], True)
        m = mp.mpf(c07.m_eV())
        p0 = mp.sqrt(mp.mpf(E) ** 2 - m * m)
        for i, p in enumerate(ps):
            x, px, y, py, tau, dl = [mp.mpf(v) for v in p[:6]]
            en = mp.mpf(E) + dl * p0
            pc = mp.sqrt(en * en - m * m)
            P = pc / p0
            pl = mp.sqrt(P * P - px * px - py * py)
            beta, beta0 = pc / en, p0 / mp.mpf(E)
            exp = [x + mp.mpf(L) * px / pl, px, y + mp.mpf(L) * py / pl, py, None, dl]
            z2 = -beta * tau + mp.mpf(L) * (beta / beta0 - P / pl)
            exp[4] = -z2 / beta
            for j in range(6):
                tol = 4e-15 * (abs(float(exp[j])) + (L if j in (0, 2, 4) else 1.0))
                if not abs(float(out[i, j]) - float(exp[j])) <= tol:
                    bad.append({"kind": "accuracy", "what": "Bmad-X Drift in float64 vs 40-digit reference", "coordinate": j, "particle": p,
                                "got": float(out[i, j]), "expected": float(exp[j]), "params": [L, E]})
    for ang in (2e-5, -1e-3, 0.05, -0.19, 1.9):
        spec = {"cls": "Dipole", "kw": {"length": 0.7, "angle": ang}}
        ps = [[1e-4, 2e-5, -1e-4, 1e-5, 1e-4, 1e-3, 1.0], [0.0, 0.0, 0.0, 0.0, 0.0, 0.0, 1.0], [-2e-4, -3e-5, 5e-5, 2e-5, -2e-4, -2e-3, 1.0]]
        run.add_case(["accuracy", "bmadx_bend_body", ang], True)
        try:
            f = tight_uniform_field(c07, spec, 1e8, ps, mp)
        except Exception as ex:  # noqa
            f = {"what": "exception " + repr(ex)[:200]}
        if f:
            bad.append(dict(f, kind="accuracy", angle=ang))
        q64 = cheetah.Dipole(torch.tensor(0.7, dtype=tdt), angle=torch.tensor(ang, dtype=tdt), tracking_method="bmadx", dtype=tdt)
        q32 = cheetah.Dipole(torch.tensor(0.7), angle=torch.tensor(ang), tracking_method="bmadx", dtype=torch.float32)
        o64 = q64.track(cheetah.ParticleBeam(torch.tensor(ps, dtype=tdt), torch.tensor(1e8, dtype=tdt), dtype=tdt)).particles
        o32 = q32.track(cheetah.ParticleBeam(torch.tensor(ps), torch.tensor(1e8), dtype=torch.float32)).particles
        dd = (o32.double() - o64).abs()
        lim = 2e-6 * (o64.abs() + torch.tensor([0.7, 1.0, 0.7, 1.0, 0.7, 1.0, 1.0], dtype=tdt))      # float32 round-off on the same natural scales
        if bool((dd > lim).any()):
            k = int((dd / lim).argmax())
            bad.append({"kind": "accuracy", "what": "Bmad-X Dipole float32 tracking vs float64 tracking", "angle": ang, "particle": k // 7, "coordinate": k % 7,
                        "float32": float(o32.reshape(-1)[k]), "float64": float(o64.reshape(-1)[k])})
    # (4e) splitting a float64 element: the slices carry L/n (and angle/n) to float64 round-off, not a float32-rounded fraction
    for cls, extra in (("Drift", {}), ("Quadrupole", {"k1": 1.7}), ("HorizontalCorrector", {"angle": 1.3e-3}), ("VerticalCorrector", {"angle": -2.1e-3})):
        for n in (3, 7, 10):
            L = 0.7
            kw = {k: torch.tensor(v, dtype=tdt) for k, v in extra.items()}
            el = getattr(cheetah, cls)(length=torch.tensor(L, dtype=tdt), dtype=tdt, **kw)
            try:
                pieces = el.split(torch.tensor(L / (n - 0.5), dtype=tdt))
            except Exception:
                run.count("split_exception_" + cls)
                continue
            run.add_case(["accuracy", "split", cls, n], True)
            if len(pieces) != n:
                continue          # the count is C16's subject
            for pc in pieces:
                for attr, whole in [("length", L)] + [(a, v) for a, v in extra.items() if a == "angle"]:
                    got = float(getattr(pc, attr))
                    if getattr(pc, attr).dtype != tdt:
                        bad.append({"kind": "accuracy", "what": f"{cls}.split: slice buffer `{attr}` has dtype {getattr(pc, attr).dtype}", "n": n})
                    elif abs(got - whole / n) > 4e-16 * abs(whole / n):
                        bad.append({"kind": "accuracy", "what": f"{cls}.split in float64: slice `{attr}` is not {attr}/n to float64 round-off", "n": n,
                                    "got": got, "expected": whole / n, "rel_err": abs(got - whole / n) / abs(whole / n)})
                        break
    # (5) tracking through a small lattice: float32 vs float64
    for _ in range(10):
        lat = realgen.gen_lattice(run.rng, n_max=4, depth=0, method="cheetah",
                                  allow=["Drift", "Quadrupole", "Solenoid", "HorizontalCorrector", "VerticalCorrector", "Dipole"])
        beam = realgen.gen_particle_beam(run.rng, n=3, energy=1e8)
        try:
            o64 = realgen.build(lat, torch.float64).track(realgen.build_beam(beam, torch.float64))
            o32 = realgen.build(lat, torch.float32).track(realgen.build_beam(beam, torch.float32))
        except Exception:
            continue
        run.add_case(["accuracy", "f32_vs_f64", lat], True)
        d = (o32.particles.double() - o64.particles).abs().max().item()
        if d > 5e-5 * max(1e-3, o64.particles[..., :6].abs().max().item()):
            bad.append({"kind": "accuracy", "what": "float32 tracking vs float64 tracking", "max_abs_diff": d, "lattice": lat})
    return bad


# ---------------------------------------------------------------- known findings (signatures)
LENGTHLESS = ("Aperture", "Screen", "SpaceChargeKick", "Marker", "BPM", "Segment")
KNOWN = [
    ("F16f", lambda b: b["kind"] == "dtype" and b["dtype"] == "float64" and isinstance(b["detail"], dict) and b["cls"] in LENGTHLESS
     and all(k.split(".")[-1] == "length" for k in b["detail"]),
     "elements without a length (Aperture, Screen, SpaceChargeKick, Marker, BPM) keep Element.__init__'s float32 `length` placeholder in a float64 lattice [F16f]"),
    ("F16a", lambda b: b["kind"] == "accuracy" and b["what"].startswith("elegant import in float64"),
     "lattice converters build parameters with torch.tensor(<python float>) in the default dtype: a lattice imported with dtype=float64 carries float32-rounded values [F16a]"),
    ("F16b", lambda b: b["kind"] == "accuracy" and "to_xyz_pxpypz" in b["what"],
     "particle_beam.speed_of_light / electron_mass are float32 tensors: SI conversions of a float64 beam are only float32-accurate [F16b]"),
    ("F16c", lambda b: b["kind"] == "accuracy" and "transformed_to" in b["what"],
     "ParticleBeam.transformed_to allocates torch.ones(...) in the default dtype: a float64 beam is rounded to float32 [F16c]"),
    ("F16d", lambda b: b["kind"] == "dtype" and b["op"] == "Screen.reading/histogram" and b["dtype"] == "float64",
     "Screen.pixel_bin_edges is float32: the histogram reading of a float64 screen raises [F16d]"),
    ("F16e", lambda b: b["kind"] == "dtype" and b["op"] == "elementwise_linspace" and b["dtype"] == "float64",
     "elementwise_linspace returns the default dtype instead of the dtype of its arguments [F16e]"),
]


def sites_obligation(run):
    dtype_sites, _ = ast_sites.scan(common.REPO)
    src = ("From Coq Require Import List Bool String.\nFrom Cheetah Require Import Ops.DtypeSites.\nImport ListNotations. Open Scope string_scope.\n"
           + ast_sites.coq_sites("found", dtype_sites) + "\n"
           "Theorem dtype_sites_reviewed_now : sites_reviewed found = true. Proof. vm_compute. reflexivity. Qed.\n")
    path = common.BUILD / PID / "DtypeSitesNow.v"
    path.parent.mkdir(parents=True, exist_ok=True)
    path.write_text(src)
    rc, out, err = common.coqc(path)
    run.cov["obligations"] += 1
    run.cov["dtype_sites_found"] = len(dtype_sites)
    if rc == 0:
        run.cov["discharged"] += 1
        return None
    return f"a tensor is created without the simulation's dtype at a site that has not been reviewed: {err[-500:]}"


def main(tier, replay=None):
    run = common.Run(PID, tier)
    thorough = tier == "thorough"
    run.cov["rule"] = ("(a) Coq: dtype selection logic of verify_device_and_dtype and torch promotion, all inputs; inventory of default-dtype tensor creations "
                       "regenerated from the source must be a subset of the reviewed list (vm_compute). (b) on the real code, for float32 and float64: every "
                       "floating buffer of every element class after construct/track/clone/split, lattice optimisations, beam constructors and "
                       "transformations, importers, screen readings must have the requested dtype. (c) float64 results vs 40-digit references and "
                       "float32 vs float64. Non-trivial = every case (each is a distinct class/op/dtype combination).")
    if replay:
        r = json.loads(open(replay).read())
        print("replay: re-running the oracles; looking for", r.get("what") or r.get("op"))
        common.setup_python_env()
        bad = dtype_oracle(run, 1) + accuracy_oracle(run)
        hit = [b for b in bad if (b.get("what") or b.get("op")) == (r.get("what") or r.get("op"))]
        print("replay:", "still fails" if hit else "no longer fails", hit[:1])
        return 1 if hit else 0
    proof_ok = run.proof_stage()
    ok_aux, log_aux = common.coq_build("theories/Ops/DtypeSites.vo")     # used by the generated case files, not in the closure of the Props file
    if not ok_aux:
        proof_ok, run.proof_problem = False, "coq build of theories/Ops/DtypeSites.vo failed: " + log_aux[-800:]
    site_problem = sites_obligation(run)
    bad = dtype_oracle(run, 25 if thorough else 2) + accuracy_oracle(run)
    new = []
    listed = {f["id"] for f in common.load_known_findings(PID) if f.get("status") == "known"}
    seen = set()
    for b in bad:
        for fid, pred, what in KNOWN:
            if fid in listed and pred(b):     # only findings listed in the committed known-findings file are suppressed
                run.known(what)
                seen.add(fid)
                break
        else:
            new.append(b)
    run.cov["known_findings_not_reproduced"] = sorted(listed - seen)
    run.cov["traces_validated_against_impl"] = run.cov["evaluations"]
    run.cov["tested_only"] = ["dtype of results of the real code (observed for both dtypes on every class/op)",
                              "float64 accuracy vs 40-digit mpmath references on drift/quadrupole maps, import, transformed_to, SI conversion; "
                              "the tight-tolerance comparison of float64 maps with the exact Coq model is part of C02's correspondence",
                              "IEEE round-off is not modelled: no round-off theorem"]
    if new:
        run.violation(dict(new[0], relation="every tensor of the result has the requested dtype; float64 results are float64-accurate"))
    elif site_problem:
        run.violation({"kind": "obligation", "broken": "Ops/DtypeSites.v sites_reviewed on the regenerated inventory", "detail": site_problem}, no_input=True)
    elif not proof_ok:
        run.violation({"kind": "proof", "broken": run.proof_problem}, no_input=True)
    return run.finish("proof")
