"""C13 -- Imported lattices mean what the lattice file says.

Level: partial.  The denotational semantics of the supported lattice language (Parse/LatticeLang.v), the line front end
(Parse/Lines.v) and the NX-table layout (Parse/NxTables.v) are Coq models with proved laws; the regex/`eval` text front end of
cheetah is tied to the model by PROGRAM-LEVEL CORRESPONDENCE OVER A GENERATOR (testing, labelled so in the evidence)."""
import json
import math
import re
import traceback

import common
import latticegen as lg
from common import coq_list, coq_string

PID = "C13"
NX_T = "((%s, %s) : list (string * string * float) * option (list (string * string * float)))"
BDIR = common.BUILD / PID
PRE_LANG = """From Coq Require Import List Bool String ZArith PrimFloat.
From Cheetah Require Import Parse.Lines Parse.LatticeLang Parse.LatticeLangFlat Parse.Rpn Parse.NxTables.
Import ListNotations. Open Scope string_scope."""

# Six small defects of the importers (F18 twice, F40..F43) may be repaired in /repo one by one.  The Coq development keeps the
# transcription of the code as it was (convert_bmad / merge_continued / define_header false; the _refuted theorems are about it) and
# holds the transcription of the repaired code (convert_bmad_v fx / merge_continued_fixed / define_header true; the _fixed theorems).
# Which one is the faithful model is decided PER FINDING by its status in known_findings.json (known -> as it was, fixed ->
# repaired), cross-checked on every run by replaying the stored input of the finding on the current tree (probe_fixes):
#   known + defect reproduces     -> model as it was, generators stay out of the region, KNOWN-FINDING line
#   fixed + stored input is fine  -> repaired model, generators EXERCISE the repaired behaviour, stored input = regression test
#   known + stored input is fine  -> the status is stale: note, repaired model (the check stays quiet)
#   fixed + defect reproduces     -> VIOLATION with the stored input (a repaired defect is back); model as it was for the rest
FIX_KEYS = lg.FIX_KEYS
STATE = {"fx": {k: False for k in FIX_KEYS}}


def pre_lang():
    b = lambda k: "true" if STATE["fx"][k] else "false"
    return PRE_LANG + ("\nDefinition fx_now : fixes := mk_fixes %s %s %s %s.   (* F18 sbend g, F18 kickers, F42, F43 *)"
                       "\nDefinition f41_now : bool := %s.\nDefinition f40_now : bool := %s."
                       % (b("F18a"), b("F18b"), b("F42"), b("F43"), b("F41"), b("F40")))


def finding_key(f):
    """F18 is listed twice (Bmad sbend g / Bmad kickers): the entries are told apart by their text"""
    if f.get("id") == "F18":
        blob = (json.dumps(f.get("signature", {})) + " " + f.get("what", "")).lower()
        return "F18b" if "kicker" in blob else "F18a"
    return f.get("id")


# the stored inputs of the six findings as programs (used as regression cases against the repaired model; compared only while the
# stored text is this one)
def _bmad(defn):
    return {"flavour": "bmad", "root": "lat", "prog": [defn, ["line", "lat", [defn[1]]], ["use", "lat"]]}


REGRESSION = {
    "F18a": dict(_bmad(["def", "b", "sbend", [["l", ["num", "0.5"]], ["g", ["num", "1"]], ["e1", ["num", "0.1"]]]]),
                 text="b: sbend, l = 0.5, g = 1, e1 = 0.1\nlat: line = (b)\nuse, lat\n"),
    "F18b": dict(_bmad(["def", "h", "hkicker", [["l", ["num", "0.1"]], ["kick", ["num", "1e-3"]]]]),
                 text="h: hkicker, l = 0.1, kick = 1e-3\nlat: line = (h)\nuse, lat\n"),
    "F40": {"flavour": "elegant", "root": "lat", "prog": [["def", "q", "quad", [["l", ["num", "0.1"]], ["k1", ["num", "2"]]]], ["line", "lat", ["q"]]],
            "text": "q: quad , l = 0.1, k1 = 2\nlat: line = (q)\n"},
    "F41": {"flavour": "elegant", "root": "lat", "prog": [["line", "lat", ["d", "d"]], ["def", "d", "drift", [["l", ["num", "1"]]]]],
            "text": "lat: line = (d, d)\nd: drift,\nl = 1,\n"},
    "F42": dict(_bmad(["def", "e", "ecollimator", [["l", ["num", "0.1"]], ["x_limit", ["num", "1e-3"]]]]),
                text="e: ecollimator, l = 0.1, x_limit = 1e-3\nlat: line = (e)\nuse, lat\n"),
    "F43": dict(_bmad(["def", "b", "sbend", [["l", ["num", "0.5"]], ["angle", ["num", "0.2"]]]]),
                text="b: sbend, l = 0.5, angle = 0.2\nlat: line = (b)\nuse, lat\n"),
}


# ------------------------------------------------------------------------------------------------ observation
PARAMS = {
    "Drift": [("length", "length")],
    "Quadrupole": [("length", "length"), ("k1", "k1"), ("tilt", "tilt")],
    "Dipole": [("length", "length"), ("angle", "angle"), ("k1", "k1"), ("e1", "dipole_e1"), ("e2", "dipole_e2"), ("tilt", "tilt"),
               ("gap", "gap"), ("fint", "fringe_integral"), ("fintx", "fringe_integral_exit")],
    "Cavity": [("length", "length"), ("voltage", "voltage"), ("phase", "phase"), ("frequency", "frequency")],
    "HorizontalCorrector": [("length", "length"), ("angle", "angle")],
    "VerticalCorrector": [("length", "length"), ("angle", "angle")],
    "Solenoid": [("length", "length"), ("k", "k")],
    "Marker": [], "BPM": [], "Screen": [],
    "Aperture": [("x_max", "x_max"), ("y_max", "y_max"), ("shape", "shape")],
    "Undulator": [("length", "length")],
    "CustomTransferMap": [("length", "length")],
}
PARAMS["RBend"] = PARAMS["Dipole"]
PARAMS["TransverseDeflectingCavity"] = PARAMS["Cavity"]


class BadObservation(Exception):
    pass


def scalar32(t, what):
    import torch
    if not isinstance(t, torch.Tensor) or t.dtype != torch.float32 or t.numel() != 1:
        raise BadObservation(f"{what}: expected one float32 value, got {type(t).__name__} {getattr(t, 'dtype', None)} {getattr(t, 'shape', None)}")
    return float(t.reshape(()))


def observe_tree(e):
    """cheetah element tree -> JSON-able tree {seg, ch} / {cls, name, params:[[k, hex | str]]}."""
    import cheetah
    if isinstance(e, cheetah.Segment):
        nm = None if re.fullmatch(r"unnamed_element_\d+", e.name) else e.name
        return {"seg": nm, "ch": [observe_tree(c) for c in e.elements]}
    cls = type(e).__name__
    if cls not in PARAMS:
        raise BadObservation(f"unexpected class {cls}")
    ps = []
    for k, attr in PARAMS[cls]:
        v = getattr(e, attr)
        ps.append([k, v if isinstance(v, str) else scalar32(v, f"{cls}.{attr}")])
    if cls == "CustomTransferMap":
        m = e.predefined_transfer_map
        import torch
        if m.dtype != torch.float32 or tuple(m.shape) != (7, 7):
            raise BadObservation("transfer map shape/dtype")
        for i in range(7):
            for j in range(7):
                ps.append(["m%d%d" % (i, j), float(m[i, j])])
    return {"cls": cls, "name": e.name, "params": ps}


def tree_has_nan(t):
    if "seg" in t:
        return any(tree_has_nan(c) for c in t["ch"])
    return any(isinstance(v, float) and math.isnan(v) for _, v in t["params"])


def coq_tree(t):
    if "seg" in t:
        nm = "None" if t["seg"] is None else "(Some %s)" % coq_string(t["seg"])
        return "(CSeg %s %s)" % (nm, coq_list([coq_tree(c) for c in t["ch"]]))
    ps = coq_list(["(%s, %s)" % (coq_string(k), "PStr " + coq_string(v) if isinstance(v, str) else "PNum " + lg.flit(v)) for k, v in t["params"]])
    return "(CLeaf %s %s %s)" % (coq_string(t["cls"]), coq_string(t["name"]), ps)


def tree_leaves(t):
    if "seg" in t:
        return [l for c in t["ch"] for l in tree_leaves(c)]
    return [t]


def import_text(flavour, root, text, tag="case"):
    """Write the file into build/C13 and import it with the real cheetah.  Returns (tree | None, error string | None)."""
    import cheetah
    BDIR.mkdir(parents=True, exist_ok=True)
    path = BDIR / (tag + (".lte" if flavour == "elegant" else ".bmad"))
    path.write_text(text)
    try:
        import contextlib
        import io
        with contextlib.redirect_stdout(io.StringIO()):
            seg = cheetah.Segment.from_elegant(str(path), root) if flavour == "elegant" else cheetah.Segment.from_bmad(str(path))
    except RecursionError:
        return None, "RecursionError"
    except Exception as ex:  # the importer raised: the error channel
        return None, type(ex).__name__ + ": " + str(ex)[:160]
    obs = observe_tree(seg)
    if "seg" in obs:
        # second observable: imported.flattened() -- the expansion of the selected beamline as cheetah itself lists it (a sub-line
        # left among its elements shows as a {seg, ch} entry); an exception is an observation too
        try:
            fl = seg.flattened()
            obs["flat"] = {"seg": None if re.fullmatch(r"unnamed_element_\d+", fl.name) else fl.name, "ch": [observe_tree(c) for c in fl.elements]}
        except BadObservation:
            raise
        except Exception as ex:
            obs["flat"] = None
            obs["flat_error"] = type(ex).__name__ + ": " + str(ex)[:160]
    else:
        obs["flat"] = dict(obs)             # (a selected name that is an element: nothing to flatten)
    return obs, None


def tree_depth(t):
    return 1 + max([tree_depth(c) for c in t["ch"]] or [0]) if "seg" in t else 0


def coq_case(case, obs):
    fl = "Elegant" if case["flavour"] == "elegant" else "Bmad"
    o = "None" if obs is None else "(Some %s)" % coq_tree(obs)
    fo = "None" if obs is None or obs.get("flat") is None else "(Some %s)" % coq_tree(obs["flat"])
    return "((%s, %s, %s, %s, %s) : flavour * string * list stmt * option ctree * option ctree)" % (
        fl, coq_string(case["root"]), lg.coq_program(case["prog"]), o, fo)


# ------------------------------------------------------------------------------------------------ stages
def check_constants(run):
    from cheetah.converters.utils import fortran_namelist as fn
    ctx = fn.parse_lines([])
    items = ["(%s, %s)" % (coq_string(k), lg.flit(float(ctx[k]))) for k in lg.CONSTS]
    term = "(" + coq_list(items) + " : list (string * float))"
    pre = PRE_LANG + """
Definition const_check (l : list (string * float)) : bool :=
  forallb (fun kv => match get ctx0 (fst kv) with Some (VNum x) => PrimFloat.eqb x (snd kv) | _ => false end) l
  && Nat.eqb (List.length l) (List.length ctx0)."""
    failing = common.run_shards(PID, "consts", pre, [term], "const_check")
    run.cov["traces_validated_against_impl"] += 1
    return failing


LINE_ALPHABET = ["a", "b", "q1", "L", "=", ":", " ", " ", "\t", ",", ",", "&", "&", "!", "x", "1.5", "(", ")", "Q", "line"]


def gen_raw_lines(rng, tricky=True):
    n = rng.randrange(0, 7)
    out = []
    for _ in range(n):
        k = rng.randrange(0, 7)
        s = "".join(rng.choice(LINE_ALPHABET) for _ in range(k))
        if tricky and rng.random() < 0.5:
            s += rng.choice([",", "&", " &", ", ", "&  ", ",!c", "& ! c", "{"])
        out.append(s)
    return out


def lines_correspondence(run, n):
    """read_clean_lines and merge_delimiter_continued_lines themselves against Parse/Lines.v (exact)."""
    from pathlib import Path
    from cheetah.converters.utils import fortran_namelist as fn
    clean_terms, merge_terms, front_terms, meta = [], [], [], []
    for i in range(n):
        raw = gen_raw_lines(run.rng)
        p = BDIR / "lines_case.txt"
        p.write_text("\n".join(raw) + ("\n" if run.rng.random() < 0.5 else ""))
        cleaned = fn.read_clean_lines(Path(p))
        # a file ending without newline / with an empty last line reads the same list of lines
        clean_terms.append("((%s, %s) : list string * list string)" % (coq_list([coq_string(s) for s in raw]), coq_list([coq_string(s) for s in cleaned])))
        d, rm = run.rng.choice([("&", True), (",", False), ("{", False), (",", True), ("&", False)])
        if run.rng.random() < 0.6:
            src = cleaned
        else:                                  # another cleaned list (only inputs the readers can produce)
            p.write_text("\n".join(gen_raw_lines(run.rng)))
            src = fn.read_clean_lines(Path(p))
        try:
            obs = fn.merge_delimiter_continued_lines(list(src), d, rm)
        except IndexError:
            obs = None
        merge_terms.append("((%s, %s, %s, %s) : list string * string * bool * option (list string))" % (coq_list([coq_string(s) for s in src]), coq_string(d), "true" if rm else "false",
                                                 "None" if obs is None else "(Some %s)" % coq_list([coq_string(s) for s in obs])))
        try:
            m = fn.merge_delimiter_continued_lines(cleaned, "&", True)
            m = fn.merge_delimiter_continued_lines(m, ",", False)
            m = fn.merge_delimiter_continued_lines(m, "{", False)
        except IndexError:
            m = None
        front_terms.append("((%s, %s) : list string * option (list string))" % (coq_list([coq_string(s) for s in raw]), "None" if m is None else "(Some %s)" % coq_list([coq_string(s) for s in m])))
        meta.append({"raw": raw, "cleaned": cleaned, "merge_in": src, "delimiter": d, "remove": rm, "merge_out": obs, "front": m})
        run.add_case(["lines", raw, src, d, rm], len(raw) >= 2)
        run.count("lines_merge_" + ("IndexError" if obs is None else "ok"))
    bad = []
    for name, terms, chk in (("lclean", clean_terms, "clean_check"), ("lmerge", merge_terms, "merge_check_v f41_now"), ("lfront", front_terms, "front_check_v f41_now")):
        for i in common.run_shards(PID, name, pre_lang(), terms, chk):
            bad.append({"kind": "lines_correspondence", "stage": chk, "case": meta[i]})
    run.cov["traces_validated_against_impl"] += 3 * n
    return bad


STYLES = [{"case": "lower", "cont": 0.0, "comments": 0.0, "blanks": 0.0},
          {"case": "upper", "cont": 0.35, "comments": 0.3, "blanks": 0.2},
          {"case": "mixed", "cont": 0.5, "comments": 0.2, "blanks": 0.3},
          {"case": "per_stmt", "cont": 0.7, "comments": 0.5, "blanks": 0.1}]


def program_correspondence(run, n_good, n_bad, extra=()):
    """Generated programs -> text -> real importer -> tree ; compared exactly with vm_compute (denote_v fx_now ast).
    extra: (case, text) pairs imported as they are (stored inputs of repaired findings = regression cases)."""
    cases, terms = [], []
    probes = [{k: c[k] for k in ("flavour", "root", "prog")} for fl in ("elegant", "bmad") for c in lg.gen_zero_probes(run.rng, fl)]
    for i in range(n_good + n_bad + len(extra) + len(probes)):
        flavour = "elegant" if i % 2 == 0 else "bmad"
        if i < n_good:
            # three cases in ten: lines nested at least three deep (a chain of sub-lines used once or twice, the element types that
            # import as small Segments in the innermost line); Elegant: a third of the binary-node values spelled in RPN
            case = lg.gen_program(run.rng, flavour, size=run.rng.choice([3, 6, 10]), depth=run.rng.choice([1, 2, 3]), nest=5,
                                  deep=(i % 10) in (4, 5, 9), rpn=0.35)
            kind = "wellformed"
        elif i < n_good + n_bad:
            case, kind = lg.gen_malformed(run.rng, flavour)
        elif i < n_good + n_bad + len(extra):
            case, text = extra[i - n_good - n_bad]
            flavour, kind = case["flavour"], "regression_input"
        else:
            case = probes[i - n_good - n_bad - len(extra)]          # one optional property given as an exact zero
            flavour, kind = case["flavour"], "zero_given"
        if kind != "regression_input":
            style = run.rng.choice(STYLES)
            text = lg.render_program(case["prog"], run.rng, style)
        try:
            obs, err = import_text(flavour, case["root"], text)
        except BadObservation as ex:
            cases.append({"case": case, "kind": kind, "text": text, "observed": None, "error": "BadObservation: " + str(ex), "bad_observation": True})
            terms.append(coq_case(case, {"seg": "__bad_observation__", "ch": []}))
            continue
        if obs is not None and tree_has_nan(obs):
            run.count("discarded_nan_value")
            continue
        if err is not None and "Overflow when unpacking long long" in err:
            # an integer-valued expression of the generated program exceeds 2^63 (e.g. freq^3): torch.tensor(<huge python int>) raises.
            # Absurd magnitudes are outside the physical range the property is about: unspecified, not compared.
            run.count("discarded_integer_overflow_in_generated_expression")
            continue
        n_leaves = len(tree_leaves(obs)) if obs else 0
        run.add_case(["prog", flavour, case["prog"], case["root"]], kind == "wellformed" and n_leaves >= 2)
        if obs is not None and kind == "wellformed":
            count_repaired_regions(run, case, obs)
        run.count(f"{flavour}_{kind}_" + ("imported" if obs is not None else "raised"))
        if obs is not None:
            run.count("leaves_%d" % min(n_leaves, 20) if n_leaves < 20 else "leaves_20plus")
            run.count("segment_nesting_depth_%d" % min(tree_depth(obs), 6))
            run.count("flattened_compared" if obs.get("flat") is not None else "flattened_raised")
            for l in tree_leaves(obs):
                run.count("class_" + l["cls"])
        for s in case["prog"]:
            run.count("stmt_" + s[0] + ("_wild" if s[0] == "prop" and s[1][0] == "wild" else ""))
        cases.append({"case": case, "kind": kind, "text": text, "observed": obs, "error": err})
        terms.append(coq_case(case, obs))
    failing = common.run_shards(PID, "prog", pre_lang(), terms, "c13_check_flat_v fx_now", shard=60)
    run.cov["traces_validated_against_impl"] += len(cases)
    if cases:
        c = cases[0]
        run.sample({"flavour": c["case"]["flavour"], "text": c["text"], "observed": c["observed"]})
    return cases, failing


def count_repaired_regions(run, case, obs):
    """input-distribution counts: how often an imported well-formed program sits in the region of one of the six findings"""
    if case["flavour"] != "bmad":
        return
    defs = {}
    for st in case["prog"]:
        if st[0] == "def":
            defs[st[1]] = st
    for l in tree_leaves(obs):
        d = defs.get(l["name"])
        if d is None or d[2] not in ("sbend", "hkicker", "vkicker"):
            continue                               # (inherited / later-assigned properties are not traced here: counts are lower bounds)
        given = {p for p, _ in d[3]}
        if d[2] == "sbend" and l["cls"] == "Dipole":
            if "g" in given and "angle" not in given:
                run.count("region_F18a_sbend_g_without_angle")
            if "e1" not in given:
                run.count("region_F43_sbend_without_e1")
        if d[2] in ("hkicker", "vkicker") and ({"l", "kick"} & given):
            run.count("region_F18b_kicker_with_l_or_kick")

    def segs(t):
        if "seg" in t:
            yield t
            for c in t["ch"]:
                yield from segs(c)
    for sg in segs(obs):
        names = [c.get("name", "") for c in sg["ch"] if "cls" in c]
        if len(sg["ch"]) == 2 and len(names) == 2 and names[0].endswith("_drift") and names[1].endswith("_aperture") and \
                defs.get(names[0][:-6], [0, 0, ""])[2] == "ecollimator":
            run.count("region_F42_ecollimator_segment_" + ("named" if sg["seg"] is not None else "unnamed"))


HEAD_NAMES = ["q", "q1", "qf.1", "b_2", "d", "zz_9", "Q", "", "a b", "1a", "x.", "q-1"]
HEAD_TYPES = ["quad", "drift", "sbend", "marker", "x9_", "ecollimator", "", "Qu", "a.b", "q1"]
HEAD_TAILS = ["", "", ", l = 1", ",l=1, k1 = 2", ", l = 0.5 , k1 = 2", ",", ", ", " l = 1", ";", ",,", ", type = \"a, b\"", " ,l=2", "  , l = 3"]


def define_correspondence(run, n):
    """define_element itself against Parse/Lines.v define_header (the match of the head of a definition: name, type, and whether
    the line is matched at all; white space in front of the first comma is the region of F40)."""
    from cheetah.converters.utils import fortran_namelist as fn
    terms, meta = [], []
    ws = ["", "", " ", "\t", "  "]
    for i in range(n):
        r = run.rng
        colon = r.choice([":", ":", ":", ":", ":", "", "=", "::"])
        sp = r.choice(["", "", "", " ", "\t ", "  "])
        line = r.choice(HEAD_NAMES) + r.choice(ws) + colon + r.choice(ws) + r.choice(HEAD_TYPES) + sp + r.choice(HEAD_TAILS)
        try:
            ctx = fn.define_element(line, {})
            ctx.pop("__builtins__", None)                            # put there by eval() of a property value
            if len(ctx) != 1:
                raise BadObservation("define_element defined %d names" % len(ctx))
            (name, props), = ctx.items()
            obs = (name, props.get("element_type"))
            if not isinstance(obs[1], str):
                raise BadObservation("element_type " + repr(obs[1]))
        except AttributeError:
            obs = None
        except BadObservation as ex:
            obs = ("__bad_observation__", str(ex))
        except Exception:
            run.count("define_other_exception_discarded")           # the property list is not about the head of the definition
            continue
        run.add_case(["define", line], obs is not None)
        run.count("define_" + ("matched" if obs is not None else "AttributeError") + ("_space_before_comma" if re.search(r"[a-z0-9_][ \t]+,", line) else ""))
        o = "None" if obs is None else "(Some (%s, %s))" % (coq_string(obs[0]), coq_string(obs[1]))
        terms.append("((%s, %s) : string * option (string * string))" % (coq_string(line), o))
        meta.append({"line": line, "observed": list(obs) if obs else None})
    bad = [{"kind": "define_header", "line": meta[i]["line"], "observed": meta[i]["observed"], "f40_repaired_model": STATE["fx"]["F40"]}
           for i in common.run_shards(PID, "define", pre_lang(), terms, "define_check_v f40_now")]
    run.cov["traces_validated_against_impl"] += len(terms)
    return bad


RPN_T = "((%s, %s, %s, %s, %s) : list (string * float) * expr * expr * binop * option float)"
RPN_COQ_OP = {"add": "OAdd", "sub": "OSub", "mul": "OMul", "div": "ODiv"}


def rpn_observe(text, vars_):
    """fortran_namelist.evaluate_expression on the text in a fresh context holding the named constants and the variables.
    Returns ("value", float) | ("raised", text) | ("discard", why)."""
    from cheetah.converters.utils import fortran_namelist as fn
    ctx = fn.parse_lines([])
    ctx.update({k: v for k, v in vars_})
    try:
        import contextlib
        import io
        with contextlib.redirect_stdout(io.StringIO()):
            v = fn.evaluate_expression(text, ctx)
    except Exception as ex:
        return "raised", type(ex).__name__ + ": " + str(ex)[:120]
    if isinstance(v, bool) or not isinstance(v, (int, float)):
        return "not_a_number", repr(v)[:120]
    if isinstance(v, int) and abs(v) > 2 ** 53:
        return "discard", "integer above 2^53"
    v = float(v)
    if math.isnan(v) or math.isinf(v):
        return "discard", "not finite"
    return "value", v


def no_pow(e):
    """x^k is python's float pow (libm) in binary64, the model multiplies: equal after the binary32 cast of an imported parameter
    (where the program-level stage compares them), not bit for bit in binary64 -- this stage stays with + - * / sqrt abs."""
    if e[0] == "pow":
        a = no_pow(e[1])
        return ["mul", a, a] if e[2] == 2 else a
    return [e[0]] + [no_pow(x) if isinstance(x, list) else x for x in e[1:]]


def rpn_term(c, obs):
    vs = coq_list(["(%s, %s)" % (coq_string(k), lg.flit(v)) for k, v in c["vars"]])
    o = "(Some %s)" % lg.flit(obs[1]) if obs[0] == "value" else "None"
    return RPN_T % (vs, lg.coq_expr(c["a"]), lg.coq_expr(c["b"]), RPN_COQ_OP[c["op"]], o)


def rpn_correspondence(run, n):
    """fortran_namelist.evaluate_expression (-> rpn.is_valid_expression / rpn.eval_expression) itself on `A B op` texts against the
    stack machine of Parse/Rpn.v (eval_rpn on the post-order token list = rpn3 = evalf of the tree, all three compared), exact in
    binary64.  Operands: literals (negative ones included), variables, named constants and blank-free infix sub-expressions with
    the non-commutative operators at every depth; a small share divides by an exact zero (the error channel)."""
    r = run.rng
    cases, terms = [], []
    for i in range(n):
        names = r.sample(["lcell", "k1q", "ang", "x_2", "l0", "bend_r"], r.randrange(0, 4))
        vars_ = [[nm, lg.num_value(lg.num_text(r)) * r.choice([1, 1, -1])] for nm in names]
        env = {"vars": names, "attrs": []}
        op = r.choice(["sub", "sub", "div", "div", "add", "mul"])
        d = r.choice([0, 0, 1, 2, 3])
        a = no_pow(lg.gen_expr(r, env, d))
        if op == "div":
            b = ["num", r.choice(["0", "0.0"])] if r.random() < 0.04 else lg.gen_nonzero(r, env)
            if r.random() < 0.3:
                b = ["neg", b]
        else:
            b = no_pow(lg.gen_expr(r, env, r.choice([0, 0, 1, 2, 3])))
        if r.random() < 0.25:
            b = ["neg", ["num", lg.num_text(r)]]                       # a negative literal as the right operand:  1.5 -2 /
        c = {"vars": vars_, "a": a, "b": b, "op": op, "text": lg.rpn_plain(lg.render_rpn([op, a, b]))}
        obs = rpn_observe(c["text"], vars_)
        if obs[0] == "discard":
            run.count("rpn_discarded_" + obs[1].replace(" ", "_"))
            continue
        run.add_case(["rpn", vars_, c["text"]], a != b)
        run.count("rpn_%s_%s" % (op, obs[0]))
        run.count("rpn_operand_depth_%d" % d)
        c["observed"] = list(obs)
        cases.append(c)
        terms.append(rpn_term(c, obs))
    failing = common.run_shards(PID, "rpn", PRE_LANG, terms, "rpn_check", shard=250)
    run.cov["traces_validated_against_impl"] += len(cases)
    bad = []
    for i in failing[:3]:
        c = cases[i]
        infix = lg.render_expr([c["op"], c["a"], c["b"]])
        bad.append({"kind": "rpn_value", "text": c["text"], "vars": c["vars"], "a": c["a"], "b": c["b"], "op": c["op"], "observed": c["observed"],
                    "same_tree_infix": infix, "infix_evaluates_to": list(rpn_observe(infix, c["vars"])),
                    "relation": "evaluate_expression('A B op') = eval_rpn (rpn_of A ++ rpn_of B ++ [op]) = value of the tree A op B (Parse/Rpn.v), operand order included"})
    return bad


def model_says(case):
    """Text of the model's denotation (for replay files)."""
    fl = "Elegant" if case["flavour"] == "elegant" else "Bmad"
    p = BDIR / "model_says.v"
    p.write_text(pre_lang() + "\nEval vm_compute in (let t := denote_v fx_now %s %s %s in (t, option_map flattened t)).\n" % (fl, coq_string(case["root"]), lg.coq_program(case["prog"])))
    rc, out, err = common.coqc(p, timeout=300)
    return re.sub(r"\s+", " ", out)[:6000] if rc == 0 else "coqc failed: " + err[-400:]


def single_check(case):
    """Import the canonical rendering of a program and compare with the model (one coqc run).  True = agree."""
    import random
    text = lg.render_program(case["prog"], random.Random(0), STYLES[0])
    try:
        obs, err = import_text(case["flavour"], case["root"], text, tag="shrink")
    except BadObservation:
        return False, text, None
    try:
        failing = common.run_vm_cases(PID, "shrink", pre_lang(), [coq_case(case, obs)], "c13_check_flat_v fx_now", timeout=300)
    except RuntimeError:
        return True, text, obs
    return not failing, text, obs


def shrink_program(case, budget=14):
    """Greedy: drop statements / line members while model and importer still disagree."""
    cur = json.loads(json.dumps(case))
    ok, text, obs = single_check(cur)
    if ok:
        return case, None, None            # only fails in the original style: keep the original
    tries = 0
    changed = True
    while changed and tries < budget:
        changed = False
        for i in range(len(cur["prog"]) - 1, -1, -1):
            if tries >= budget:
                break
            cand = dict(cur, prog=cur["prog"][:i] + cur["prog"][i + 1:])
            tries += 1
            ok2, t2, o2 = single_check(cand)
            if not ok2:
                cur, text, obs = cand, t2, o2
                changed = True
    return cur, text, obs


def nx_observe(rows, rng):
    import cheetah
    import torch
    p = BDIR / "nx_case.csv"
    p.write_text(lg.render_nx(rows, rng))
    try:
        seg = cheetah.Segment.from_nx_tables(str(p))
    except Exception as ex:
        return None, type(ex).__name__ + ": " + str(ex)[:120]
    out = []
    for e in seg.elements:
        ln = e.length
        if not isinstance(ln, torch.Tensor) or ln.dtype != torch.float32 or ln.numel() != 1:
            raise BadObservation("nx length " + repr(ln))
        out.append([type(e).__name__, e.name, float(ln.reshape(()))])
    return out, None


def nx_correspondence(run, n):
    cases, terms = [], []
    for i in range(n):
        kind = "ok" if i % 3 else run.rng.choice(["overlap", "overlap", "unknown_class"])
        rows = lg.gen_nx(run.rng, n=run.rng.randrange(1, 12), kind=kind)
        try:
            obs, err = nx_observe(rows, run.rng)
        except BadObservation as ex:
            obs, err = [["__bad__", str(ex), 0.0]], None
        run.add_case(["nx", rows], obs is not None and len(obs) >= 3)
        run.count("nx_" + kind + ("_imported" if obs is not None else "_raised"))
        o = "None" if obs is None else "(Some %s)" % coq_list(["(%s, %s, %s)" % (coq_string(c), coq_string(nm), lg.flit(l)) for c, nm, l in obs])
        terms.append(NX_T % (lg.coq_nx_rows(rows), o))
        cases.append({"rows": rows, "observed": obs, "error": err, "kind": kind})
    failing = common.run_shards(PID, "nx", PRE_LANG, terms, "nx_check", shard=100)
    run.cov["traces_validated_against_impl"] += len(cases)
    return cases, failing


def nx_oracle(case):
    """On the implementation alone: every tabulated element's centre sits at its Z_beam relative to the first (float32 tolerance),
    elements come in order of Z_beam, total length = span + half end lengths."""
    rows, obs = case["rows"], case["observed"]
    if obs is None:
        return None
    kept = sorted([r for r in rows if r[1] not in lg.NX_IGNORE], key=lambda r: r[2])
    pos, centres = 0.0, {}
    for cls, nm, ln in obs:
        if not nm.startswith("DRIFT_"):
            centres.setdefault(nm, pos + ln / 2)
        pos += ln
    if not kept:
        return None
    first = kept[0]

    def centre_of(r):
        if r[1] == "MCXG":                                  # two coils back to back: the pair's centre is the joint
            h = r[0][:6] + "H" + r[0][7:]
            return centres.get(h, float("nan")) + 5e-5 / 2
        return centres.get(r[0], float("nan"))
    c0 = centre_of(first)
    tol = 2e-5
    for r in kept:
        c = centre_of(r)
        if not abs((c - c0) - (r[2] - first[2])) <= tol:
            return {"kind": "nx_centre", "rows": rows, "element": r[0], "centre_rel_first": c - c0, "tabulated_rel_first": r[2] - first[2], "observed": obs}
    return None


def expansion_oracle(case, obs):
    """On the implementation alone: leaves appear in the order of the in-order expansion of the selected line (by the last
    definition of each line), each member as often as the expansion says (a member contributes [name], [name_drift,
    name_aperture] or [name_predrift, name, name_postdrift])."""
    exp = lg.expansion(case["prog"], case["root"])
    if exp is None or obs is None:
        return None
    leaves = [l["name"] for l in tree_leaves(obs)]
    if "seg" in obs:
        # imported.flattened() lists exactly the leaves of the imported tree, in order, and no sub-line is left among them
        fl = obs.get("flat")
        if fl is None:
            return {"kind": "expansion", "flattened_raised": obs.get("flat_error"), "expected_member_order": exp, "observed_leaf_names": leaves}
        left = [c["seg"] for c in fl["ch"] if "seg" in c]
        if left or fl["ch"] != tree_leaves(obs) or fl["seg"] != obs["seg"]:
            return {"kind": "expansion", "expected_member_order": exp, "observed_leaf_names": leaves, "sub_lines_left_in_flattened": left,
                    "flattened_names": [c.get("name", c.get("seg")) for c in fl["ch"]], "segment_nesting_depth": tree_depth(obs)}
    i = 0
    for w in exp:
        if leaves[i:i + 1] == [w]:
            i += 1
        elif leaves[i:i + 2] == [w + "_drift", w + "_aperture"]:
            i += 2
        elif leaves[i:i + 3] == [w + "_predrift", w, w + "_postdrift"]:
            i += 3
        else:
            return {"kind": "expansion", "expected_member_order": exp, "observed_leaf_names": leaves, "mismatch_at_leaf": i}
    if i != len(leaves):
        return {"kind": "expansion", "expected_member_order": exp, "observed_leaf_names": leaves, "mismatch_at_leaf": i}
    return None


def length_oracle(flavour, root, text):
    import cheetah
    import contextlib
    import io
    p = BDIR / ("len_case" + (".lte" if flavour == "elegant" else ".bmad"))
    p.write_text(text)
    with contextlib.redirect_stdout(io.StringIO()):
        seg = cheetah.Segment.from_elegant(str(p), root) if flavour == "elegant" else cheetah.Segment.from_bmad(str(p))
    if not isinstance(seg, cheetah.Segment):
        return None

    def leaves(e):
        return [x for c in e.elements for x in leaves(c)] if isinstance(e, cheetah.Segment) else [e]
    ls = leaves(seg)
    if not ls:
        return None
    tot = sum(float(l.length) for l in ls)
    try:
        got = float(seg.length)
    except Exception as ex:
        return {"kind": "length", "error": repr(ex)}
    if not (math.isfinite(tot) and math.isfinite(got)):
        return None
    if abs(got - tot) > 1e-5 * max(1.0, sum(abs(float(l.length)) for l in ls)):
        return {"kind": "length", "segment_length": got, "sum_of_leaf_lengths": tot}
    return None


def metamorphic(run, cases, n):
    """Style changes and reordering of independent statements must not change the imported segment."""
    bad = []
    good = [c for c in cases if c["kind"] == "wellformed" and c["observed"] is not None]
    run.rng.shuffle(good)
    for c in good[:n]:
        case = c["case"]
        base = c["observed"]
        for k in range(2):
            style = run.rng.choice(STYLES)
            text = lg.render_program(case["prog"], run.rng, style)
            obs, err = import_text(case["flavour"], case["root"], text, tag="meta")
            run.count("oracle_style")
            if obs != base and not (obs and tree_has_nan(obs)):
                bad.append({"kind": "style_invariance", "flavour": case["flavour"], "root": case["root"], "text_a": c["text"], "text_b": text,
                            "observed_a": base, "observed_b": obs, "error_b": err, "relation": "same program, different spelling => same segment"})
        prog2 = lg.reorder_independent(case["prog"], run.rng)
        text = lg.render_program(prog2, run.rng, STYLES[0])
        obs, err = import_text(case["flavour"], case["root"], text, tag="meta")
        run.count("oracle_reorder")
        if obs != base:
            bad.append({"kind": "reorder_invariance", "flavour": case["flavour"], "root": case["root"], "text_a": c["text"], "text_b": text,
                        "observed_a": base, "observed_b": obs, "error_b": err, "relation": "independent statements reordered => same segment"})
        e = expansion_oracle(case, base)
        run.count("oracle_expansion")
        if e:
            bad.append(dict(e, flavour=case["flavour"], root=case["root"], text=c["text"], relation="leaf order = in-order expansion of the selected line"))
        try:
            e = length_oracle(case["flavour"], case["root"], c["text"])
        except Exception:
            e = None
        run.count("oracle_length")
        if e:
            bad.append(dict(e, flavour=case["flavour"], root=case["root"], text=c["text"], relation="Segment.length = sum of expanded element lengths"))
    return bad


# ------------------------------------------------------------------------------------------------ known findings
def finding_holds(entry):
    """Replay the stored input of a listed finding on the implementation; True = the defect is still there."""
    r = entry["replay"]
    k = r["kind"]
    if k == "import_value":
        obs, err = import_text(r["flavour"], r.get("root", ""), r["text"], tag="known")
        if obs is None:
            return r.get("expect_error") is not None and r["expect_error"] in (err or "")
        if r.get("expect_error"):
            return False
        for l in tree_leaves(obs):
            if l["name"] == r["element"]:
                v = dict(l["params"]).get(r["param"])
                return v is not None and abs(v - r["intended"]) > 1e-6 * max(1.0, abs(r["intended"]))
        return False
    if k == "import_error":
        obs, err = import_text(r["flavour"], r.get("root", ""), r["text"], tag="known")
        return obs is None and r["expect_error"] in (err or "")
    if k == "segment_name":
        obs, err = import_text(r["flavour"], r.get("root", ""), r["text"], tag="known")
        if obs is None:
            return False
        return any("seg" in c and c["seg"] is None for c in obs.get("ch", []))
    return False


def repaired_ok(entry):
    """The stored input of a finding imports with the intended meaning (what the repaired code must do)."""
    r = entry["replay"]
    obs, err = import_text(r["flavour"], r.get("root", ""), r["text"], tag="known")
    if obs is None:
        return False
    if r["kind"] == "import_value":
        for l in tree_leaves(obs):
            if l["name"] == r["element"]:
                v = dict(l["params"]).get(r["param"])
                return v is not None and abs(v - r["intended"]) <= 1e-6 * max(1.0, abs(r["intended"]))
        return False
    if r["kind"] == "segment_name":
        return all(c["seg"] is not None for c in obs.get("ch", []) if "seg" in c)
    return True


def probe_fixes(run, report=True):
    """Status of each of the six findings x behaviour of the current tree on its stored input -> which transcription is the faithful
    model (and what the generators may exercise).  Returns (state, regressions, regression_cases)."""
    state = {k: False for k in FIX_KEYS}
    regressions, cases, how = [], [], {}
    for f in common.load_known_findings(PID):
        k = finding_key(f)
        st = f.get("status")
        if k not in FIX_KEYS or not f.get("replay") or st not in ("known", "fixed"):
            continue
        try:
            holds = finding_holds(f)
        except Exception:
            holds = False
        try:
            ok = (not holds) and repaired_ok(f)
        except Exception:
            ok = False
        if st == "known":
            state[k] = ok
            how[k] = "known, defect reproduces: code as it was" if holds else (
                "known but the stored input imports as intended: STALE STATUS, repaired transcription used" if ok else
                "known, stored input neither fails as recorded nor imports as intended: code as it was")
            if ok and report:
                run.notes.append(f"{k}: {f['id']} ({f.get('signature', {}).get('class', '')}) is listed known but its stored input now imports with the "
                                 f"intended meaning: the status is stale (flip it to fixed); the repaired transcription is the model for this run")
                print(f"NOTE: property={PID} stale status: {run.notes[-1]}", flush=True)
        else:
            state[k] = not holds
            how[k] = "fixed, stored input imports as intended: repaired transcription" if ok else (
                "fixed but the defect REPRODUCES: regression" if holds else "fixed but the stored input does not import as intended: regression")
            run.cov.setdefault("fixed_findings_replayed", []).append(k)
            if not ok:
                r = f["replay"]
                obs, err = import_text(r["flavour"], r.get("root", ""), r["text"], tag="known")
                regressions.append({"kind": "regression", "finding": f["id"], "key": k, "flavour": r["flavour"], "root": r.get("root", ""), "text": r["text"],
                                    "stored_replay": r, "observed": obs, "import_error": err,
                                    "what": f"finding {f['id']} is listed as fixed but fails again on its stored input: {f['what']}",
                                    "relation": "the stored input of a repaired finding imports with the meaning the file gives it"})
        if state[k] and REGRESSION[k]["text"] == f["replay"].get("text"):
            c = REGRESSION[k]
            cases.append(({"flavour": c["flavour"], "root": c["root"], "prog": c["prog"]}, c["text"]))
    if report:
        run.cov["importer_model"] = {k: ("repaired" if state[k] else "as it was") + " (" + how.get(k, "finding not listed: code as it was") + ")" for k in FIX_KEYS}
    return state, regressions, cases


def replay_known(run):
    for f in common.load_known_findings(PID):
        if f.get("status") != "known":
            continue
        try:
            still = finding_holds(f)
        except Exception:
            still = False
        if still:
            run.known(f["what"])
        else:
            k = finding_key(f)
            run.cov["known_findings_not_reproduced"].append(
                f"{k}: the stored input no longer fails" + (" (the status is stale: flip it to fixed)" if STATE["fx"].get(k) else ""))


# ------------------------------------------------------------------------------------------------ main
def main(tier, replay=None):
    run = common.Run(PID, tier)
    common.setup_python_env()
    thorough = tier == "thorough"
    run.cov["rule"] = ("random lattice PROGRAMS of the supported Elegant/Bmad subset (every element type the converters dispatch on, their understood "
                       "properties, variables, + - * / ^int sqrt abs expressions, named constants, attribute reads, inheritance chains, redefinitions, "
                       "later and wildcard property assignments, nested/repeated lines up to depth 5 placed anywhere in the file -- three programs in ten "
                       "with a chain of sub-lines at least three deep, used once or twice, and moni-with-l / collimators (small Segments) innermost --, "
                       "`use`; Elegant: a third of the binary-node values spelled in RPN `A B op`) rendered in a "
                       "random style (case, spacing, & and , continuations at arbitrary cut points, comments, blank lines), imported with "
                       "Segment.from_elegant / from_bmad and compared EXACTLY (tree shape, names, classes, every float32 parameter; and "
                       "imported.flattened() with the model's flattened tree) with vm_compute of the Coq denotation; `A B op` texts (operands: literals, "
                       "negative literals, variables, constants, blank-free infix sub-expressions of depth <= 3) through evaluate_expression vs the RPN "
                       "stack machine, exact in binary64; malformed programs check the error channel; raw line lists vs read_clean_lines / "
                       "merge_delimiter_continued_lines; random heads of element definitions vs define_element; random NX tables vs the float32-exact "
                       "layout model.  The regions of the findings F18 (sbend g, kicker l/kick), F40 (white space before the first comma), F41 "
                       "(continuation mark on the last lines), F42, F43 (sbend without e1) are avoided while the finding is known and EXERCISED against "
                       "the repaired transcription once it is fixed (per finding; see coverage.importer_model).  Non-trivial = well-formed with >= 2 "
                       "leaves (programs), >= 2 lines (line lists), a matched head (definition heads), >= 3 output elements (NX); distinct by full content.")
    if replay:
        STATE["fx"], _, _ = probe_fixes(run, report=False)
        lg.set_repaired(STATE["fx"])
        return do_replay(run, replay)
    proof_ok = run.proof_stage()
    # second tie: the two convert_element dispatches, validate_understood_properties and the merge passes are re-translated from REPO's
    # source and proved equal to Parse/LatticeLang*.v / Parse/Lines*.v (Gen/ConvGenEquiv.v)
    import translate_stage
    trc = translate_stage.translator_obligation_conv(run)
    if trc["status"] != "ok":
        run.notes.append("translator obligation (converters/LatticeJSON): " + json.dumps(translate_stage.replay_fields_conv(trc))[:600])
    if trc["status"] != "ok" and ("latticejson" in str(trc.get("file", "")) or str(trc.get("lemma", "")).startswith("gen_lj_")):
        trc = dict(trc, status="ok")      # the LatticeJSON part of the stage is C14's obligation
    if not proof_ok:
        run.notes.append(run.proof_problem)
    STATE["fx"], regressions, regression_cases = probe_fixes(run)
    lg.set_repaired(STATE["fx"])

    broken, found = [], []          # (what, detail) model/impl disagreements ; failing inputs found by the oracles
    if check_constants(run):
        broken.append({"kind": "constants", "broken": "named constants of parse_lines differ from Parse/LatticeLang.v ctx0"})
    for b in lines_correspondence(run, 1000 if thorough else 300):
        found.append(dict(b, relation="read_clean_lines / merge_delimiter_continued_lines = Parse/Lines.v (clean / merge_continued)"))
    for b in define_correspondence(run, 1500 if thorough else 250):
        found.append(dict(b, relation="define_element matches the head of a definition as Parse/Lines.v define_header does (name, type, match or AttributeError)"))
    cases, failing = program_correspondence(run, 3000 if thorough else 400, 500 if thorough else 60, extra=regression_cases)
    for i in failing[:3]:
        c = cases[i]
        small, text, obs = shrink_program(c["case"]) if not c.get("bad_observation") else (c["case"], None, None)
        found.append({"kind": "program", "flavour": c["case"]["flavour"], "root": small["root"], "program": small["prog"],
                      "text": text or c["text"], "observed": obs if text else c["observed"], "import_error": c["error"],
                      "model_says": model_says(small), "relation": "imported segment = denotation of the file (Parse/LatticeLang.v denote)"})
    found[:0] = rpn_correspondence(run, 2500 if thorough else 250)      # (small inputs: reported first)
    nxc, nxf = nx_correspondence(run, 800 if thorough else 150)
    for i in nxf[:3]:
        found.append({"kind": "nx", "rows": nxc[i]["rows"], "observed": nxc[i]["observed"], "import_error": nxc[i]["error"],
                      "relation": "from_nx_tables = Parse/NxTables.v nx_import (sorted by Z_beam, drifts fill the gaps, float32 arithmetic)"})
    for c in nxc:
        e = nx_oracle(c)
        if e:
            found.append(dict(e, relation="centre_k - centre_0 = Z_k - Z_0 for every tabulated element"))
            break
    found += metamorphic(run, cases, 300 if thorough else 60)
    replay_known(run)
    for k, v in sorted(lg.STYLE_COUNTS.items()):
        run.count(k, v)
    run.cov["tested_only"] = ["text -> statement front end (regular expressions + eval) of fortran_namelist.py: program-level correspondence over the generator",
                              "line cleaning / continuation merging code vs Parse/Lines.v: exact differential runs on random line lists",
                              "define_element's match of the head of a definition vs Parse/Lines.v define_header: exact differential runs on random heads",
                              "NX-table import vs Parse/NxTables.v float instance: exact differential runs; centres within 2e-5 m (float32 positions)",
                              "style / independent-reordering invariance, expansion order (also of imported.flattened(): no sub-line left, = leaves of the tree) and total length on the implementation alone",
                              "rpn.py (is_valid_expression / eval_expression) vs Parse/Rpn.v: exact differential runs on generated `A B op` texts; x^k is left out of that binary64 stage (libm pow vs repeated multiplication agree only after the binary32 cast)",
                              "CODATA constants and numpy degrees() are compared by value on each run"]

    for r in regressions:            # a repaired defect that is back: always reported, with its stored input
        run.violation(r)
    if found:
        for f in found[:3]:
            run.violation(f)
    elif regressions:
        pass
    elif broken:
        run.violation(broken[0], no_input=True)
    elif trc["status"] != "ok":
        # a translated converter function no longer equals the proved model and no oracle of this run found a failing input
        run.violation(translate_stage.replay_fields_conv(trc), no_input=True)
    elif not proof_ok:
        run.violation({"kind": "proof", "broken": run.proof_problem}, no_input=True)
    return run.finish("partial")


def do_replay(run, path):
    r = json.loads(open(path).read())
    k = r.get("kind")
    if k == "program":
        case = {"flavour": r["flavour"], "root": r["root"], "prog": r["program"]}
        obs, err = import_text(r["flavour"], r["root"], r["text"], tag="replay")
        failing = common.run_vm_cases(PID, "replay", pre_lang(), [coq_case(case, obs)], "c13_check_flat_v fx_now", timeout=600)
        print("replay:", "property FAILS on this input" if failing else "property holds on this input")
        print(json.dumps({"observed": obs, "error": err})[:3000])
        return 1 if failing else 0
    if k == "rpn_value":
        obs = rpn_observe(r["text"], r["vars"])
        failing = common.run_vm_cases(PID, "replay", PRE_LANG, [rpn_term(r, obs)], "rpn_check", timeout=600) if obs[0] != "discard" else []
        print("replay:", "property FAILS on this input" if failing else "property holds on this input")
        print(json.dumps({"observed": list(obs), "infix": list(rpn_observe(r["same_tree_infix"], r["vars"]))}))
        return 1 if failing else 0
    if k == "regression":
        e = {"replay": r["stored_replay"]}
        bad = finding_holds(e) or not repaired_ok(e)
        print("replay:", "property FAILS on this input" if bad else "property holds on this input")
        return 1 if bad else 0
    if k == "define_header":
        from cheetah.converters.utils import fortran_namelist as fn
        try:
            ctx = fn.define_element(r["line"], {})
            ctx.pop("__builtins__", None)
            (name, props), = ctx.items()
            o = "(Some (%s, %s))" % (coq_string(name), coq_string(str(props.get("element_type"))))
        except AttributeError:
            o = "None"
        failing = common.run_vm_cases(PID, "replay", pre_lang(), ["((%s, %s) : string * option (string * string))" % (coq_string(r["line"]), o)], "define_check_v f40_now", timeout=600)
        print("replay:", "property FAILS on this input" if failing else "property holds on this input")
        return 1 if failing else 0
    if k in ("style_invariance", "reorder_invariance"):
        a, _ = import_text(r["flavour"], r["root"], r["text_a"], tag="replay")
        b, _ = import_text(r["flavour"], r["root"], r["text_b"], tag="replay")
        print("replay:", "property FAILS on this input" if a != b else "property holds on this input")
        return 1 if a != b else 0
    if k == "nx":
        obs, err = nx_observe(r["rows"], run.rng)
        o = "None" if obs is None else "(Some %s)" % coq_list(["(%s, %s, %s)" % (coq_string(c), coq_string(nm), lg.flit(l)) for c, nm, l in obs])
        failing = common.run_vm_cases(PID, "replay", PRE_LANG, [NX_T % (lg.coq_nx_rows(r["rows"]), o)], "nx_check", timeout=600)
        print("replay:", "property FAILS on this input" if failing else "property holds on this input")
        return 1 if failing else 0
    if k == "nx_centre":
        obs, err = nx_observe(r["rows"], run.rng)
        e = nx_oracle({"rows": r["rows"], "observed": obs})
        print("replay:", "property FAILS on this input" if e else "property holds on this input")
        return 1 if e else 0
    if k == "lines_correspondence":
        from pathlib import Path
        from cheetah.converters.utils import fortran_namelist as fn
        c = r["case"]
        sl = lambda l: coq_list([coq_string(x) for x in l])
        so = lambda l: "None" if l is None else "(Some %s)" % sl(l)
        p = BDIR / "lines_replay.txt"
        p.write_text("\n".join(c["raw"]))
        cleaned = fn.read_clean_lines(Path(p))

        def merge(l, d, rm):
            try:
                return fn.merge_delimiter_continued_lines(list(l), d, rm)
            except IndexError:
                return None
        obs = merge(c["merge_in"], c["delimiter"], c["remove"])
        m = merge(cleaned, "&", True)
        m = m if m is None else merge(m, ",", False)
        m = m if m is None else merge(m, "{", False)
        bad = []
        bad += common.run_vm_cases(PID, "replay_a", PRE_LANG, ["((%s, %s) : list string * list string)" % (sl(c["raw"]), sl(cleaned))], "clean_check", timeout=600)
        bad += common.run_vm_cases(PID, "replay_b", pre_lang(), ["((%s, %s, %s, %s) : list string * string * bool * option (list string))" % (
            sl(c["merge_in"]), coq_string(c["delimiter"]), "true" if c["remove"] else "false", so(obs))], "merge_check_v f41_now", timeout=600)
        bad += common.run_vm_cases(PID, "replay_c", pre_lang(), ["((%s, %s) : list string * option (list string))" % (sl(c["raw"]), so(m))], "front_check_v f41_now", timeout=600)
        print("replay:", "property FAILS on this input" if bad else "property holds on this input")
        print(json.dumps({"cleaned": cleaned, "merged": obs, "front_end": m}))
        return 1 if bad else 0
    if k in ("expansion", "length"):
        case_text = r["text"]
        e = length_oracle(r["flavour"], r["root"], case_text) if k == "length" else None
        print("replay:", "property FAILS on this input" if e else "re-run ./check C13 for this kind")
        return 1 if e else 0
    print("replay: nothing to replay for kind", k)
    return 0
