"""C14 -- Saving a lattice to LatticeJSON and loading it back reproduces the lattice."""
import copy
import json
import math
import shutil
import warnings

import torch

import common
import introspect
import realgen
from common import coq_list, coq_string

PID = "C14"
PREAMBLE = """From Coq Require Import List Bool String.
From Cheetah Require Import Ops.Json.
Import ListNotations. Open Scope string_scope."""
TOP_LEVEL = ["version", "title", "info", "root", "elements", "lattices"]
F12_ATTRS = {("Quadrupole", "num_steps"), ("Quadrupole", "tracking_method"), ("Screen", "is_blocking"), ("Undulator", "is_active")}
VECTORISABLE = {"length", "k1", "angle", "tilt", "k", "voltage", "phase", "dipole_e1", "dipole_e2", "rbend_e1", "rbend_e2"}
TMP = common.BUILD / PID / "json"


# ---------------------------------------------------------------- lattice specs
def leaves(spec):
    if spec["cls"] == "Segment":
        for c in spec["es"]:
            yield from leaves(c)
    else:
        yield spec


def has_nested(spec):
    """some segment of the lattice has a sub-segment child (the region of finding F11)"""
    return spec["cls"] == "Segment" and any(c["cls"] == "Segment" for c in spec["es"])


def has_cls(spec, cls):
    return any(l["cls"] == cls for l in leaves(spec))


def aperture_inf(spec):
    def inf(v):
        return any(inf(x) for x in v) if isinstance(v, list) else (isinstance(v, float) and math.isinf(v))
    return any(l["cls"] == "Aperture" and any(inf(final_value(l, k)) for k in ("x_max", "y_max")) for l in leaves(spec))


def vectorise(rng, spec, n):
    """give some scalar tensor parameters a leading vector dimension of size n (same n for the whole lattice)"""
    for l in leaves(spec):
        for k, v in list(l["kw"].items()):
            if k in VECTORISABLE and isinstance(v, (int, float)) and not isinstance(v, bool) and rng.random() < 0.3:
                l["kw"][k] = [round(float(v) * (1.0 + 0.25 * i) + 0.01 * i, 6) for i in range(n)]


def uniquify(spec, seen=None):
    """the property quantifies over uniquely named lattices: rename any repeated name"""
    seen = set() if seen is None else seen
    n, k = spec.get("name") or "unnamed", 0
    while n in seen:
        k += 1
        n = f"{spec.get('name')}_{k}"
    spec["name"] = n
    seen.add(n)
    for c in spec.get("es", []):
        uniquify(c, seen)
    return spec


def gen_case(rng, nested, allow=None, retune=False):
    lat = realgen.gen_lattice(rng, n_max=5, depth=(rng.choice([1, 2, 3]) if nested else 0), allow=allow)
    if nested and not has_nested(lat):
        # force one sub-segment at a random position
        sub = realgen.gen_lattice(rng, 2, 0, allow, counter=[1000])
        sub["name"] = "forced_sub"
        for i, c in enumerate(sub["es"]):
            c["name"] = f"fs{i}"
        lat["es"].insert(rng.randrange(0, len(lat["es"]) + 1), sub)
    uniquify(lat)
    vec = rng.random() < 0.4
    vec_n = rng.choice([2, 3]) if vec else 0
    if vec:
        vectorise(rng, lat, vec_n)
    if retune:
        gen_retune(rng, lat, vec_n)
    return lat, vec


# re-tuning after construction.  RBend stores dipole_e = rbend_e + angle/2 and reports rbend_e = dipole_e - angle/2: to keep that
# round trip free of float32 rounding (the property is about save/load, not about that subtraction) every angle / pole-face
# angle of a re-tuned RBend is a small dyadic number.
DYADIC_ANGLE = [0.0, 0.015625, -0.03125, 0.125, -0.25, 0.25, 0.5]
DYADIC_E = [0.0, 0.0625, -0.125, 0.25, 0.75]
RBEND_LIVE = {"angle": DYADIC_ANGLE, "dipole_e1": DYADIC_E, "dipole_e2": DYADIC_E, "rbend_e1": DYADIC_E, "rbend_e2": DYADIC_E}


def final_value(l, k):
    """value of parameter k of leaf l at the time of saving (last re-tune, else the constructor argument)"""
    for rt in reversed(l.get("retune", [])):
        if rt["attr"] == k:
            return rt["value"]
    return l["kw"].get(k)


def gen_retune(rng, lat, vec_n):
    """plan assignments of new values to tensor parameters of the built elements (as done when optimising magnet settings):
    leaf["retune"] = [{"attr", "value", "via": "element" | "segment"}], applied in order after construction."""
    def like(pool, n):
        return [rng.choice(pool) for _ in range(n)] if n else rng.choice(pool)
    if not has_cls(lat, "RBend") and rng.random() < 0.5:
        e = realgen.gen_element(rng, cls="RBend", name="rb_forced")
        lat["es"].insert(rng.randrange(0, len(lat["es"]) + 1), e)
        uniquify(lat)
    total = 0
    for l in leaves(lat):
        plan, kw = [], l["kw"]
        fresh = realgen.gen_element(rng, cls=l["cls"])["kw"]
        if l["cls"] == "RBend":
            for k, pool in (("angle", DYADIC_ANGLE), ("rbend_e1", DYADIC_E), ("rbend_e2", DYADIC_E)):
                kw[k] = like(pool, len(kw[k]) if isinstance(kw.get(k), list) else 0)
            live = [k for k in RBEND_LIVE if rng.random() < 0.5] or ["angle"]
            rng.shuffle(live)
            for k in live:
                plan.append({"attr": k, "value": like(RBEND_LIVE[k], vec_n if (vec_n and rng.random() < 0.3) else 0)})
        for k in kw:
            if k not in realgen.TENSOR_KW or k in RBEND_LIVE and l["cls"] == "RBend" or fresh.get(k) is None or kw[k] is None:
                continue
            if rng.random() < 0.5:
                v = fresh[k]
                if vec_n and k in VECTORISABLE and isinstance(v, (int, float)) and rng.random() < 0.3:
                    v = [round(float(v) * (1.0 + 0.25 * i) + 0.01 * i, 6) for i in range(vec_n)]
                plan.append({"attr": k, "value": v})
        if plan and rng.random() < 0.25:          # the same parameter tuned twice: the LAST value counts
            again = dict(rng.choice(plan))
            if l["cls"] == "RBend" and again["attr"] in RBEND_LIVE:
                again["value"] = like(RBEND_LIVE[again["attr"]], len(again["value"]) if isinstance(again["value"], list) else 0)
            else:
                again["value"] = realgen.gen_element(rng, cls=l["cls"])["kw"].get(again["attr"])
            if again["value"] is not None:
                plan.append(again)
        for rt in plan:
            rt["via"] = rng.choice(["element", "segment"])
        if plan:
            l["retune"] = plan
            total += len(plan)
    return total


def apply_retune(seg, lat):
    """perform the planned assignments on the LIVE objects, through the element or through the by-name handle of the segment
    that contains it.  Returns the list of problems (an exception raised by an assignment is an observation)."""
    errs = []

    def walk(parent, e, spec):
        if spec["cls"] == "Segment":
            for co, cs in zip(e.elements, spec["es"]):
                walk(e, co, cs)
            return
        for rt in spec.get("retune", []):
            try:
                target = e
                if rt["via"] == "segment" and parent is not None:
                    target = getattr(parent, spec["name"])
                    if target is not e:
                        errs.append(f"segment.{spec['name']} is not the element named {spec['name']}")
                        target = e
                setattr(target, rt["attr"], torch.tensor(rt["value"], dtype=torch.float32))
            except Exception as ex:
                errs.append(f"assigning {spec['cls']}.{rt['attr']} raised {type(ex).__name__}: {ex}"[:200])
    walk(None, seg, lat)
    return errs


def is_retuned(lat):
    return any(l.get("retune") for l in leaves(lat))


def skeleton(spec):
    if spec["cls"] == "Segment":
        return f"Sg {coq_string(spec['name'])} {coq_list([skeleton(c) for c in spec['es']])}"
    return f"Lf {coq_string(spec['name'])} {coq_string(spec['cls'])}"


def real_skeleton(e):
    import cheetah
    if isinstance(e, cheetah.Segment):
        return f"Sg {coq_string(e.name)} {coq_list([real_skeleton(c) for c in e.elements])}"
    return f"Lf {coq_string(e.name)} {coq_string(type(e).__name__)}"


# ---------------------------------------------------------------- observation of the real code
class Reject(Exception):
    pass


def strict_loads(text):
    def reject(c):
        raise Reject(c)
    return json.loads(text, parse_constant=reject)


def snapshot(seg):
    """every buffer/parameter (bitwise) and every non-tensor defining feature of every element, plus the structure"""
    import cheetah
    out = []

    def walk(e, path):
        out.append((path, type(e).__name__, e.name))
        for k, v in e.state_dict().items():
            if isinstance(e, cheetah.Segment):
                continue
            out.append((path, k, v.clone(), v.data_ptr()))
        if isinstance(e, cheetah.Segment):
            for i, c in enumerate(e.elements):
                walk(c, path + (i,))
        else:
            for f in e.defining_features:
                v = getattr(e, f)
                if not isinstance(v, torch.Tensor):
                    out.append((path, f, copy.deepcopy(v)))
    walk(seg, ())
    return out


def snapshots_equal(a, b):
    if len(a) != len(b):
        return False
    for x, y in zip(a, b):
        if len(x) != len(y) or x[:2] != y[:2]:
            return False
        if len(x) == 4:
            if not introspect.same_value(x[2], y[2]) or x[3] != y[3]:
                return False
        elif x[2] != y[2]:
            return False
    return True


def loose_equal(a, b):
    """(equal?, type_drift?) : bit equality, except that an int / tuple of ints may come back as an integer tensor"""
    if introspect.same_value(a, b):
        return True, False
    if isinstance(b, torch.Tensor) and not b.dtype.is_floating_point and not isinstance(a, torch.Tensor):
        try:
            if isinstance(a, bool):
                return False, False
            if isinstance(a, int) and b.dim() == 0 and int(b) == a:
                return True, True
            if isinstance(a, (tuple, list)) and list(a) == b.tolist():
                return True, True
        except Exception:
            pass
    return False, False


def public_parameters(e):
    """public tensor buffers and public settable properties (e.g. Dipole.dipole_e1, which RBend inherits) of a live element"""
    names = [k for k, _ in e.named_buffers() if not k.startswith("_") and "." not in k]
    for k in dir(type(e)):
        p = getattr(type(e), k, None)
        if not k.startswith("_") and isinstance(p, property) and p.fset is not None and k not in ("training",):
            try:
                if isinstance(getattr(e, k), torch.Tensor):
                    names.append(k)
            except Exception:
                pass
    return names


def compare_trees(rows, a, b, path=(), buffers=False):
    """structural equality of two real lattices: class, name, nesting, every constructor-settable attribute and
    defining feature (buffers=True: also every public tensor buffer / settable tensor property, e.g. dipole_e1 of an RBend).
    Values are read from the LIVE objects.  Returns (diffs, n_type_drift)."""
    import cheetah
    diffs, drift = [], 0
    if type(a) is not type(b):
        return [{"path": list(path), "kind": "class", "a": type(a).__name__, "b": type(b).__name__}], 0
    if a.name != b.name:
        diffs.append({"path": list(path), "kind": "name", "a": a.name, "b": b.name})
    if isinstance(a, cheetah.Segment):
        if len(a.elements) != len(b.elements):
            diffs.append({"path": list(path), "kind": "structure", "a": len(a.elements), "b": len(b.elements)})
            return diffs, drift
        for i, (x, y) in enumerate(zip(a.elements, b.elements)):
            d, k = compare_trees(rows, x, y, path + (i,), buffers)
            diffs += d
            drift += k
        return diffs, drift
    row = rows.get(type(a).__name__)
    attrs = list(dict.fromkeys((introspect.settable(row) if row else []) + [f for f in a.defining_features if f != "name"]))
    # derived parameters (RBend.dipole_e1 = rbend_e1 + angle/2 ...) may legitimately come back broadcast to the shape of the
    # parameters they are derived from: same dtype and same values after broadcasting
    derived = [p for p in (public_parameters(a) if buffers else []) if p not in attrs]
    for p in derived:
        va, vb = getattr(a, p), getattr(b, p, None)
        try:
            ok = isinstance(vb, torch.Tensor) and va.dtype == vb.dtype and introspect.same_value(*torch.broadcast_tensors(va, vb))
        except Exception:
            ok = False
        if not ok:
            diffs.append({"path": list(path), "kind": "attr", "cls": type(a).__name__, "attr": p,
                          "a": introspect.describe(va), "b": introspect.describe(vb) if vb is not None else "<missing>"})
    for p in attrs:
        if not hasattr(a, p):
            continue
        if not hasattr(b, p):
            diffs.append({"path": list(path), "kind": "attr", "cls": type(a).__name__, "attr": p, "a": introspect.describe(getattr(a, p)), "b": "<missing>"})
            continue
        ok, dr = loose_equal(getattr(a, p), getattr(b, p))
        drift += dr
        if not ok:
            diffs.append({"path": list(path), "kind": "attr", "cls": type(a).__name__, "attr": p,
                          "a": introspect.describe(getattr(a, p)), "b": introspect.describe(getattr(b, p))})
    return diffs, drift


def beams_bit_equal(x, y):
    if type(x) is not type(y):
        return False
    bx, by = dict(x.named_buffers()), dict(y.named_buffers())
    return bx.keys() == by.keys() and all(introspect.same_value(bx[k], by[k]) for k in bx)


def observe(rows, lat, beam, idx):
    """save / strict-parse / load / compare / track one lattice.  Returns the observation dict (JSON-able)."""
    import cheetah
    seg = realgen.build(lat, dtype=torch.float32)
    path = TMP / f"case_{idx}.json"
    obs = {"save_exc": None, "load_exc": None, "strict": None, "layout_ok": None, "saved": None, "loaded_skel": None, "diffs": [],
           "type_drift": 0, "track": None, "pure": None, "elem_keys_ok": None, "retune_problems": []}
    retuned = is_retuned(lat)
    if retuned:
        # construct -> re-tune -> save -> reload: from here on `seg` is the LIVE lattice the file has to reproduce
        obs["retune_problems"] = apply_retune(seg, lat)
    before = snapshot(seg)
    try:
        seg.to_lattice_json(str(path))
    except Exception as ex:
        obs["save_exc"] = type(ex).__name__
        obs["pure"] = snapshots_equal(before, snapshot(seg))
        return obs, seg, None
    obs["pure"] = snapshots_equal(before, snapshot(seg))
    text = path.read_text()
    try:
        doc = strict_loads(text)
        obs["strict"] = True
    except Reject as ex:
        obs["strict"] = str(ex)
        doc = json.loads(text)
    except Exception as ex:
        obs["strict"] = f"{type(ex).__name__}"
        return obs, seg, None
    obs["layout_ok"] = (isinstance(doc, dict) and list(doc.keys()) == TOP_LEVEL and doc["root"] == seg.name and doc["title"] == seg.name
                        and doc["version"] == "cheetah-0.7" and isinstance(doc["info"], str)
                        and isinstance(doc["elements"], dict) and isinstance(doc["lattices"], dict))
    if not obs["layout_ok"]:
        return obs, seg, None
    try:
        obs["saved"] = {"elements": [[n, v[0]] for n, v in doc["elements"].items()], "lattices": [[n, list(c)] for n, c in doc["lattices"].items()]}
        # convert_element: keys are the defining features except name, in that order (the model's save_elem)
        obs["elem_keys_ok"] = all(v[0] in rows and list(v[1].keys()) == [f for f in rows[v[0]]["features"] if f != "name"]
                                  for v in doc["elements"].values())
    except Exception:
        obs["layout_ok"] = False
        return obs, seg, None
    try:
        loaded = cheetah.Segment.from_lattice_json(str(path))
    except Exception as ex:
        obs["load_exc"] = f"{type(ex).__name__}: {ex}"[:200]
        return obs, seg, None
    obs["loaded_skel"] = real_skeleton(loaded)
    obs["diffs"], obs["type_drift"] = compare_trees(rows, seg, loaded, buffers=retuned)
    if not snapshots_equal(before, snapshot(seg)):     # neither saving nor loading touches the original
        obs["pure"] = False
    structural = [d for d in obs["diffs"] if d["kind"] != "attr"]
    if not structural:
        try:
            b = realgen.build_beam(beam, dtype=torch.float32)
            ref = seg.track(b)
        except Exception:
            obs["track"] = "original-raises"
        else:
            try:
                out = loaded.track(realgen.build_beam(beam, dtype=torch.float32))
                obs["track"] = "equal" if beams_bit_equal(ref, out) else "differs"
            except Exception as ex:
                obs["track"] = f"loaded-raises {type(ex).__name__}"
    return obs, seg, loaded


def coq_case(lat, obs, unloadable=()):
    if obs["saved"] is None:
        saved = "None"
    else:
        E = coq_list([f"({coq_string(n)}, {coq_string(c)})" for n, c in obs["saved"]["elements"]])
        LL = coq_list([f"({coq_string(n)}, {coq_list([coq_string(x) for x in c])})" for n, c in obs["saved"]["lattices"]])
        saved = f"(Some ({E}, {LL}))"
    loaded = "None" if obs["loaded_skel"] is None else f"(Some ({obs['loaded_skel']}))"
    return f"mkc14 ({skeleton(lat)}) {saved} {loaded} {coq_list([coq_string(c) for c in unloadable])}"


# ---------------------------------------------------------------- classification
def classify(lat, obs):
    """Returns (list of known-finding tags, list of unexplained problems) for one observation."""
    known, bad = [], []
    nested = has_nested(lat)
    for pr in obs.get("retune_problems") or []:
        bad.append("re-tuning after construction: " + pr)
    if obs["pure"] is False:
        bad.append("saving altered the segment")
    if obs["save_exc"]:
        if nested and obs["save_exc"] == "UnboundLocalError":
            known.append("F11")
        else:
            bad.append(f"to_lattice_json raised {obs['save_exc']}")
        return known, bad
    if obs["strict"] is not True:
        if obs["strict"] in ("Infinity",) and aperture_inf(lat):
            known.append("F13")
        else:
            bad.append(f"file is not strict JSON: {obs['strict']}")
    if obs["layout_ok"] is False:
        bad.append("top-level layout of the file is not version,title,info,root,elements,lattices")
        return known, bad
    if obs["elem_keys_ok"] is False:
        bad.append("element parameter keys are not the defining features")
    if obs["load_exc"]:
        if has_cls(lat, "SpaceChargeKick") and "TypeError" in obs["load_exc"] and "grid_shape" in obs["load_exc"]:
            known.append("F12-SpaceChargeKick")
        else:
            bad.append(f"from_lattice_json raised {obs['load_exc']}")
        return known, bad
    structural = [d for d in obs["diffs"] if d["kind"] != "attr"]
    if structural:
        if nested:
            known.append("F11")
        else:
            bad.append(f"loaded lattice differs structurally: {structural[0]}")
        return known, bad
    lost = [d for d in obs["diffs"] if d["kind"] == "attr"]
    f12 = [d for d in lost if (d["cls"], d["attr"]) in F12_ATTRS]
    other = [d for d in lost if (d["cls"], d["attr"]) not in F12_ATTRS]
    if f12:
        known.append("F12-" + "+".join(sorted({d["cls"] for d in f12})))
    if other:
        bad.append(f"attribute not reproduced: {other[0]}")
    if obs["track"] == "differs" or (obs["track"] or "").startswith("loaded-raises"):
        if f12:
            pass                                  # consequence of the lost attribute
        else:
            bad.append(f"loaded lattice tracks differently ({obs['track']})")
    return known, bad


KNOWN_TEXT = {
    "F11": "convert_segment writes the previous element's name for a sub-segment child (first child: UnboundLocalError; later child: "
           "sub-segment lost, previous element duplicated) [F11]",
    "F13": "default Aperture (x_max/y_max = inf) is written as `Infinity`, which is not valid JSON [F13]",
    "F12-SpaceChargeKick": "SpaceChargeKick lists grid_shape in defining_features, which is not a constructor parameter: loading raises TypeError [F12]",
    "F12-Quadrupole": "Quadrupole.defining_features lacks num_steps and tracking_method: a saved Bmad-X / multi-step quadrupole loads as a default one [F12]",
    "F12-Screen": "Screen.defining_features lacks is_blocking: lost by save/load [F12]",
    "F12-Undulator": "Undulator.defining_features lacks is_active: lost by save/load [F12]",
}


def report_known(run, tags, replay=None):
    for t in tags:
        if t.startswith("F12-") and t not in KNOWN_TEXT:
            for c in t[4:].split("+"):
                run.known(KNOWN_TEXT["F12-" + c], replay=replay)
        else:
            run.known(KNOWN_TEXT[t], replay=replay)


# ---------------------------------------------------------------- stages
def class_table_stage(run, cheetah):
    rows = introspect.table(cheetah)
    res = introspect.run_obligation(PID, rows)
    run.cov["obligations"] += 1
    run.cov["class_table"] = {"classes": [r["cname"] for r in rows], "rejected": res["rejected"], "offenders_present": res["offenders_present"],
                              "offenders_gone": res["offenders_gone"], "pinned_rows_changed": res["pinned_differ"]}
    if res["ok"]:
        run.cov["discharged"] += 1
    if res["offenders_gone"]:
        run.cov["known_findings_not_reproduced"] += [f"F12:{c}" for c in res["offenders_gone"]]
    return rows, res


def json_roundtrip(e):
    import cheetah
    p = TMP / "search.json"
    cheetah.Segment([e], name="search_root").to_lattice_json(str(p))
    return cheetah.Segment.from_lattice_json(str(p)).elements[0]


def shrink(rows, lat, beam, still_bad):
    """drop children while the same problem persists"""
    changed = True
    while changed:
        changed = False

        def paths(e, p=()):
            if e["cls"] == "Segment":
                for i, c in enumerate(e["es"]):
                    yield p + (i,)
                    yield from paths(c, p + (i,))
        for p in list(paths(lat)):
            t2 = copy.deepcopy(lat)
            node = t2
            for i in p[:-1]:
                node = node["es"][i]
            if p[-1] >= len(node["es"]) or len(t2["es"]) == 0:
                continue
            del node["es"][p[-1]]
            if not t2["es"]:
                continue
            try:
                if still_bad(t2):
                    lat = t2
                    changed = True
                    break
            except Exception:
                pass
        if changed:
            continue
        # drop single re-tuning assignments
        n_leaves = len(list(leaves(lat)))
        for li in range(n_leaves):
            for ri in range(len(list(leaves(lat))[li].get("retune", []))):
                t2 = copy.deepcopy(lat)
                l2 = list(leaves(t2))[li]
                if len(l2["retune"]) == 1 and sum(len(x.get("retune", [])) for x in leaves(t2)) == 1:
                    continue                 # keep the case a re-tuned one (same comparison)
                del l2["retune"][ri]
                try:
                    if still_bad(t2):
                        lat = t2
                        changed = True
                        break
                except Exception:
                    pass
            if changed:
                break
    return lat


def replay_known(run, rows):
    for f in common.load_known_findings(PID):
        if f.get("status") != "known":
            continue
        r = f["replay"]
        try:
            obs, _, _ = observe(rows, r["lattice"], r["beam"], "known_" + f["id"])
            known, bad = classify(r["lattice"], obs)
        except Exception as ex:
            known, bad = [], [f"replay crashed: {ex}"]
        want = f["signature"]["tag"]
        if any(k == want or (k.startswith("F12-") and want.startswith("F12-") and want[4:] in k[4:].split("+")) for k in known):
            run.known(f["what"])
        else:
            run.cov["known_findings_not_reproduced"].append(f["id"] + ":" + want)


def main(tier, replay=None):
    warnings.filterwarnings("ignore")
    run = common.Run(PID, tier)
    cheetah = common.setup_python_env()
    thorough = tier == "thorough"
    shutil.rmtree(TMP, ignore_errors=True)
    TMP.mkdir(parents=True, exist_ok=True)
    run.cov["rule"] = ("random lattices of real elements (every class of harness/realgen.py, non-default attribute values, float32, 40% with "
                       "vectorised parameters, unique names; half flat, half with sub-segments at random positions, depth<=3) saved with "
                       "to_lattice_json: json.loads structure vs vm_compute of the Coq model (faithful and repaired converter), strict JSON, "
                       "top-level layout, from_lattice_json vs the original (class, name, nesting, every constructor parameter and defining "
                       "feature bit-equal), bit-equal tracking of a random beam, segment unchanged by saving; class table regenerated from the "
                       "live code and checked by Coq.  A further quarter of the cases is RE-TUNED after construction (new values assigned to the "
                       "tensor parameters of every class through the element and through segment.<name>, incl. RBend angle / dipole_e1/2 / "
                       "rbend_e1/2 with dyadic values, some twice) before saving: the loaded lattice must equal the LIVE one (every parameter "
                       "and public buffer read back from the live objects, bit-equal tracking).  Non-trivial = >=2 leaves; distinct by full "
                       "lattice content.")
    if replay:
        return do_replay(run, replay)
    proof_ok = run.proof_stage()
    if not proof_ok:
        run.notes.append(run.proof_problem)
    rows_l, tab = class_table_stage(run, cheetah)
    rows = {r["cname"]: r for r in rows_l}

    n = 3000 if thorough else 200
    unloadable = sorted(r["cname"] for r in rows_l if introspect.extra(r))      # constructor rejects a saved keyword
    cases, terms, problems = [], [], []
    n_rt = 600 if thorough else 48             # construct -> re-tune (assign parameters) -> save -> reload
    for i in range(n + n_rt):
        nested = i % 2 == 1
        lat, vec = gen_case(run.rng, nested, retune=i >= n)
        beam = realgen.gen_particle_beam(run.rng)
        obs, _, _ = observe(rows, lat, beam, i)
        known, bad = classify(lat, obs)
        nl = len(list(leaves(lat)))
        run.add_case(["lat", lat], nl >= 2)
        run.count("nested" if has_nested(lat) else "flat")
        run.count("vectorised" if vec else "scalar")
        run.count("retuned_after_construction" if is_retuned(lat) else "as_constructed")
        for l in leaves(lat):
            run.count("cls_" + l["cls"])
            for rt in l.get("retune", []):
                run.count("retune_" + l["cls"] + ("." + rt["attr"] if l["cls"] == "RBend" else ""))
                run.count("retune_via_" + rt["via"])
        run.count("track_" + str(obs["track"]))
        if obs["type_drift"]:
            run.count("loaded_int_or_tuple_parameter_came_back_as_tensor", obs["type_drift"])
        if not known and not bad:
            run.count("clean_roundtrip")
        for k in known:
            run.count("known_" + k)
        report_known(run, known, replay={"kind": "lattice", "lattice": lat, "beam": beam})
        if bad:
            problems.append((i, bad))
        cases.append((lat, beam, obs))
        terms.append(coq_case(lat, obs, unloadable))
    run.sample({"lattice": cases[0][0], "observed": {k: v for k, v in cases[0][2].items() if k != "loaded_skel"}})
    if len(cases) > 1:
        run.sample({"lattice": cases[1][0], "observed": {k: v for k, v in cases[1][2].items() if k != "loaded_skel"}})

    # exact structural correspondence with the Coq model.  Which converter model is the faithful one depends on whether finding
    # F11 (stale element name for a sub-segment child) is still listed as known: since fix 3611d94 in /repo the code IS the
    # repaired converter [conv]; [conv_buggy] is kept as the model of the code before that fix (the _refuted theorems are about it).
    f11_known = any(f["id"] == "F11" and f.get("status") == "known" for f in common.load_known_findings(PID))
    primary, other = ("c14_check_faithful", "c14_check_repaired") if f11_known else ("c14_check_repaired", "c14_check_faithful")
    failing = common.run_shards(PID, "struct", PREAMBLE, terms, primary)
    model_note = None
    if failing and f11_known:
        failing_rep = common.run_shards(PID, "struct_rep", PREAMBLE, terms, other)
        if not failing_rep:
            model_note = "the code now behaves like the REPAIRED converter on every case (finding F11 no longer reproduces); faithful model is stale"
            run.notes.append(model_note)
            run.cov["known_findings_not_reproduced"].append("F11")
            failing = []
    run.cov["converter_model"] = "conv (repaired; code after fix 3611d94)" if not f11_known else "conv_buggy (code before the fix)"
    run.cov["traces_validated_against_impl"] += len(cases)
    replay_known(run, rows)
    run.cov["tested_only"] = ["JSON text layer (json.dumps / CompactJSONEncoder / json.load) and float <-> text conversion: exercised, not modelled",
                              "bit-equal tracking of original vs loaded lattice (follows from attribute equality in the model; tested on random beams)",
                              "re-tuned lattices (parameters assigned after construction): the file reproduces the live values (the model saves the element's "
                              "current attributes by construction; that every defining feature reads live state is tested, not modelled)",
                              "segment buffers unchanged by saving (by construction in the model; tested on every case)",
                              "an int / tuple parameter comes back as an integer tensor (binning, num_steps, resolution): accepted as equal value, counted"]

    # ---- verdict
    if problems:
        i, bad = problems[0]
        lat, beam, obs = cases[i]

        def still_bad(t):
            o, _, _ = observe(rows, t, beam, "shrink")
            return bool(classify(t, o)[1])
        lat = shrink(rows, lat, beam, still_bad)
        o, _, _ = observe(rows, lat, beam, "shrunk")
        run.violation({"kind": "lattice", "lattice": lat, "beam": beam, "problems": classify(lat, o)[1], "observed": o,
                       "relation": "from_lattice_json(to_lattice_json(s)) == s (structure, names, classes, parameters, tracking); valid JSON; s unchanged"})
    elif not tab["ok"]:
        found = None
        for name in (tab["rejected"] or []):
            if name in rows:
                found = introspect.find_lost_attribute(cheetah, rows[name], json_roundtrip)
                if found:
                    break
        if found:
            run.violation({"kind": "class", "element": found, "broken": tab["log"][:300],
                           "relation": "a constructor parameter given a non-default value survives save/load (class_ok obligation)"})
        else:
            run.violation({"kind": "class_table", "broken": tab["log"] or "table_ok class_table = true not provable", "rejected": tab["rejected"]}, no_input=True)
    elif failing:
        i = failing[0]
        lat, beam, obs = cases[i]
        run.violation({"kind": "correspondence", "broken": "Coq model Ops/Json.v (c14_check_faithful) disagrees with latticejson on this lattice",
                       "lattice": lat, "beam": beam, "observed": obs}, no_input=True)
    elif not proof_ok:
        run.violation({"kind": "proof", "broken": run.proof_problem}, no_input=True)
    return run.finish("proof")


def do_replay(run, path):
    cheetah = common.setup_python_env()
    r = json.loads(open(path).read())
    rows = {x["cname"]: x for x in introspect.table(cheetah)}
    TMP.mkdir(parents=True, exist_ok=True)
    if r.get("kind") == "class":
        el = r["element"]
        cls = getattr(cheetah, el["cls"])
        e = cls(**introspect.kwargs_from_description(el["kwargs"]))
        try:
            c = json_roundtrip(e)
            ok = all(introspect.same_value(getattr(e, q), getattr(c, q)) for q in introspect.settable(rows[el["cls"]]) if hasattr(e, q))
        except Exception as ex:
            print("replay: save/load raised", type(ex).__name__, ex)
            ok = False
        print("replay:", "property holds on this input" if ok else "property FAILS on this input")
        return 0 if ok else 1
    if "lattice" not in r:
        print("replay: nothing to replay (no failing input was recorded):", r.get("broken"))
        return 1
    obs, _, _ = observe(rows, r["lattice"], r["beam"], "replay")
    known, bad = classify(r["lattice"], obs)
    print("replay:", "property holds on this input" if not bad and not known else f"property FAILS on this input: {bad or known}")
    print(json.dumps(obs, default=str)[:2000])
    return 1 if (bad or known) else 0
