"""C14 -- Saving a lattice to LatticeJSON and loading it back reproduces the lattice."""
import copy
import json
import math
import shutil
import warnings

import torch

import common
import introspect
import realgen
from common import coq_list, coq_string

PID = "C14"
PREAMBLE = """From Coq Require Import List Bool String NArith.
From Cheetah Require Import Ops.Json Ops.JsonKeys.
Import ListNotations. Open Scope string_scope."""
TOP_LEVEL = ["version", "title", "info", "root", "elements", "lattices"]
F12_ATTRS = {("Quadrupole", "num_steps"), ("Quadrupole", "tracking_method"), ("Screen", "is_blocking"), ("Undulator", "is_active")}
VECTORISABLE = {"length", "k1", "angle", "tilt", "k", "voltage", "phase", "dipole_e1", "dipole_e2", "rbend_e1", "rbend_e2"}
TMP = common.BUILD / PID / "json"


# ---------------------------------------------------------------- names
def name_bytes(s):
    """UTF-8 bytes of a name (a lone surrogate, which Python accepts in a str, has none: None)"""
    try:
        return list(s.encode("utf-8"))
    except UnicodeEncodeError:
        return None


def sb(s):
    b = name_bytes(s)
    return "(sb [" + "; ".join(map(str, b)) + "]%N)"


def cs(s):
    """Coq term for a name: a literal for plain printable ASCII, else the byte list (Ops/JsonKeys.sb)"""
    if all(32 <= ord(c) < 127 for c in s):
        return coq_string(s)
    if name_bytes(s) is None:
        return coq_string("<lone surrogate " + "-".join(f"{ord(c):x}" for c in s) + ">")
    return sb(s)


# The hostile alphabet.  An element / segment name is ANY Python str: cheetah neither rejects nor sanitises names (Element.__init__
# stores the argument as it is).  Every name reaches the file as a dictionary KEY through the hand-written line of
# CompactJSONEncoder.encode and as a VALUE (cell lists, "root") through json.dumps.
HOSTILE_CHARS = ['"', "\\", "/", "\t", "\n", "\r", "\x00", "\x01", "\x1f", "\x7f", "\x08", "\x0c", " ", "'", ":", ",", "{", "}", "[", "]",
                 "\u00e9", "e\u0301", "\u00df", "\u03a9", "\u78c1", "\u200b", "\u2028", "\ufeff", "\U0001f600", "\U0001d54f",
                 "a", "B", "1", "_", "-", ".", "u", "t", "n", "0", "x", "Q"]
HOSTILE_FIXED = ["", " ", "  ", " lead", "trail ", "null", "true", "false", "NaN", "Infinity", "-Infinity", "None", "0", "-1", "1e5", "[]", "{}",
                 '{"a": 1}', '"', '""', "\\", "\\\\", '\\"', "BPM\\t1", 'Q1 (2" bore)', 'arc "A"', "\\u0041", "A", "\\n", "\n", "a\\", "a\\\\b",
                 "elements", "lattices", "root", "version", "title", "info", "cheetah-0.7", "cell", "Unnamed Lattice", "Drift", "length",
                 "x" * 3000, "\u00e9" * 700, '"' * 50, "\\" * 51, "Q1", "q1", "Q1 ", "\u00e9", "e\u0301", "\ud800"]
# child names that collide with an attribute or a method of Segment itself (finding F81): generated in a small dedicated group only
COLLIDING = ["name", "elements", "_modules", "to_lattice_json", "training", "track", "transfer_map", "split", "forward", "_buffers", "length"]


def collision_names():
    """names under which Segment.__init__'s `self.__dict__[element.name] = element` shadows or clobbers something of the segment
    itself, computed on the LIVE class: instance attributes, registered modules / buffers / parameters, and every class attribute
    that is not a data descriptor (methods, plain attributes)."""
    import inspect
    import cheetah
    probe = cheetah.Segment([cheetah.Marker(name="m__probe")], name="s__probe")
    out = (set(vars(probe)) - {"m__probe"}) | set(probe._modules) | set(probe._buffers) | set(probe._parameters)
    for n in dir(type(probe)):
        if not hasattr(type(inspect.getattr_static(type(probe), n)), "__set__"):
            out.add(n)
    return out


_COLLISION = []


def collides(spec, root=True):
    """some child (not the root) carries a name that collides with an attribute / method of the Segment holding it"""
    if not _COLLISION:
        _COLLISION.append(collision_names())
    if not root and spec["name"] in _COLLISION[0]:
        return True
    return any(collides(c, False) for c in spec.get("es", []))


def twin(rng, n):
    """a name that differs from n only by case, by an escape, by a space or by Unicode normalisation"""
    import unicodedata
    cands = [n.upper(), n.lower(), n.swapcase(), n + " ", " " + n, n.replace("\t", "\\t"), n.replace("\\t", "\t"), n.replace("\n", "\\n"),
             n.replace('"', '\\"'), n.replace("\\", "\\\\"), n.replace("\\\\", "\\"), n.replace("A", "\\u0041"), n.replace("\\u0041", "A"),
             unicodedata.normalize("NFD", n), unicodedata.normalize("NFC", n), n + "\x00", n + "\u200b", n.replace("/", "\\/")]
    cands = [c for c in cands if c != n]
    return rng.choice(cands) if cands else n + "'"


DEGENERATE = ["", " ", "0", "null", "false", "None", "[]", "\x00"]      # empty / falsy-looking / blank names


def hostile_name(rng, used):
    kind = rng.random()
    if kind < 0.08:
        return rng.choice(DEGENERATE)
    if kind < 0.45:
        return rng.choice(HOSTILE_FIXED)
    if kind < 0.65 and used:
        return twin(rng, rng.choice(sorted(used)))
    return "".join(rng.choice(HOSTILE_CHARS) for _ in range(rng.choice([1, 1, 2, 3, 5, 8])))


def nodes(spec):
    yield spec
    for c in spec.get("es", []):
        yield from nodes(c)


def hostile_rename(rng, lat, p=0.6, colliding=False, force=None):
    """give the root, sub-segments and elements names from the hostile alphabet, keeping all names distinct (as exact strings)."""
    used = {n["name"] for n in nodes(lat)}
    for i, node in enumerate(nodes(lat)):
        if rng.random() >= p:
            continue
        for _ in range(20):
            cand = hostile_name(rng, used)
            if cand in used or (i > 0 and cand in (_COLLISION[0] if _COLLISION else collision_names())):
                continue
            used.discard(node["name"])
            used.add(cand)
            node["name"] = cand
            break
    if force is not None:
        # every few hostile cases a degenerate name is PLACED: on the root, on a sub-segment, on an element, in turn
        ns = list(nodes(lat))
        pool = [[ns[0]], [x for x in ns[1:] if x["cls"] == "Segment"] or ns[1:], [x for x in ns[1:] if x["cls"] != "Segment"]][force % 3]
        cand = DEGENERATE[(force // 3) % len(DEGENERATE)]
        if pool and cand not in used:
            tgt = rng.choice(pool)
            used.discard(tgt["name"])
            used.add(cand)
            tgt["name"] = cand
    if colliding:
        kids = [n for i, n in enumerate(nodes(lat)) if i > 0]
        cand = rng.choice(COLLIDING)
        if kids and cand not in used:
            rng.choice(kids)["name"] = cand
    if rng.random() < 0.5:
        lat["title"] = hostile_name(rng, used)
    if rng.random() < 0.5:
        lat["info"] = hostile_name(rng, used)
    return lat


def is_hostile(lat):
    return any(not (n["name"].isascii() and n["name"].replace("_", "a").isalnum()) or len(n["name"]) > 100 for n in nodes(lat)) \
        or "title" in lat or "info" in lat


def expected_keys(lat):
    """keys of the "elements" / "lattices" tables in file order, for a uniquely named lattice: elements in depth-first order,
    segments in post-order (a sub-segment's tables are merged in when it is met, the segment itself is entered last)"""
    E, LL = [], []

    def walk(s):
        for c in s["es"]:
            if c["cls"] == "Segment":
                walk(c)
            else:
                E.append(c["name"])
        LL.append(s["name"])
    walk(lat)
    return E, LL


def raw_keys(text):
    """[(depth, token text incl. quotes)] of every string token that is followed by a colon, by a scan of the file text that knows
    only quotes, backslashes and brackets (independent of any JSON library)"""
    out, depth, i, n = [], 0, 0, len(text)
    while i < n:
        ch = text[i]
        if ch == '"':
            j = i + 1
            while j < n and text[j] != '"':
                j += 2 if text[j] == "\\" else 1
            k = j + 1
            while k < n and text[k] in " \t\r\n":
                k += 1
            if k < n and text[k] == ":":
                out.append((depth, text[i:j + 1]))
            i = j + 1
        else:
            depth += (ch in "{[") - (ch in "}]")
            i += 1
    return out


# ---------------------------------------------------------------- lattice specs
def leaves(spec):
    if spec["cls"] == "Segment":
        for c in spec["es"]:
            yield from leaves(c)
    else:
        yield spec


def has_nested(spec):
    """some segment of the lattice has a sub-segment child (the region of finding F11)"""
    return spec["cls"] == "Segment" and any(c["cls"] == "Segment" for c in spec["es"])


def has_cls(spec, cls):
    return any(l["cls"] == cls for l in leaves(spec))


def aperture_inf(spec):
    def inf(v):
        return any(inf(x) for x in v) if isinstance(v, list) else (isinstance(v, float) and math.isinf(v))
    return any(l["cls"] == "Aperture" and any(inf(final_value(l, k)) for k in ("x_max", "y_max")) for l in leaves(spec))


def vectorise(rng, spec, n):
    """give some scalar tensor parameters a leading vector dimension of size n (same n for the whole lattice)"""
    for l in leaves(spec):
        for k, v in list(l["kw"].items()):
            if k in VECTORISABLE and isinstance(v, (int, float)) and not isinstance(v, bool) and rng.random() < 0.3:
                l["kw"][k] = [round(float(v) * (1.0 + 0.25 * i) + 0.01 * i, 6) for i in range(n)]
            elif k == "misalignment" and isinstance(v, list) and len(v) == 2 and all(isinstance(x, (int, float)) for x in v) and rng.random() < 0.3:
                # a vectorised (n, 2) parameter: written as a NESTED list
                l["kw"][k] = [[round(float(v[0]) + 1e-4 * i, 6), round(float(v[1]) - 2e-4 * i, 6)] for i in range(n)]
                l["nested_list"] = True


def uniquify(spec, seen=None):
    """the property quantifies over uniquely named lattices: rename any repeated name"""
    seen = set() if seen is None else seen
    n, k = spec.get("name") or "unnamed", 0
    while n in seen:
        k += 1
        n = f"{spec.get('name')}_{k}"
    spec["name"] = n
    seen.add(n)
    for c in spec.get("es", []):
        uniquify(c, seen)
    return spec


def gen_case(rng, nested, allow=None, retune=False):
    lat = realgen.gen_lattice(rng, n_max=5, depth=(rng.choice([1, 2, 3]) if nested else 0), allow=allow)
    if nested and not has_nested(lat):
        # force one sub-segment at a random position
        sub = realgen.gen_lattice(rng, 2, 0, allow, counter=[1000])
        sub["name"] = "forced_sub"
        for i, c in enumerate(sub["es"]):
            c["name"] = f"fs{i}"
        lat["es"].insert(rng.randrange(0, len(lat["es"]) + 1), sub)
    uniquify(lat)
    for l in leaves(lat):
        # sibling parameters of one kind carry pairwise DISTINCT values (a non-cubic space-charge grid, unequal grid extents)
        if l["cls"] == "SpaceChargeKick" and rng.random() < 0.75:
            gx, gy, gt = rng.sample(range(4, 11), 3)
            ex, ey, et = rng.sample([2.0, 2.5, 3.0, 3.5, 4.0], 3)
            l["kw"].update(num_grid_points_x=gx, num_grid_points_y=gy, num_grid_points_tau=gt, grid_extend_x=ex, grid_extend_y=ey, grid_extend_tau=et)
    vec = rng.random() < 0.4
    vec_n = rng.choice([2, 3]) if vec else 0
    if vec:
        vectorise(rng, lat, vec_n)
    if retune:
        gen_retune(rng, lat, vec_n)
    return lat, vec


# re-tuning after construction.  RBend stores dipole_e = rbend_e + angle/2 and reports rbend_e = dipole_e - angle/2: to keep that
# round trip free of float32 rounding (the property is about save/load, not about that subtraction) every angle / pole-face
# angle of a re-tuned RBend is a small dyadic number.
DYADIC_ANGLE = [0.0, 0.015625, -0.03125, 0.125, -0.25, 0.25, 0.5]
DYADIC_E = [0.0, 0.0625, -0.125, 0.25, 0.75]
RBEND_LIVE = {"angle": DYADIC_ANGLE, "dipole_e1": DYADIC_E, "dipole_e2": DYADIC_E, "rbend_e1": DYADIC_E, "rbend_e2": DYADIC_E}


def final_value(l, k):
    """value of parameter k of leaf l at the time of saving (last re-tune, else the constructor argument)"""
    for rt in reversed(l.get("retune", [])):
        if rt["attr"] == k:
            return rt["value"]
    return l["kw"].get(k)


def gen_retune(rng, lat, vec_n):
    """plan assignments of new values to tensor parameters of the built elements (as done when optimising magnet settings):
    leaf["retune"] = [{"attr", "value", "via": "element" | "segment"}], applied in order after construction."""
    def like(pool, n):
        return [rng.choice(pool) for _ in range(n)] if n else rng.choice(pool)
    if not has_cls(lat, "RBend") and rng.random() < 0.5:
        e = realgen.gen_element(rng, cls="RBend", name="rb_forced")
        lat["es"].insert(rng.randrange(0, len(lat["es"]) + 1), e)
        uniquify(lat)
    total = 0
    for l in leaves(lat):
        plan, kw = [], l["kw"]
        fresh = realgen.gen_element(rng, cls=l["cls"])["kw"]
        if l["cls"] == "RBend":
            for k, pool in (("angle", DYADIC_ANGLE), ("rbend_e1", DYADIC_E), ("rbend_e2", DYADIC_E)):
                kw[k] = like(pool, len(kw[k]) if isinstance(kw.get(k), list) else 0)
            live = [k for k in RBEND_LIVE if rng.random() < 0.5] or ["angle"]
            rng.shuffle(live)
            for k in live:
                plan.append({"attr": k, "value": like(RBEND_LIVE[k], vec_n if (vec_n and rng.random() < 0.3) else 0)})
        for k in kw:
            if k not in realgen.TENSOR_KW or k in RBEND_LIVE and l["cls"] == "RBend" or fresh.get(k) is None or kw[k] is None:
                continue
            if rng.random() < 0.5:
                v = fresh[k]
                if vec_n and k in VECTORISABLE and isinstance(v, (int, float)) and rng.random() < 0.3:
                    v = [round(float(v) * (1.0 + 0.25 * i) + 0.01 * i, 6) for i in range(vec_n)]
                plan.append({"attr": k, "value": v})
        if plan and rng.random() < 0.25:          # the same parameter tuned twice: the LAST value counts
            again = dict(rng.choice(plan))
            if l["cls"] == "RBend" and again["attr"] in RBEND_LIVE:
                again["value"] = like(RBEND_LIVE[again["attr"]], len(again["value"]) if isinstance(again["value"], list) else 0)
            else:
                again["value"] = realgen.gen_element(rng, cls=l["cls"])["kw"].get(again["attr"])
            if again["value"] is not None:
                plan.append(again)
        for rt in plan:
            rt["via"] = rng.choice(["element", "segment"])
        if plan:
            l["retune"] = plan
            total += len(plan)
    return total


def apply_retune(seg, lat):
    """perform the planned assignments on the LIVE objects, through the element or through the by-name handle of the segment
    that contains it.  Returns the list of problems (an exception raised by an assignment is an observation)."""
    errs = []

    def walk(parent, e, spec):
        if spec["cls"] == "Segment":
            for co, cs in zip(e.elements, spec["es"]):
                walk(e, co, cs)
            return
        for rt in spec.get("retune", []):
            try:
                target = e
                if rt["via"] == "segment" and parent is not None:
                    target = getattr(parent, spec["name"])
                    if target is not e:
                        errs.append(f"segment.{spec['name']} is not the element named {spec['name']}")
                        target = e
                setattr(target, rt["attr"], torch.tensor(rt["value"], dtype=torch.float32))
            except Exception as ex:
                errs.append(f"assigning {spec['cls']}.{rt['attr']} raised {type(ex).__name__}: {ex}"[:200])
    walk(None, seg, lat)
    return errs


def is_retuned(lat):
    return any(l.get("retune") for l in leaves(lat))


def skeleton(spec):
    if spec["cls"] == "Segment":
        return f"Sg {cs(spec['name'])} {coq_list([skeleton(c) for c in spec['es']])}"
    return f"Lf {cs(spec['name'])} {coq_string(spec['cls'])}"


def real_skeleton(e):
    import cheetah
    if isinstance(e, cheetah.Segment):
        return f"Sg {cs(e.name)} {coq_list([real_skeleton(c) for c in e.elements])}"
    return f"Lf {cs(e.name)} {coq_string(type(e).__name__)}"


# ---------------------------------------------------------------- observation of the real code
class Reject(Exception):
    pass


def strict_loads(text):
    def reject(c):
        raise Reject(c)

    def pairs(kv):
        d = dict(kv)
        if len(d) != len(kv):
            raise Reject("duplicate key " + repr([k for k, _ in kv if sum(1 for q, _ in kv if q == k) > 1][0])[:80])
        return d
    return json.loads(text, parse_constant=reject, object_pairs_hook=pairs)


def snapshot(seg):
    """every buffer/parameter (bitwise) and every non-tensor defining feature of every element, plus the structure"""
    import cheetah
    out = []

    def walk(e, path):
        out.append((path, type(e).__name__, e.name))
        for k, v in e.state_dict().items():
            if isinstance(e, cheetah.Segment):
                continue
            out.append((path, k, v.clone(), v.data_ptr()))
        if isinstance(e, cheetah.Segment):
            for i, c in enumerate(e.elements):
                walk(c, path + (i,))
        else:
            for f in e.defining_features:
                v = getattr(e, f)
                if not isinstance(v, torch.Tensor):
                    out.append((path, f, copy.deepcopy(v)))
    walk(seg, ())
    return out


def snapshots_equal(a, b):
    if len(a) != len(b):
        return False
    for x, y in zip(a, b):
        if len(x) != len(y) or x[:2] != y[:2]:
            return False
        if len(x) == 4:
            if not introspect.same_value(x[2], y[2]) or x[3] != y[3]:
                return False
        elif x[2] != y[2]:
            return False
    return True


def loose_equal(a, b):
    """(equal?, type_drift?) : bit equality, except that an int / tuple of ints may come back as an integer tensor"""
    if introspect.same_value(a, b):
        return True, False
    if isinstance(b, torch.Tensor) and not b.dtype.is_floating_point and not isinstance(a, torch.Tensor):
        try:
            if isinstance(a, bool):
                return False, False
            if isinstance(a, int) and b.dim() == 0 and int(b) == a:
                return True, True
            if isinstance(a, (tuple, list)) and list(a) == b.tolist():
                return True, True
        except Exception:
            pass
    return False, False


def public_parameters(e):
    """public tensor buffers and public settable properties (e.g. Dipole.dipole_e1, which RBend inherits) of a live element"""
    names = [k for k, _ in e.named_buffers() if not k.startswith("_") and "." not in k]
    for k in dir(type(e)):
        p = getattr(type(e), k, None)
        if not k.startswith("_") and isinstance(p, property) and p.fset is not None and k not in ("training",):
            try:
                if isinstance(getattr(e, k), torch.Tensor):
                    names.append(k)
            except Exception:
                pass
    return names


def compare_trees(rows, a, b, path=(), buffers=False):
    """structural equality of two real lattices: class, name, nesting, every constructor-settable attribute and
    defining feature (buffers=True: also every public tensor buffer / settable tensor property, e.g. dipole_e1 of an RBend).
    Values are read from the LIVE objects.  Returns (diffs, n_type_drift)."""
    import cheetah
    diffs, drift = [], 0
    if type(a) is not type(b):
        return [{"path": list(path), "kind": "class", "a": type(a).__name__, "b": type(b).__name__}], 0
    if a.name != b.name:
        diffs.append({"path": list(path), "kind": "name", "a": a.name, "b": b.name})
    if isinstance(a, cheetah.Segment):
        if len(a.elements) != len(b.elements):
            diffs.append({"path": list(path), "kind": "structure", "a": len(a.elements), "b": len(b.elements)})
            return diffs, drift
        for i, (x, y) in enumerate(zip(a.elements, b.elements)):
            d, k = compare_trees(rows, x, y, path + (i,), buffers)
            diffs += d
            drift += k
        return diffs, drift
    row = rows.get(type(a).__name__)
    attrs = list(dict.fromkeys((introspect.settable(row) if row else []) + [f for f in a.defining_features if f != "name"]))
    # derived parameters (RBend.dipole_e1 = rbend_e1 + angle/2 ...) may legitimately come back broadcast to the shape of the
    # parameters they are derived from: same dtype and same values after broadcasting
    derived = [p for p in (public_parameters(a) if buffers else []) if p not in attrs]
    for p in derived:
        va, vb = getattr(a, p), getattr(b, p, None)
        try:
            ok = isinstance(vb, torch.Tensor) and va.dtype == vb.dtype and introspect.same_value(*torch.broadcast_tensors(va, vb))
        except Exception:
            ok = False
        if not ok:
            diffs.append({"path": list(path), "kind": "attr", "cls": type(a).__name__, "attr": p,
                          "a": introspect.describe(va), "b": introspect.describe(vb) if vb is not None else "<missing>"})
    for p in attrs:
        if not hasattr(a, p):
            continue
        if not hasattr(b, p):
            diffs.append({"path": list(path), "kind": "attr", "cls": type(a).__name__, "attr": p, "a": introspect.describe(getattr(a, p)), "b": "<missing>"})
            continue
        ok, dr = loose_equal(getattr(a, p), getattr(b, p))
        drift += dr
        if not ok:
            diffs.append({"path": list(path), "kind": "attr", "cls": type(a).__name__, "attr": p,
                          "a": introspect.describe(getattr(a, p)), "b": introspect.describe(getattr(b, p))})
    return diffs, drift


def beams_bit_equal(x, y):
    if type(x) is not type(y):
        return False
    bx, by = dict(x.named_buffers()), dict(y.named_buffers())
    return bx.keys() == by.keys() and all(introspect.same_value(bx[k], by[k]) for k in bx)


def observe(rows, lat, beam, idx):
    """save / strict-parse / load / compare / track one lattice.  Returns the observation dict (JSON-able).
    A segment with a child named like one of its own attributes (finding F81) may be too broken for this harness to walk
    (segment.elements / state_dict() are no longer what they were): then only the attempt to save is observed."""
    if not collides(lat):
        return _observe(rows, lat, beam, idx)
    try:
        return _observe(rows, lat, beam, idx)
    except Exception as ex:
        obs = {"save_exc": None, "load_exc": None, "strict": True, "layout_ok": None, "saved": None, "loaded_skel": None, "diffs": [],
               "type_drift": 0, "track": None, "pure": None, "elem_keys_ok": None, "retune_problems": [], "key_problems": [], "key_pairs": None,
               "uninspectable": f"{type(ex).__name__}: {ex}"[:160]}
        try:
            realgen.build(lat, dtype=torch.float32).to_lattice_json(str(TMP / f"case_{idx}_c.json"))
        except Exception as ex2:
            obs["save_exc"] = type(ex2).__name__
        return obs, None, None


def _observe(rows, lat, beam, idx):
    import cheetah
    seg = realgen.build(lat, dtype=torch.float32)
    path = TMP / f"case_{idx}.json"
    obs = {"save_exc": None, "load_exc": None, "strict": None, "layout_ok": None, "saved": None, "loaded_skel": None, "diffs": [],
           "type_drift": 0, "track": None, "pure": None, "elem_keys_ok": None, "retune_problems": [], "key_problems": [], "key_pairs": None}
    save_kw = {k: lat[k] for k in ("title", "info") if k in lat}
    retuned = is_retuned(lat)
    if retuned:
        # construct -> re-tune -> save -> reload: from here on `seg` is the LIVE lattice the file has to reproduce
        obs["retune_problems"] = apply_retune(seg, lat)
    before = snapshot(seg)
    try:
        seg.to_lattice_json(str(path), **save_kw)
    except Exception as ex:
        obs["save_exc"] = type(ex).__name__
        obs["pure"] = snapshots_equal(before, snapshot(seg))
        return obs, seg, None
    obs["pure"] = snapshots_equal(before, snapshot(seg))
    text = path.read_text()
    try:
        doc = strict_loads(text)
        obs["strict"] = True
    except Reject as ex:
        obs["strict"] = str(ex)
        try:
            doc = json.loads(text)
        except Exception as ex2:               # a non-finite constant AND not JSON at all
            obs["strict"] = f"{type(ex2).__name__}: {ex2}"[:160]
            return obs, seg, None
    except Exception as ex:
        obs["strict"] = f"{type(ex).__name__}: {ex}"[:160]
        return obs, seg, None
    if obs["strict"] is not True and str(obs["strict"]).startswith("duplicate key"):
        return obs, seg, None
    obs["layout_ok"] = (isinstance(doc, dict) and list(doc.keys()) == TOP_LEVEL and doc["root"] == seg.name
                        and doc["title"] == save_kw.get("title", seg.name)
                        and doc["version"] == "cheetah-0.7" and isinstance(doc["info"], str) and doc["info"] == save_kw.get("info", doc["info"])
                        and isinstance(doc["elements"], dict) and isinstance(doc["lattices"], dict))
    if not obs["layout_ok"]:
        return obs, seg, None
    try:
        obs["saved"] = {"elements": [[n, v[0]] for n, v in doc["elements"].items()], "lattices": [[n, list(c)] for n, c in doc["lattices"].items()]}
        # convert_element: keys are the defining features except name, in that order (the model's save_elem)
        obs["elem_keys_ok"] = all(v[0] in rows and list(v[1].keys()) == [f for f in rows[v[0]]["features"] if f != "name"]
                                  for v in doc["elements"].values())
    except Exception:
        obs["layout_ok"] = False
        return obs, seg, None
    # the file's keys decode to exactly the names: the parsed tables have the lattice's names as keys (all of them, nothing else),
    # every cell entry is a name of the lattice, and the TEXT at each key's place in the file (found by a scan that knows only
    # quotes, backslashes and brackets) is paired with the name expected there for the Coq codec (Ops/JsonKeys.key_ok)
    try:
        exp_e, exp_l = expected_keys(lat)
        if sorted(doc["elements"]) != sorted(exp_e):
            obs["key_problems"].append(f"keys of \"elements\" {sorted(doc['elements'])!r:.300} are not the element names {sorted(exp_e)!r:.300}")
        if sorted(doc["lattices"]) != sorted(exp_l):
            obs["key_problems"].append(f"keys of \"lattices\" {sorted(doc['lattices'])!r:.300} are not the segment names {sorted(exp_l)!r:.300}")
        cells = {n: list(c) for n, c in doc["lattices"].items()}
        want = {n["name"]: [c["name"] for c in n["es"]] for n in nodes(lat) if n["cls"] == "Segment"}
        for n, c in want.items():
            if n in cells and cells[n] != c:
                obs["key_problems"].append(f"cell list of segment {n!r:.80} is {cells[n]!r:.300}, its children are {c!r:.300}")
        toks = raw_keys(text)
        top, lvl2 = [t for d, t in toks if d == 1], [t for d, t in toks if d == 2]
        if len(top) != len(TOP_LEVEL) or len(lvl2) != len(exp_e) + len(exp_l):
            obs["key_problems"].append(f"the file has {len(top)} top-level / {len(lvl2)} table keys, expected {len(TOP_LEVEL)} / {len(exp_e) + len(exp_l)}")
        obs["key_pairs"] = [[n, t] for n, t in zip(TOP_LEVEL + exp_e + exp_l, top + lvl2)]
        for n, t in obs["key_pairs"]:
            try:
                back = json.loads(t)
            except Exception:
                back = None
            if back != n:
                obs["key_problems"].append(f"the key text {t!r:.120} in the file does not decode to the name {n!r:.120}")
                break
    except Exception as ex:
        obs["key_problems"].append(f"key inspection failed: {type(ex).__name__}: {ex}"[:200])
    try:
        loaded = cheetah.Segment.from_lattice_json(str(path))
    except Exception as ex:
        obs["load_exc"] = f"{type(ex).__name__}: {ex}"[:200]
        return obs, seg, None
    obs["loaded_skel"] = real_skeleton(loaded)
    obs["diffs"], obs["type_drift"] = compare_trees(rows, seg, loaded, buffers=retuned)
    if not snapshots_equal(before, snapshot(seg)):     # neither saving nor loading touches the original
        obs["pure"] = False
    structural = [d for d in obs["diffs"] if d["kind"] != "attr"]
    if not structural:
        try:
            b = realgen.build_beam(beam, dtype=torch.float32)
            ref = seg.track(b)
        except Exception:
            obs["track"] = "original-raises"
        else:
            try:
                out = loaded.track(realgen.build_beam(beam, dtype=torch.float32))
                obs["track"] = "equal" if beams_bit_equal(ref, out) else "differs"
            except Exception as ex:
                obs["track"] = f"loaded-raises {type(ex).__name__}"
    return obs, seg, loaded


def coq_case(lat, obs, unloadable=()):
    if obs["saved"] is None:
        saved = "None"
    else:
        E = coq_list([f"({cs(n)}, {coq_string(c)})" for n, c in obs["saved"]["elements"]])
        LL = coq_list([f"({cs(n)}, {coq_list([cs(x) for x in c])})" for n, c in obs["saved"]["lattices"]])
        saved = f"(Some ({E}, {LL}))"
    loaded = "None" if obs["loaded_skel"] is None else f"(Some ({obs['loaded_skel']}))"
    return f"mkc14 ({skeleton(lat)}) {saved} {loaded} {coq_list([coq_string(c) for c in unloadable])}"


def coq_keys(obs):
    """term for Ops/JsonKeys.c14_keys_check: (name, text found at its place in the file) for every key; None: no file / nothing to pair"""
    if not obs.get("key_pairs"):
        return None
    return coq_list([f"({cs(n)}, {sb(t)})" for n, t in obs["key_pairs"] if name_bytes(n) is not None and name_bytes(t) is not None])


# ---------------------------------------------------------------- classification
def classify(lat, obs):
    """Returns (list of known-finding tags, list of unexplained problems) for one observation."""
    known, bad = [], []
    nested = has_nested(lat)
    for pr in obs.get("retune_problems") or []:
        bad.append("re-tuning after construction: " + pr)
    if obs["pure"] is False:
        bad.append("saving altered the segment")
    if obs["save_exc"]:
        if nested and obs["save_exc"] == "UnboundLocalError":
            known.append("F11")
        elif collides(lat) and (obs["save_exc"] in ("TypeError", "AttributeError")
                                or any(i > 0 and nd["name"] == "to_lattice_json" for i, nd in enumerate(nodes(lat)))):
            # (a child named to_lattice_json IS what segment.to_lattice_json(path) calls: its forward() raises whatever it raises on a str)
            known.append("F81")                   # a child's name clobbered an attribute / method of the Segment: it cannot be saved
        else:
            bad.append(f"to_lattice_json raised {obs['save_exc']}")
        return known, bad
    if obs["strict"] is not True:
        if obs["strict"] in ("Infinity",) and aperture_inf(lat):
            known.append("F13")
        else:
            bad.append(f"file is not strict JSON: {obs['strict']}")
    if obs["layout_ok"] is False:
        bad.append("top-level layout of the file is not version,title,info,root,elements,lattices")
        return known, bad
    if obs["elem_keys_ok"] is False:
        bad.append("element parameter keys are not the defining features")
    for pr in obs.get("key_problems") or []:
        bad.append("names as keys of the file: " + pr)
    if obs["load_exc"]:
        if has_cls(lat, "SpaceChargeKick") and "TypeError" in obs["load_exc"] and "grid_shape" in obs["load_exc"]:
            known.append("F12-SpaceChargeKick")
        else:
            bad.append(f"from_lattice_json raised {obs['load_exc']}")
        return known, bad
    structural = [d for d in obs["diffs"] if d["kind"] != "attr"]
    if structural:
        if nested:
            known.append("F11")
        else:
            bad.append(f"loaded lattice differs structurally: {structural[0]}")
        return known, bad
    lost = [d for d in obs["diffs"] if d["kind"] == "attr"]
    f12 = [d for d in lost if (d["cls"], d["attr"]) in F12_ATTRS]
    other = [d for d in lost if (d["cls"], d["attr"]) not in F12_ATTRS]
    if f12:
        known.append("F12-" + "+".join(sorted({d["cls"] for d in f12})))
    if other:
        bad.append(f"attribute not reproduced: {other[0]}")
    if obs["track"] == "differs" or (obs["track"] or "").startswith("loaded-raises"):
        if f12:
            pass                                  # consequence of the lost attribute
        else:
            bad.append(f"loaded lattice tracks differently ({obs['track']})")
    return known, bad


KNOWN_TEXT = {
    "F11": "convert_segment writes the previous element's name for a sub-segment child (first child: UnboundLocalError; later child: "
           "sub-segment lost, previous element duplicated) [F11]",
    "F13": "default Aperture (x_max/y_max = inf) is written as `Infinity`, which is not valid JSON [F13]",
    "F81": "Segment.__init__ stores every child under self.__dict__[child.name] without guarding the names of its own attributes and methods: a "
           "child named `name` turns segment.name into a list, `elements` / `_modules` hide the element list, `to_lattice_json` hides the method; "
           "such a uniquely named segment cannot be saved (to_lattice_json raises TypeError / AttributeError) [F81]",
    "F12-SpaceChargeKick": "SpaceChargeKick lists grid_shape in defining_features, which is not a constructor parameter: loading raises TypeError [F12]",
    "F12-Quadrupole": "Quadrupole.defining_features lacks num_steps and tracking_method: a saved Bmad-X / multi-step quadrupole loads as a default one [F12]",
    "F12-Screen": "Screen.defining_features lacks is_blocking: lost by save/load [F12]",
    "F12-Undulator": "Undulator.defining_features lacks is_active: lost by save/load [F12]",
}


def report_known(run, tags, replay=None):
    for t in tags:
        if t.startswith("F12-") and t not in KNOWN_TEXT:
            for c in t[4:].split("+"):
                run.known(KNOWN_TEXT["F12-" + c], replay=replay)
        else:
            run.known(KNOWN_TEXT[t], replay=replay)


# ---------------------------------------------------------------- stages
def class_table_stage(run, cheetah):
    rows = introspect.table(cheetah)
    res = introspect.run_obligation(PID, rows)
    run.cov["obligations"] += 1
    run.cov["class_table"] = {"classes": [r["cname"] for r in rows], "rejected": res["rejected"], "offenders_present": res["offenders_present"],
                              "offenders_gone": res["offenders_gone"], "pinned_rows_changed": res["pinned_differ"]}
    if res["ok"]:
        run.cov["discharged"] += 1
    if res["offenders_gone"]:
        run.cov["known_findings_not_reproduced"] += [f"F12:{c}" for c in res["offenders_gone"]]
    return rows, res


def json_roundtrip(e):
    import cheetah
    p = TMP / "search.json"
    cheetah.Segment([e], name="search_root").to_lattice_json(str(p))
    return cheetah.Segment.from_lattice_json(str(p)).elements[0]


# ---------------------------------------------------------------- every class, pairwise distinct sibling parameters
# A defining feature that reads its NEIGHBOUR's storage (num_grid_points_tau returning grid_shape[1], gap_exit returning gap, y_max
# returning x_max ...) changes nothing while the siblings carry the same value.  For every class of the live class table, every
# constructor parameter gets a value that differs from EVERY other number given to that element (components of tuples and of
# (2,) tensors included), and the reloaded element is compared with the values the ORIGINAL WAS CONSTRUCTED WITH.
def _numbers(v):
    if isinstance(v, torch.Tensor):
        return [float(x) for x in v.flatten().tolist()]
    if isinstance(v, (tuple, list)):
        return [float(x) for x in v]
    return [float(v)]


def distinct_kwargs(cheetah, cls, rng, variant):
    """constructor keywords (float32) with pairwise distinct numbers; variant % 3 == 2: scalar tensors get a vector dimension (3,)"""
    used, kw = set(), {}
    vector_shape = (3,) if variant % 3 == 2 else None
    for k, p in enumerate(introspect.signature(cls)):
        if p.name == "device":
            continue
        if p.name == "dtype":
            kw["dtype"] = torch.float32
            continue
        v, _ = introspect.value_for(cheetah, cls, p, variant, torch.float32, vector_shape, k)
        if isinstance(v, (bool, str)) or v is None or p.name in ("elements", "predefined_transfer_map"):
            kw[p.name] = v
            continue
        if isinstance(v, int):
            d = p.default if isinstance(p.default, int) else 1
            v = rng.randrange(4, 14) if d > 16 else v + rng.randrange(3)
            while float(v) in used:
                v += 1
        elif isinstance(v, tuple):
            comps = []
            for c in v:
                c = int(c) + rng.randrange(4)
                while float(c) in used or c in comps:
                    c += 1
                comps.append(c)
            v = tuple(comps)
        elif isinstance(v, torch.Tensor):
            v = v * (1.0 + 0.0625 * rng.randrange(8))
            if v.dim() and v.shape[-1] == 2 and rng.random() < 0.5:
                v = v.flip(-1)
            if len(set(_numbers(v))) != v.numel():
                v = v * (1.0 + 0.125 * torch.arange(v.numel(), dtype=v.dtype).reshape(v.shape))
            while any(x in used for x in _numbers(v)):
                v = v * 1.03125
        used.update(_numbers(v))
        kw[p.name] = v
    return kw


def tensor_close32(a, b):
    """same dtype, broadcastable, equal within 4 float32 ulp (a getter that recomputes a value: RBend.rbend_e1 = dipole_e1 - angle/2)"""
    try:
        a, b = torch.broadcast_tensors(a, b)
    except Exception:
        return False
    return a.dtype == b.dtype and bool(torch.all((a - b).abs() <= 5e-7 * torch.maximum(a.abs(), b.abs()) + 1e-12))


def distinct_beam(rng, n=48):
    g = torch.Generator().manual_seed(rng.randrange(1 << 30))
    ps = torch.randn(n, 7, generator=g, dtype=torch.float32) * torch.tensor([2e-4, 3e-5, 3e-4, 2e-5, 1e-4, 1e-3, 0.0])
    ps[:, 6] = 1.0
    return {"type": "particle", "particles": [[round(x, 9) for x in row] for row in ps.tolist()], "energy": rng.choice([5e6, 1e8]),
            "charges": [1e-12 * (1 + i % 3) for i in range(n)], "survival": [1.0 if i % 7 else 0.5 for i in range(n)]}


def distinct_observe(cheetah, rows, cname, kw, beam, tag="d"):
    """save / load ONE element built from kw; compare every constructor parameter of the reloaded element with kw.  -> (problems, track)"""
    cls = getattr(cheetah, cname)
    problems, track = [], None
    try:
        e = cls(**kw)
    except Exception as ex:
        return [f"constructor raised {type(ex).__name__}: {ex}"[:200]], None
    path = TMP / f"distinct_{tag}.json"
    try:
        cheetah.Segment([e], name="distinct_root").to_lattice_json(str(path))
        doc = json.loads(path.read_text())
        loaded = cheetah.Segment.from_lattice_json(str(path)).elements[0]
    except Exception as ex:
        return [f"save / load raised {type(ex).__name__}: {ex}"[:200]], None
    saved = doc["elements"].get(e.name, [None, {}])[1] if isinstance(doc.get("elements"), dict) else {}
    if type(loaded) is not cls:
        problems.append(f"loaded element is a {type(loaded).__name__}")
    for p in introspect.settable(rows[cname]):
        if p not in kw or p == "name" or not hasattr(e, p):
            continue
        want = kw[p]
        for who, obj in (("the ORIGINAL element reports", e), ("the RELOADED element has", loaded)):
            got = getattr(obj, p, "<missing>")
            ok, _ = loose_equal(want, got)
            if not ok and isinstance(want, torch.Tensor) and isinstance(got, torch.Tensor) and obj is e:
                ok = tensor_close32(want, got)                # a recomputed value: round-off of the getter
            if not ok and isinstance(want, torch.Tensor) and isinstance(got, torch.Tensor) and obj is loaded \
                    and not introspect.same_value(want, getattr(e, p)):
                ok = tensor_close32(want, got)
            if not ok:
                problems.append({"parameter": p, "constructed_with": introspect.describe(want), "what": who, "value": introspect.describe(got),
                                 "written_to_file": saved.get(p, "<not in file>") if isinstance(saved, dict) else None})
                break
    try:
        ref = e.track(realgen.build_beam(beam, dtype=torch.float32))
    except Exception:
        track = "original-raises"
    else:
        try:
            out = loaded.track(realgen.build_beam(beam, dtype=torch.float32))
            track = "equal" if beams_bit_equal(ref, out) else "differs"
        except Exception as ex:
            track = f"loaded-raises {type(ex).__name__}"
        if track != "equal":
            problems.append(f"the reloaded element tracks a ParticleBeam differently ({track})")
    return problems, track


def distinct_case(cheetah, rows, cname, rng, variant):
    kw = distinct_kwargs(cheetah, getattr(cheetah, cname), rng, variant)
    kw["name"] = f"dst_{cname}_{variant}"
    beam = distinct_beam(rng)
    problems, track = distinct_observe(cheetah, rows, cname, kw, beam)
    return {"cls": cname, "kwargs": introspect.describe_kwargs(kw), "beam": beam, "problems": problems, "track": track}


def shrink(rows, lat, beam, still_bad):
    """drop children while the same problem persists"""
    changed = True
    while changed:
        changed = False

        def paths(e, p=()):
            if e["cls"] == "Segment":
                for i, c in enumerate(e["es"]):
                    yield p + (i,)
                    yield from paths(c, p + (i,))
        for p in list(paths(lat)):
            t2 = copy.deepcopy(lat)
            node = t2
            for i in p[:-1]:
                node = node["es"][i]
            if p[-1] >= len(node["es"]) or len(t2["es"]) == 0:
                continue
            del node["es"][p[-1]]
            if not t2["es"]:
                continue
            try:
                if still_bad(t2):
                    lat = t2
                    changed = True
                    break
            except Exception:
                pass
        if changed:
            continue
        # give hostile names back a plain one
        for k, nd in enumerate(list(nodes(lat))):
            plain = f"n{k}"
            if nd["name"] == plain or (nd["name"].isascii() and nd["name"].isalnum() and len(nd["name"]) < 20) or plain in {x["name"] for x in nodes(lat)}:
                continue
            t2 = copy.deepcopy(lat)
            list(nodes(t2))[k]["name"] = plain
            try:
                if still_bad(t2):
                    lat = t2
                    changed = True
                    break
            except Exception:
                pass
        if changed:
            continue
        for k in ("title", "info"):
            if k in lat:
                t2 = copy.deepcopy(lat)
                del t2[k]
                try:
                    if still_bad(t2):
                        lat = t2
                        changed = True
                        break
                except Exception:
                    pass
        if changed:
            continue
        # drop single re-tuning assignments
        n_leaves = len(list(leaves(lat)))
        for li in range(n_leaves):
            for ri in range(len(list(leaves(lat))[li].get("retune", []))):
                t2 = copy.deepcopy(lat)
                l2 = list(leaves(t2))[li]
                if len(l2["retune"]) == 1 and sum(len(x.get("retune", [])) for x in leaves(t2)) == 1:
                    continue                 # keep the case a re-tuned one (same comparison)
                del l2["retune"][ri]
                try:
                    if still_bad(t2):
                        lat = t2
                        changed = True
                        break
                except Exception:
                    pass
            if changed:
                break
    return lat


def replay_known(run, rows):
    for f in common.load_known_findings(PID):
        if f.get("status") != "known":
            continue
        r = f["replay"]
        try:
            obs, _, _ = observe(rows, r["lattice"], r["beam"], "known_" + f["id"])
            known, bad = classify(r["lattice"], obs)
        except Exception as ex:
            known, bad = [], [f"replay crashed: {ex}"]
        want = f["signature"]["tag"]
        if any(k == want or (k.startswith("F12-") and want.startswith("F12-") and want[4:] in k[4:].split("+")) for k in known):
            run.known(f["what"])
        else:
            run.cov["known_findings_not_reproduced"].append(f["id"] + ":" + want)


def main(tier, replay=None):
    warnings.filterwarnings("ignore")
    run = common.Run(PID, tier)
    cheetah = common.setup_python_env()
    thorough = tier == "thorough"
    shutil.rmtree(TMP, ignore_errors=True)
    TMP.mkdir(parents=True, exist_ok=True)
    run.cov["rule"] = ("random lattices of real elements (every class of harness/realgen.py, non-default attribute values, float32, 40% with "
                       "vectorised parameters, unique names; half flat, half with sub-segments at random positions, depth<=3) saved with "
                       "to_lattice_json: json.loads structure vs vm_compute of the Coq model (faithful and repaired converter), strict JSON, "
                       "top-level layout, from_lattice_json vs the original (class, name, nesting, every constructor parameter and defining "
                       "feature bit-equal), bit-equal tracking of a random beam, segment unchanged by saving; class table regenerated from the "
                       "live code and checked by Coq.  A further quarter of the cases is RE-TUNED after construction (new values assigned to the "
                       "tensor parameters of every class through the element and through segment.<name>, incl. RBend angle / dipole_e1/2 / "
                       "rbend_e1/2 with dyadic values, some twice) before saving: the loaded lattice must equal the LIVE one (every parameter "
                       "and public buffer read back from the live objects, bit-equal tracking).  Half of the as-constructed cases carry NAMES FROM A "
                       "HOSTILE ALPHABET on elements, sub-segments and the root (quotes, backslashes, escape look-alikes, control characters, "
                       "non-ASCII incl. combining marks and astral characters, leading / trailing spaces, empty, JSON keywords, the format's own "
                       "field names, 3000-character names, twins differing only by case / escape / normalisation; hostile title / info): every "
                       "name comes back exactly, the file's keys are exactly the names (no duplicate keys), and the TEXT of every key in the file "
                       "is compared with the Coq transcription of json.dumps(key) / of the JSON string parser (vm_compute).  "
                       "Non-trivial = >=2 leaves; distinct by full "
                       "lattice content.  DISTINCT SIBLINGS: SpaceChargeKick leaves of the random lattices carry non-cubic grids and unequal "
                       "extents; and for EVERY class of the live class table elements are built whose constructor parameters (ints, tuple and "
                       "(2,)-tensor components included; a third vectorised) are pairwise distinct numbers: every constructor parameter of the "
                       "reloaded element is compared with the value the original was CONSTRUCTED with (bit-equal where the original echoes it, "
                       "4 ulp where its getter recomputes it), and a 48-particle ParticleBeam is tracked bit-equally.")
    if replay:
        return do_replay(run, replay)
    proof_ok = run.proof_stage()
    import translate_stage
    trc = translate_stage.translator_obligation_conv(run)
    if trc["status"] != "ok":
        run.notes.append("translator obligation (LatticeJSON): " + json.dumps(translate_stage.replay_fields_conv(trc))[:600])
    if trc["status"] != "ok" and not ("latticejson" in str(trc.get("file", "")) or str(trc.get("lemma", "")).startswith("gen_lj_")
                                      or trc["status"] == "stage_error"):
        trc = dict(trc, status="ok")      # the converter part of the stage is C13's obligation
    if not proof_ok:
        run.notes.append(run.proof_problem)
    rows_l, tab = class_table_stage(run, cheetah)
    rows = {r["cname"]: r for r in rows_l}

    n = 3000 if thorough else 200
    unloadable = sorted(r["cname"] for r in rows_l if introspect.extra(r))      # constructor rejects a saved keyword
    cases, terms, problems = [], [], []
    n_rt = 600 if thorough else 48             # construct -> re-tune (assign parameters) -> save -> reload
    _COLLISION[:] = [collision_names()]
    n_col = 40 if thorough else 6              # a child named like an attribute / method of Segment (finding F81)
    key_terms, key_case, term_case, n_host = [], [], [], 0
    for i in range(n + n_rt):
        nested = i % 2 == 1
        lat, vec = gen_case(run.rng, nested, retune=i >= n)
        if i < n and (i % 4 >= 2 or i < n_col):
            # names from the hostile alphabet (half of the as-constructed cases): quotes, backslashes, control characters, non-ASCII,
            # spaces, empty, JSON keywords, the format's own field names, very long, twins differing by case / escape / normalisation
            n_host += 1
            hostile_rename(run.rng, lat, colliding=i < n_col, force=(n_host // 4 if n_host % 4 == 0 else None))
        beam = realgen.gen_particle_beam(run.rng)
        obs, _, _ = observe(rows, lat, beam, i)
        known, bad = classify(lat, obs)
        nl = len(list(leaves(lat)))
        run.add_case(["lat", lat], nl >= 2)
        run.count("nested" if has_nested(lat) else "flat")
        run.count("vectorised" if vec else "scalar")
        if any(l.get("nested_list") for l in leaves(lat)):
            run.count("nested_list_parameter")
        run.count("retuned_after_construction" if is_retuned(lat) else "as_constructed")
        if is_hostile(lat):
            run.count("hostile_names")
            for nd in nodes(lat):
                nm = nd["name"]
                for lab, hit in (("quote", '"' in nm), ("backslash", "\\" in nm), ("control_char", any(ord(c) < 32 or ord(c) == 127 for c in nm)),
                                 ("non_ascii", not nm.isascii()), ("outer_space", nm != nm.strip()), ("empty", nm == ""),
                                 ("long", len(nm) > 100), ("json_keyword", nm in ("null", "true", "false", "NaN", "Infinity", "-Infinity")),
                                 ("format_field", nm in TOP_LEVEL + ["cheetah-0.7", "cell"])):
                    if hit:
                        run.count("name_" + lab + ("_segment" if nd["cls"] == "Segment" else "_element"))
            if collides(lat):
                run.count("name_collides_with_segment_attribute")
            if "title" in lat or "info" in lat:
                run.count("hostile_title_or_info")
        for l in leaves(lat):
            run.count("cls_" + l["cls"])
            for rt in l.get("retune", []):
                run.count("retune_" + l["cls"] + ("." + rt["attr"] if l["cls"] == "RBend" else ""))
                run.count("retune_via_" + rt["via"])
        run.count("track_" + str(obs["track"]))
        if obs["type_drift"]:
            run.count("loaded_int_or_tuple_parameter_came_back_as_tensor", obs["type_drift"])
        if not known and not bad:
            run.count("clean_roundtrip")
        for k in known:
            run.count("known_" + k)
        report_known(run, known, replay={"kind": "lattice", "lattice": lat, "beam": beam})
        if bad:
            problems.append((i, bad))
        cases.append((lat, beam, obs))
        if collides(lat) and (obs.get("uninspectable") or obs["save_exc"]):
            run.count("outside_converter_model_segment_attribute_clobbered")      # finding F81: not a behaviour of convert_segment
        else:
            terms.append(coq_case(lat, obs, unloadable))
            term_case.append(i)
        kt = coq_keys(obs)
        if kt is not None:
            key_terms.append(kt)
            key_case.append(i)
    run.sample({"lattice": cases[0][0], "observed": {k: v for k, v in cases[0][2].items() if k != "loaded_skel"}})
    if len(cases) > 1:
        run.sample({"lattice": cases[1][0], "observed": {k: v for k, v in cases[1][2].items() if k != "loaded_skel"}})

    # exact structural correspondence with the Coq model.  Which converter model is the faithful one depends on whether finding
    # F11 (stale element name for a sub-segment child) is still listed as known: since fix 3611d94 in /repo the code IS the
    # repaired converter [conv]; [conv_buggy] is kept as the model of the code before that fix (the _refuted theorems are about it).
    f11_known = any(f["id"] == "F11" and f.get("status") == "known" for f in common.load_known_findings(PID))
    primary, other = ("c14_check_faithful", "c14_check_repaired") if f11_known else ("c14_check_repaired", "c14_check_faithful")
    failing = [term_case[k] for k in common.run_shards(PID, "struct", PREAMBLE, terms, primary)]
    model_note = None
    if failing and f11_known:
        failing_rep = common.run_shards(PID, "struct_rep", PREAMBLE, terms, other)
        if not failing_rep:
            model_note = "the code now behaves like the REPAIRED converter on every case (finding F11 no longer reproduces); faithful model is stale"
            run.notes.append(model_note)
            run.cov["known_findings_not_reproduced"].append("F11")
            failing = []
    run.cov["converter_model"] = "conv (repaired; code after fix 3611d94)" if not f11_known else "conv_buggy (code before the fix)"
    run.cov["traces_validated_against_impl"] += len(cases)
    # the key layer: the text found at every key's place in the file vs the transcription of json.dumps(key) / of the JSON string
    # parser (Ops/JsonKeys.v; the round-trip theorem C14_text_roundtrip assumes exactly decode_key (encode_key k) = Some k)
    failing_keys = [key_case[k] for k in common.run_shards(PID, "keys", PREAMBLE, key_terms, "c14_keys_check", shard=60)] if key_terms else []
    run.cov["key_files_checked_against_codec_model"] = len(key_terms)
    # every class of the live class table, every constructor parameter with a value distinct from all its siblings: the reloaded
    # element is compared with what the original was CONSTRUCTED with (and tracks a 48-particle beam bit-equally)
    distinct_bad = []
    for v in range(60 if thorough else 6):
        for cname in rows:
            try:
                dc = distinct_case(cheetah, rows, cname, run.rng, v)
            except introspect.Unrecognised as ex:
                run.notes.append(f"distinct-sibling stage: {cname}: {ex}"[:200])
                continue
            run.add_case(["distinct", dc["cls"], dc["kwargs"]], True)
            run.count("distinct_siblings_" + ("vectorised" if v % 3 == 2 else "scalar"))
            run.count("distinct_track_" + str(dc["track"]))
            if dc["problems"]:
                distinct_bad.append(dc)
    replay_known(run, rows)
    run.cov["tested_only"] = ["JSON text layer (json.dumps / CompactJSONEncoder / json.load) and float <-> text conversion: exercised, not modelled",
                              "bit-equal tracking of original vs loaded lattice (follows from attribute equality in the model; tested on random beams)",
                              "re-tuned lattices (parameters assigned after construction): the file reproduces the live values (the model saves the element's "
                              "current attributes by construction; that every defining feature reads live state is tested, not modelled)",
                              "segment buffers unchanged by saving (by construction in the model; tested on every case)",
                              "an int / tuple parameter comes back as an integer tensor (binning, num_steps, resolution): accepted as equal value, counted"]

    # ---- verdict
    if problems:
        i, bad = problems[0]
        lat, beam, obs = cases[i]

        def still_bad(t):
            o, _, _ = observe(rows, t, beam, "shrink")
            return bool(classify(t, o)[1])
        lat = shrink(rows, lat, beam, still_bad)
        o, _, _ = observe(rows, lat, beam, "shrunk")
        run.violation({"kind": "lattice", "lattice": lat, "beam": beam, "problems": classify(lat, o)[1], "observed": o,
                       "relation": "from_lattice_json(to_lattice_json(s)) == s (structure, names, classes, parameters, tracking); valid JSON; s unchanged"})
    elif distinct_bad:
        dc = distinct_bad[0]
        run.violation({"kind": "class_distinct", **dc,
                       "relation": "every constructor parameter of the reloaded element equals the value the original was constructed with "
                                   "(all numbers given to the element pairwise distinct); the reloaded element tracks bit-equally"})
    elif not tab["ok"]:
        found = None
        for name in (tab["rejected"] or []):
            if name in rows:
                found = introspect.find_lost_attribute(cheetah, rows[name], json_roundtrip)
                if found:
                    break
        if found:
            run.violation({"kind": "class", "element": found, "broken": tab["log"][:300],
                           "relation": "a constructor parameter given a non-default value survives save/load (class_ok obligation)"})
        else:
            run.violation({"kind": "class_table", "broken": tab["log"] or "table_ok class_table = true not provable", "rejected": tab["rejected"]}, no_input=True)
    elif failing:
        i = failing[0]
        lat, beam, obs = cases[i]
        run.violation({"kind": "correspondence", "broken": "Coq model Ops/Json.v (c14_check_faithful) disagrees with latticejson on this lattice",
                       "lattice": lat, "beam": beam, "observed": obs}, no_input=True)
    elif failing_keys:
        lat, beam, obs = cases[failing_keys[0]]
        run.violation({"kind": "correspondence", "broken": "Coq model Ops/JsonKeys.v (c14_keys_check): the text written for a dictionary key of the file "
                       "is not json_encode_key(name) / does not decode to the name", "lattice": lat, "beam": beam, "key_pairs": obs["key_pairs"]}, no_input=True)
    elif trc["status"] != "ok":
        # the source no longer translates to the proved model; none of this run's oracles found a failing input
        run.violation(translate_stage.replay_fields_conv(trc), no_input=True)
    elif not proof_ok:
        run.violation({"kind": "proof", "broken": run.proof_problem}, no_input=True)
    return run.finish("proof")


def do_replay(run, path):
    cheetah = common.setup_python_env()
    r = json.loads(open(path).read())
    rows = {x["cname"]: x for x in introspect.table(cheetah)}
    TMP.mkdir(parents=True, exist_ok=True)
    if r.get("kind") == "class":
        el = r["element"]
        cls = getattr(cheetah, el["cls"])
        e = cls(**introspect.kwargs_from_description(el["kwargs"]))
        try:
            c = json_roundtrip(e)
            ok = all(introspect.same_value(getattr(e, q), getattr(c, q)) for q in introspect.settable(rows[el["cls"]]) if hasattr(e, q))
        except Exception as ex:
            print("replay: save/load raised", type(ex).__name__, ex)
            ok = False
        print("replay:", "property holds on this input" if ok else "property FAILS on this input")
        return 0 if ok else 1
    if r.get("kind") == "class_distinct":
        kw = introspect.kwargs_from_description({k: v for k, v in r["kwargs"].items() if k != "elements"})
        if r["cls"] == "Segment":
            kw["elements"] = [cheetah.Drift(length=torch.tensor(0.3, dtype=torch.float32), name="probe_d"), cheetah.Marker(name="probe_m")]
        problems, track = distinct_observe(cheetah, rows, r["cls"], kw, r["beam"], "replay")
        print("replay:", "property holds on this input" if not problems else f"property FAILS on this input: {json.dumps(problems, default=str)[:1500]}")
        return 1 if problems else 0
    if "lattice" not in r:
        print("replay: nothing to replay (no failing input was recorded):", r.get("broken"))
        return 1
    obs, _, _ = observe(rows, r["lattice"], r["beam"], "replay")
    known, bad = classify(r["lattice"], obs)
    print("replay:", "property holds on this input" if not bad and not known else f"property FAILS on this input: {bad or known}")
    print(json.dumps(obs, default=str)[:2000])
    return 1 if (bad or known) else 0
