"""C15 -- clone() yields an equal, independent, identically behaving copy."""
import inspect
import json
import warnings

import torch

import common
import introspect
import realgen
from common import coq_list, coq_string
from props import c14 as J

PID = "C15"
PREAMBLE = """From Coq Require Import List Bool String.
From Cheetah Require Import Ops.ClassTableSpec Ops.Clone.
Import ListNotations. Open Scope string_scope."""
F12_ATTRS = J.F12_ATTRS
KNOWN_TEXT = {
    "F12-Quadrupole": "Quadrupole.clone() drops num_steps and tracking_method (not in defining_features): a Bmad-X quadrupole clones into a linear one [F12]",
    "F12-Screen": "Screen.clone() drops is_blocking (not in defining_features) [F12]",
    "F12-Undulator": "Undulator.clone() drops is_active (not in defining_features) [F12]",
    "F12-SpaceChargeKick": "SpaceChargeKick.clone() raises TypeError: defining_features lists grid_shape, which is not a constructor parameter [F12]",
}


# ---------------------------------------------------------------- helpers
def digest(v):
    return json.dumps(introspect.describe(v), default=str, sort_keys=True)


def attr_digests(e, row):
    return [(p, digest(getattr(e, p)) if hasattr(e, p) else "<no attribute>") for p in introspect.settable(row)]


def tensors_of(obj):
    """every tensor reachable from a module: buffers, parameters, tensor attributes (recursively through sub-modules)"""
    out = []
    seen = set()

    def walk(m):
        if id(m) in seen:
            return
        seen.add(id(m))
        for k, v in list(vars(m).items()):
            if isinstance(v, torch.Tensor):
                out.append((type(m).__name__ + "." + k, v))
        for k, v in list(m._buffers.items()) + list(m._parameters.items()):
            if isinstance(v, torch.Tensor):
                out.append((type(m).__name__ + "." + k, v))
        for c in m.children():
            walk(c)
    walk(obj)
    return out


def shared_storage(a, b):
    sa = {}
    for n, t in tensors_of(a):
        if t.numel():
            sa[t.untyped_storage().data_ptr()] = n
    return [(sa[t.untyped_storage().data_ptr()], n) for n, t in tensors_of(b) if t.numel() and t.untyped_storage().data_ptr() in sa]


def full_snapshot(m):
    """bitwise snapshot of an element / segment / beam: tensors and plain attributes"""
    import cheetah
    out = []

    def walk(e, path):
        out.append((path, type(e).__name__, getattr(e, "name", None)))
        for n, t in sorted(((n, t) for n, t in list(e._buffers.items()) + list(e._parameters.items()) if isinstance(t, torch.Tensor)), key=lambda x: x[0]):
            out.append((path, n, t.detach().clone()))
        for k, v in sorted(vars(e).items()):
            if k.startswith("_") or k == "training":
                continue
            if isinstance(v, torch.Tensor):
                out.append((path, k, v.detach().clone()))
            elif isinstance(v, (bool, int, float, str, tuple)):
                out.append((path, k, v))
        if isinstance(e, cheetah.Segment):
            for i, c in enumerate(e.elements):
                walk(c, path + (i,))
    walk(m, ())
    return out


def snap_equal(a, b):
    if len(a) != len(b):
        return False
    for x, y in zip(a, b):
        if x[:2] != y[:2]:
            return False
        if isinstance(x[2], torch.Tensor) or isinstance(y[2], torch.Tensor):
            if not introspect.same_value(x[2], y[2]):
                return False
        elif x[2] != y[2]:
            return False
    return True


def mutate(m, rng, cheetah, how):
    """change the object: 'inplace' adds to every tensor in place; 'assign' re-assigns attributes."""
    n = 0
    if how == "inplace":
        with torch.no_grad():
            for _, t in tensors_of(m):
                if t.numel() and t.dtype.is_floating_point:
                    t.add_(0.375)
                    n += 1
                elif t.numel():
                    t.add_(1)
                    n += 1
        return n

    def walk(e):
        nonlocal n
        if isinstance(e, cheetah.Segment):
            for c in e.elements:
                walk(c)
            if len(e.elements):
                e.elements.append(cheetah.Marker(name="appended_by_mutation"))
                n += 1
            return
        for k, v in list(e._buffers.items()):
            if isinstance(v, torch.Tensor) and v.dtype.is_floating_point:
                setattr(e, k, v * 2.0 + 0.125)
                n += 1
        for k, v in list(vars(e).items()):
            if k.startswith("_") or k in ("training", "name"):
                continue
            if isinstance(v, bool):
                setattr(e, k, not v)
                n += 1
            elif isinstance(v, int):
                setattr(e, k, v + 1)
                n += 1
    walk(m)
    if hasattr(m, "name"):
        try:
            m.name = str(m.name) + "_renamed"
            n += 1
        except Exception:
            pass
    return n


def gen_beam(rng, bt, dtype):
    b = realgen.gen_particle_beam(rng) if bt == "particle" else realgen.gen_parameter_beam(rng)
    return b, realgen.build_beam(b, dtype=dtype)


def compare_clone(rows, a, c):
    """attribute-wise equality original vs clone (bit-equal tensors, same dtype), recursively for segments"""
    import cheetah
    if isinstance(a, cheetah.Segment):
        diffs, _ = J.compare_trees(rows, a, c)
        # no int->tensor drift is acceptable for clone: re-compare strictly
        strict = []
        stack = [((), a, c)]
        while stack:
            p, x, y = stack.pop()
            if type(x) is not type(y):
                continue
            if isinstance(x, cheetah.Segment):
                if len(x.elements) == len(y.elements):
                    for i, (u, v) in enumerate(zip(x.elements, y.elements)):
                        if u is v:
                            strict.append({"path": list(p + (i,)), "kind": "identity", "cls": type(u).__name__, "attr": "<same object>"})
                        stack.append((p + (i,), u, v))
        return diffs + strict
    diffs = []
    if type(a) is not type(c):
        return [{"kind": "class", "a": type(a).__name__, "b": type(c).__name__}]
    if a.name != c.name:
        diffs.append({"kind": "name", "a": a.name, "b": c.name})
    row = rows[type(a).__name__]
    for p in dict.fromkeys(introspect.settable(row) + [f for f in a.defining_features if f != "name"]):
        if not hasattr(a, p):
            continue
        if not hasattr(c, p) or not introspect.same_value(getattr(a, p), getattr(c, p)):
            diffs.append({"kind": "attr", "cls": type(a).__name__, "attr": p, "a": introspect.describe(getattr(a, p)),
                          "b": introspect.describe(getattr(c, p, "<missing>"))})
    return diffs


def examine(rows, make, rng, cheetah, dtype, has_sck=False, is_beam=False):
    """All C15 clauses for one object given by the thunk `make` (fresh, equal objects on each call).
    Returns (known tags, problems, clone or None)."""
    known, bad = [], []
    a = make()
    try:
        c = a.clone()
    except Exception as ex:
        msg = f"{type(ex).__name__}: {ex}"
        if "grid_shape" in msg and isinstance(ex, TypeError) and (type(a).__name__ == "SpaceChargeKick" or has_sck):
            return ["F12-SpaceChargeKick"], [], None
        return [], [f"clone() raised {msg[:200]}"], None
    if c is a:
        bad.append("clone() returned the same object")
    if is_beam:
        if type(a) is not type(c):
            bad.append("clone has a different type")
        ba, bc = dict(a.named_buffers()), dict(c.named_buffers())
        for k in ba:
            if k not in bc or not introspect.same_value(ba[k], bc[k]):
                bad.append(f"beam buffer {k} differs (or dtype/shape): {introspect.describe(ba[k])} vs {introspect.describe(bc.get(k))}"[:300])
        diffs = []
    else:
        diffs = compare_clone(rows, a, c)
    f12 = [d for d in diffs if d.get("kind") == "attr" and (d["cls"], d["attr"]) in F12_ATTRS]
    other = [d for d in diffs if d not in f12]
    for d in f12:
        known.append("F12-" + d["cls"])
    if other:
        bad.append(f"clone differs from the original: {other[0]}")
    sh = shared_storage(a, c)
    if sh:
        bad.append(f"clone shares tensor storage with the original: {sh[:3]}")
    # identical behaviour
    if not is_beam and not other:
        for bt in ("particle", "parameter"):
            spec, b = gen_beam(rng, bt, dtype)
            try:
                ref = make().track(b)
            except Exception:
                continue
            try:
                out = make().clone().track(realgen.build_beam(spec, dtype=dtype))
                if not J.beams_bit_equal(ref, out) and not f12:
                    bad.append(f"clone tracks a {bt} beam differently")
            except Exception as ex:
                if not f12:
                    bad.append(f"clone.track raised {type(ex).__name__}: {ex}"[:200])
    # independence under later mutation, both directions, in place and by assignment
    for how in ("inplace", "assign"):
        for direction in ("original", "clone"):
            x = make()
            try:
                y = x.clone()
            except Exception:
                break
            victim, other_obj = (x, y) if direction == "original" else (y, x)
            before = full_snapshot(other_obj)
            try:
                n = mutate(victim, rng, cheetah, how)
            except Exception:
                continue
            if not snap_equal(before, full_snapshot(other_obj)):
                bad.append(f"mutating the {direction} ({how}) changed the other object")
    return sorted(set(known)), bad, c


# ---------------------------------------------------------------- stages
def element_cases(run, rows_l, cheetah, variants):
    rows = {r["cname"]: r for r in rows_l}
    terms, cases, problems = [], [], []
    for row in rows_l:
        cls = getattr(cheetah, row["cname"])
        for dtype in (torch.float32, torch.float64):
            for variant in range(variants):
                vs = (3,) if variant % 3 == 2 and row["cname"] not in ("SpaceChargeKick", "Screen", "Segment") else None
                try:
                    kw, nd = introspect.probe_kwargs(cheetah, cls, variant, dtype, vs)
                    cls(**kw)
                except Exception as ex:
                    problems.append(({"cls": row["cname"], "variant": variant, "dtype": str(dtype)}, [f"could not build a probe: {type(ex).__name__}: {ex}"[:200]]))
                    continue

                def make(kw=kw, cls=cls):
                    k2 = {k: (v.clone() if isinstance(v, torch.Tensor) else v) for k, v in kw.items()}
                    if "elements" in k2:
                        k2["elements"] = [e.clone() for e in kw["elements"]]
                    return cls(**k2)
                known, bad, c = examine(rows, make, run.rng, cheetah, dtype)
                desc = {"cls": row["cname"], "kwargs": introspect.describe_kwargs(kw), "nondefault": nd}
                run.add_case(["elem", desc], len(nd) >= 2)
                run.count("cls_" + row["cname"])
                run.count("dtype_" + str(dtype).split(".")[-1])
                run.count("vectorised" if vs else "scalar")
                for k in known:
                    run.count("known_" + k)
                    run.known(KNOWN_TEXT[k])
                if bad:
                    problems.append((desc, bad))
                # Coq case: model clone over digests
                a = make()
                try:
                    req = {p.name: kw[p.name] for p in introspect.signature(cls) if p.default is inspect.Parameter.empty and p.name in kw}
                    d0 = cls(**req)
                    dfl = attr_digests(d0, row)
                except Exception:
                    dfl = []
                obs = "None" if c is None else "(Some " + coq_list([f"({coq_string(p)}, {coq_string(v)})" for p, v in attr_digests(c, row)]) + ")"
                terms.append(f"mkc15 ({introspect.coq_row(row)}) " + coq_list([f"({coq_string(p)}, {coq_string(v)})" for p, v in attr_digests(a, row)]) + " "
                             + coq_list([f"({coq_string(p)}, {coq_string(v)})" for p, v in dfl]) + " " + obs)
                cases.append(desc)
    return terms, cases, problems


def segment_cases(run, rows, cheetah, n):
    problems = []
    for i in range(n):
        lat = realgen.gen_lattice(run.rng, n_max=5, depth=run.rng.choice([0, 1, 2, 3]))
        J.uniquify(lat)
        if run.rng.random() < 0.35:
            # Segment explicitly supports several elements with one name (kept as a list under that attribute): give two or three
            # DIFFERENT leaf elements the same name, so that a clone that identifies elements by name is exposed
            leaves = []

            def collect(e):
                if e["cls"] == "Segment":
                    for c in e["es"]:
                        collect(c)
                else:
                    leaves.append(e)
            collect(lat)
            if len(leaves) >= 2:
                for e in run.rng.sample(leaves, min(len(leaves), run.rng.choice([2, 3]))):
                    e["name"] = "shared_name"
                run.count("segment_with_duplicate_names")
        dtype = run.rng.choice([torch.float32, torch.float64])
        if run.rng.random() < 0.3:
            J.vectorise(run.rng, lat, 3)
        try:
            realgen.build(lat, dtype=dtype)
        except Exception:
            run.count("segment_build_failed")
            continue
        known, bad, _ = examine(rows, lambda: realgen.build(lat, dtype=dtype), run.rng, cheetah, dtype, has_sck=J.has_cls(lat, "SpaceChargeKick"))
        run.add_case(["segment", lat, str(dtype)], True)
        run.count("segment_nested" if J.has_nested(lat) else "segment_flat")
        for k in known:
            run.count("known_" + k)
            run.known(KNOWN_TEXT[k])
        if bad:
            problems.append(({"lattice": lat, "dtype": str(dtype)}, bad))
    return problems


def beam_cases(run, cheetah, n):
    problems = []
    for i in range(n):
        for bt in ("particle", "parameter"):
            for dtype in (torch.float32, torch.float64):
                spec = realgen.gen_particle_beam(run.rng) if bt == "particle" else realgen.gen_parameter_beam(run.rng)
                if bt == "particle" and i % 2:
                    spec["survival"] = [0.5 for _ in spec["survival"]]
                known, bad, _ = examine({}, lambda: realgen.build_beam(spec, dtype=dtype), run.rng, cheetah, dtype, is_beam=True)
                run.add_case(["beam", spec, str(dtype)], True)
                run.count("beam_" + bt)
                if bad:
                    problems.append(({"beam": spec, "dtype": str(dtype)}, bad))
    return problems


def main(tier, replay=None):
    warnings.filterwarnings("ignore")
    run = common.Run(PID, tier)
    cheetah = common.setup_python_env()
    thorough = tier == "thorough"
    J.TMP.mkdir(parents=True, exist_ok=True)
    run.cov["rule"] = ("every Element subclass of the regenerated class table x {float32,float64} x probes with a non-default value for EVERY "
                       "constructor parameter (driven by inspect.signature; every third probe vectorised), random nested segments of real "
                       "elements, both beam types: clone() compared attribute-wise (bit-equal tensors, dtype), storage disjointness "
                       "(untyped_storage().data_ptr()), bit-equal tracking of both beam types, mutation of original/clone in place and by "
                       "assignment; element clones also compared with vm_compute of the Coq clone model over the class table. "
                       "Non-trivial = >=2 non-default parameters; distinct by full content.")
    if replay:
        return do_replay(run, replay)
    proof_ok = run.proof_stage()
    if not proof_ok:
        run.notes.append(run.proof_problem)
    rows_l = introspect.table(cheetah)
    tab = introspect.run_obligation(PID, rows_l)
    run.cov["obligations"] += 1
    run.cov["discharged"] += 1 if tab["ok"] else 0
    run.cov["class_table"] = {"classes": [r["cname"] for r in rows_l], "rejected": tab["rejected"], "offenders_present": tab["offenders_present"],
                              "offenders_gone": tab["offenders_gone"], "pinned_rows_changed": tab["pinned_differ"]}
    if tab["offenders_gone"]:
        run.cov["known_findings_not_reproduced"] += [f"F12:{c}" for c in tab["offenders_gone"]]
    rows = {r["cname"]: r for r in rows_l}

    terms, cases, problems = element_cases(run, rows_l, cheetah, 12 if thorough else 3)
    seg_problems = segment_cases(run, rows, cheetah, 600 if thorough else 40)
    beam_problems = beam_cases(run, cheetah, 40 if thorough else 4)
    run.sample(cases[0] if cases else {})
    failing = common.run_shards(PID, "clone", PREAMBLE, terms, "c15_check", shard=60)
    run.cov["traces_validated_against_impl"] += len(terms)
    replay_known(run, rows, cheetah)
    run.cov["tested_only"] = ["PARTIAL: storage independence (no shared tensor storage; later mutation of one object never shows in the other) is a runtime "
                              "fact that the Coq model does not represent; it is tested on every case (data_ptr disjointness + mutation both ways)",
                              "bit-equal tracking of clone vs original (in the model a consequence of attribute equality; tested with both beam types)",
                              "dtype preservation (float32/float64) of every cloned tensor"]

    allp = problems + seg_problems + beam_problems
    if allp:
        desc, bad = allp[0]
        run.violation(dict(desc, kind="clone", problems=bad,
                           relation="x.clone(): same type, equal constructor-settable attributes, same dtype, no shared storage, same tracking, independent under mutation"))
    elif not tab["ok"]:
        found = None
        for name in (tab["rejected"] or []):
            if name in rows:
                found = introspect.find_lost_attribute(cheetah, rows[name], lambda e: e.clone())
                if found:
                    break
        if found:
            run.violation({"kind": "class", "element": found, "broken": tab["log"][:300],
                           "relation": "a constructor parameter given a non-default value survives clone() (class_ok obligation)"})
        else:
            run.violation({"kind": "class_table", "broken": tab["log"] or "table_ok class_table = true not provable", "rejected": tab["rejected"]}, no_input=True)
    elif failing:
        run.violation({"kind": "correspondence", "broken": "Coq model Ops/Clone.v (c15_check) disagrees with Element.clone on this element",
                       "element": cases[failing[0]]}, no_input=True)
    elif not proof_ok:
        run.violation({"kind": "proof", "broken": run.proof_problem}, no_input=True)
    return run.finish("proof")


def build_from_desc(cheetah, el):
    return getattr(cheetah, el["cls"])(**{k: v for k, v in introspect.kwargs_from_description(el["kwargs"]).items() if k != "elements"})


def replay_known(run, rows, cheetah):
    for f in common.load_known_findings(PID):
        if f.get("status") != "known":
            continue
        el = f["replay"]["element"]
        try:
            known, bad, _ = examine(rows, lambda: build_from_desc(cheetah, el), run.rng, cheetah, torch.float32)
        except Exception as ex:
            known, bad = [], [str(ex)]
        if f["signature"]["tag"] in known:
            run.known(f["what"])
        else:
            run.cov["known_findings_not_reproduced"].append(f["id"] + ":" + f["signature"]["tag"])


def do_replay(run, path):
    cheetah = common.setup_python_env()
    r = json.loads(open(path).read())
    rows = {x["cname"]: x for x in introspect.table(cheetah)}
    if "lattice" in r:
        dtype = getattr(torch, r["dtype"].split(".")[-1])
        known, bad, _ = examine(rows, lambda: realgen.build(r["lattice"], dtype=dtype), run.rng, cheetah, dtype, has_sck=J.has_cls(r["lattice"], "SpaceChargeKick"))
    elif "beam" in r:
        dtype = getattr(torch, r["dtype"].split(".")[-1])
        known, bad, _ = examine({}, lambda: realgen.build_beam(r["beam"], dtype=dtype), run.rng, cheetah, dtype, is_beam=True)
    elif "element" in r or "cls" in r:
        el = r.get("element") if isinstance(r.get("element"), dict) and "kwargs" in r.get("element", {}) else r
        if "elements" in el.get("kwargs", {}):
            print("replay: a Segment probe is rebuilt with its standard children")
            el = dict(el)
            make = lambda: cheetah.Segment([cheetah.Drift(length=torch.tensor(0.3), name="probe_d"), cheetah.Marker(name="probe_m")], name=el["kwargs"].get("name"))  # noqa: E731
        else:
            make = lambda: build_from_desc(cheetah, el)  # noqa: E731
        known, bad, _ = examine(rows, make, run.rng, cheetah, torch.float32)
        if r.get("kind") == "class" and not bad:
            e = make()
            c = e.clone()
            q = r["element"].get("parameter")
            if q and not introspect.same_value(getattr(e, q), getattr(c, q)):
                bad = [f"clone() lost {q}"]
    else:
        print("replay: nothing to replay (no failing input was recorded):", r.get("broken"))
        return 1
    print("replay:", "property holds on this input" if not bad and not known else f"property FAILS on this input: {bad or known}")
    return 1 if (bad or known) else 0
