"""C15 -- clone() yields an equal, independent, identically behaving copy.

One CASE is a JSON-able spec: how to build an element / segment / beam, a HISTORY of attribute assignments applied after
construction (through every settable public attribute discovered by introspection: buffers, parameters, plain attributes,
properties with a setter over the whole MRO; for segments also through the by-name handles), some of the assigned values
being torch.nn.Parameter.  `make(spec)` builds a fresh, equal object each time.  `examine` then checks every clause of the
property on it: equal OBSERVABLE STATE (every buffer/parameter/public attribute/public property, recursively, dtype, device),
no shared storage, identical tracking of both beam types, independence under later mutation (in place under no_grad, through
.data, an SGD step on a tracking loss, by assignment) in both directions.
"""
import inspect
import json
import os
import warnings

import torch
from torch import nn

import common
import introspect
import realgen
from common import coq_list, coq_string
from props import c14 as J

PID = "C15"
PREAMBLE = """From Coq Require Import List Bool String ZArith.
From Cheetah Require Import Ops.ClassTableSpec Ops.Clone Ops.CloneHistory Ops.CloneHistoryStay.
Import ListNotations. Open Scope string_scope."""
F12_ATTRS = J.F12_ATTRS
KNOWN_TEXT = {
    "F12-Quadrupole": "Quadrupole.clone() drops num_steps and tracking_method (not in defining_features): a Bmad-X quadrupole clones into a linear one [F12]",
    "F12-Screen": "Screen.clone() drops is_blocking (not in defining_features) [F12]",
    "F12-Undulator": "Undulator.clone() drops is_active (not in defining_features) [F12]",
    "F12-SpaceChargeKick": "SpaceChargeKick.clone() raises TypeError: defining_features lists grid_shape, which is not a constructor parameter [F12]",
    "F85-Dipole": "Dipole / RBend built without fringe_integral_exit register ONE tensor under the two names fringe_integral and "
                  "fringe_integral_exit; clone() gives the clone two separate tensors: the same in-place update of fringe_integral on the "
                  "original and on its clone changes the exit fringe integral (and the tracking) of the original only [F85]",
    "F80-RBend": "RBend.clone() recomputes dipole_e1/e2 as (dipole_e - angle/2) + angle/2: the clone's face angles (and its tracking) differ "
                 "from the original's by one rounding error [F80]",
}
# observables of an RBend that go through the subtraction/addition of angle/2 (finding F80)
F80_KEYS = {"_e1", "_e2", "dipole_e1", "dipole_e2", "rbend_e1", "rbend_e2"}
NOVALUE = object()
SKIPPED = {}          # class -> assignable slots that the class does not declare and no feature depends on (not assigned in histories)


# ================================================================ the public surface of an object, by introspection
def class_properties(cls):
    props = {}
    for k in cls.__mro__:
        for a, v in vars(k).items():
            if isinstance(v, property) and a not in props and not a.startswith("_"):
                props[a] = v
    return props


def is_module_ref(v):
    return isinstance(v, nn.Module) or (isinstance(v, (list, tuple)) and len(v) > 0 and all(isinstance(x, nn.Module) for x in v))


def settable_surface(obj):
    """every public name of `obj` that can be assigned: registered buffers and parameters, plain instance attributes, properties
    with a setter anywhere in the MRO (handles to sub-elements and names shadowed by a read-only property are not assignable)"""
    props = class_properties(type(obj))
    names = []
    for n in list(obj._buffers) + list(obj._parameters) + list(vars(obj)):
        if n.startswith("_") or n == "training" or n in names:
            continue
        if n in props and props[n].fset is None:
            continue
        try:
            v = getattr(obj, n)
        except Exception:
            continue
        if is_module_ref(v):
            continue
        names.append(n)
    for a, p in props.items():
        if p.fset is not None and a not in names:
            names.append(a)
    return names


def literal_choices(obj, attr):
    try:
        for p in introspect.signature(type(obj)):
            if p.name == attr:
                return introspect._literal_choices(p)
    except Exception:
        pass
    return None


def new_value(rng, obj, attr, cur, keep=False):
    """a valid new value of the same kind (shape, dtype, sign, finiteness) as the current one, or NOVALUE"""
    if isinstance(cur, torch.Tensor):
        if not cur.dtype.is_floating_point or cur.numel() == 0:
            return NOVALUE
        base = cur.detach().clone()
        if keep:
            return base
        f = rng.choice([0.5, 0.7, 1.1, 1.25, 2.0, 3.0])
        z = rng.choice([0.0625, 0.125, 0.3])
        new = torch.where(base == 0, torch.full_like(base, z), base * f)
        new = torch.where(torch.isfinite(base), new, base)
        if "survival" in attr or "probabilit" in attr:
            new = new.clamp(0.0, 1.0)
        if attr == "particles" and new.shape[-1] == 7:
            new[..., 6] = base[..., 6]             # the homogeneous coordinate stays 1
        return new
    if isinstance(cur, bool):
        return not cur
    if isinstance(cur, int):
        return cur + 1
    if isinstance(cur, tuple) and cur and all(isinstance(x, int) and not isinstance(x, bool) for x in cur):
        return tuple(x + 1 for x in cur)
    if isinstance(cur, str):
        if attr == "name":
            return cur + "_r"
        ch = literal_choices(obj, attr)
        alts = [c for c in (ch or []) if c != cur]
        return rng.choice(alts) if alts else NOVALUE
    return NOVALUE


def enc(v):
    if isinstance(v, torch.Tensor):
        return {"tensor": v.detach().tolist(), "dtype": str(v.dtype)}
    if isinstance(v, tuple):
        return {"tuple": [enc(x) for x in v]}
    return v


def dec(d):
    if isinstance(d, dict) and "tensor" in d:
        return torch.tensor(d["tensor"], dtype=getattr(torch, d["dtype"].split(".")[-1]))
    if isinstance(d, dict) and "tuple" in d:
        return tuple(dec(x) for x in d["tuple"])
    return d


# ================================================================ histories
def is_segment(x):
    import cheetah
    return isinstance(x, cheetah.Segment)


def nodes_of(root):
    """[(index path, node)] of an element tree (a beam or a leaf element is a single node)"""
    out = []

    def walk(e, path):
        out.append((path, e))
        if is_segment(e):
            for i, c in enumerate(e.elements):
                walk(c, path + (i,))
    walk(root, ())
    return out


def route(rng, root, path, p_handle=0.5):
    """the index path as a list of steps, some of them through the parent's by-name handle (`segment.<name>`, or
    `segment.<name>[k]` where several elements share the name)"""
    steps, t = [], root
    for i in path:
        c = t.elements[i]
        h = t.__dict__.get(c.name) if isinstance(c.name, str) else None
        step = ["e", i]
        if rng.random() < p_handle:
            if h is c:
                step = ["h", c.name, None]
            elif isinstance(h, list):
                ks = [k for k, x in enumerate(h) if x is c]
                if ks:
                    step = ["h", c.name, ks[0]]
        steps.append(step)
        t = c
    return steps


def resolve(root, steps):
    t = root
    for s in steps:
        if s[0] == "e":
            t = t.elements[s[1]]
        else:
            t = getattr(t, s[1])
            if s[2] is not None:
                t = t[s[2]]
    return t


def apply_op(root, op):
    t = resolve(root, op["path"])
    if op.get("inplace"):
        # an in-place update of the tensor the attribute currently holds: t.mul_(f).add_(z) under no_grad (what an optimiser step,
        # `elem.k1 *= 2` on a buffer or `elem.k1.data.add_()` do); the homogeneous coordinate of `particles` stays 1
        x = getattr(t, op["attr"])
        with torch.no_grad():
            tgt = x[..., :6] if op["attr"] == "particles" and x.shape[-1] == 7 else x
            tgt.mul_(op["value"]["mul"]).add_(op["value"]["add"])
        return
    v = dec(op["value"])
    if op.get("param"):
        v = nn.Parameter(v)
    setattr(t, op["attr"], v)


def is_declared(node, a):
    """the class declares `a`: constructor parameter, defining feature, or property"""
    try:
        if a in [p.name for p in introspect.signature(type(node))]:
            return True
    except Exception:
        pass
    try:
        if a in list(node.defining_features):
            return True
    except Exception:
        pass
    return a in class_properties(type(node))


def feature_digest(node):
    out = []
    try:
        names = list(node.defining_features)
    except Exception:
        names = []
    try:
        names += [p.name for p in introspect.signature(type(node)) if p.name not in ("device", "dtype")]
    except Exception:
        pass
    for f in dict.fromkeys(names):
        try:
            v = getattr(node, f)
            out.append((f, len(v) if isinstance(v, nn.ModuleList) else digest(v)))
        except Exception:
            out.append((f, "<unreadable>"))
    return json.dumps(out, default=str)


def candidates(root):
    """[(index path, attribute)]: the whole settable surface of an object tree"""
    cands = []
    for path, node in nodes_of(root):
        for a in settable_surface(node):
            if a == "name" and path != ():
                continue           # Segment builds its by-name handles at construction: renaming a child is outside the property
            cands.append((path, a))
    return cands


def gen_history(rng, root, n_ops=None, p_param=0.3, sweep=False, surface_log=None, skipped_log=None, order=None):
    """Random valid assignments executed on `root` (a scratch instance) and recorded.  sweep: every settable attribute of every
    node once (shuffled) and a few of them a second time; otherwise n_ops random ones (or exactly the candidates in `order`).
    An assignment that the implementation rejects is not part of the history."""
    cands = candidates(root)
    if not cands:
        return []
    if order is not None:
        pass
    elif sweep:
        order = rng.sample(cands, len(cands)) + [rng.choice(cands) for _ in range(min(4, len(cands)))]
        if len(order) > 40:
            order = order[:40]
    else:
        order = [rng.choice(cands) for _ in range(n_ops if n_ops is not None else rng.randrange(1, 7))]
    ops = []
    for path, a in order:
        node = resolve(root, [["e", i] for i in path])
        try:
            cur = getattr(node, a)
        except Exception:
            continue
        forced = a in getattr(node, "_parameters", {})
        par = isinstance(cur, torch.Tensor) and cur.dtype.is_floating_point and (forced or rng.random() < p_param)
        v = new_value(rng, node, a, cur, keep=par and rng.random() < 0.25)
        if v is NOVALUE:
            continue
        op = {"path": route(rng, root, path), "attr": a, "value": enc(v), "param": bool(par)}
        declared = is_declared(node, a)
        try:
            before = None if declared else feature_digest(node)
            apply_op(root, op)
            if not declared and feature_digest(node) == before:
                # an inherited slot the class does not use (e.g. the `length` buffer of a zero-length Aperture): it is neither a
                # constructor parameter nor a feature nor a property and no feature depends on it -- not an attribute of the class
                setattr(node, a, cur)
                if skipped_log is not None:
                    skipped_log.setdefault(type(node).__name__, set()).add(a)
                continue
        except Exception:
            continue
        ops.append(op)
        if surface_log is not None:
            surface_log.setdefault(type(node).__name__, set()).add(a)
    return ops


def gen_post(rng, spec, max_singles=24, surface_log=None, max_inplace=10):
    """Sequences of assignments to be applied IDENTICALLY to the original and to its clone after cloning ("equal objects stay equal
    under equal operations"): one single-assignment sequence for every settable attribute of the object as it is at clone time
    (each generated against that state; at most `max_singles`, sampled), one short random sequence (1-3 assignments), and one
    longer one (a sweep through the whole surface or 4-8 random assignments).  Values are of the same kind as in the histories
    (~30% nn.Parameter)."""
    try:
        cands = candidates(make(spec))
    except Exception:
        return []
    if not cands:
        return []
    seqs = []
    singles = cands if len(cands) <= max_singles else rng.sample(cands, max_singles)
    for cand in singles:
        ops = gen_history(rng, make(spec), p_param=0.3, order=[cand], surface_log=surface_log, skipped_log=SKIPPED)
        if ops:
            seqs.append(ops)
    # the same IN-PLACE update of one tensor attribute on both (objects that are identical also agree in which attributes are views
    # of one tensor): at most `max_inplace` float tensor attributes, sampled
    scratch = make(spec)
    tens = []
    for path, a in cands:
        try:
            v = getattr(resolve(scratch, [["e", i] for i in path]), a)
        except Exception:
            continue
        if isinstance(v, torch.Tensor) and v.dtype.is_floating_point and v.numel() and is_declared(resolve(scratch, [["e", i] for i in path]), a):
            tens.append((path, a))
    for path, a in (tens if len(tens) <= max_inplace else rng.sample(tens, max_inplace)):
        prob = "survival" in a or "probabilit" in a
        seqs.append([{"path": route(rng, scratch, path), "attr": a, "inplace": True, "param": False,
                      "value": {"mul": 0.5 if prob else rng.choice([1.25, 0.75, 2.0]), "add": 0.0 if prob else rng.choice([0.0625, 0.125])}}])
    short = gen_history(rng, make(spec), n_ops=rng.randrange(1, 4), p_param=0.3, skipped_log=SKIPPED)
    if short:
        seqs.append(short)
    if rng.random() < 0.5:
        long_ = gen_history(rng, make(spec), sweep=True, p_param=0.3, skipped_log=SKIPPED)
    else:
        long_ = gen_history(rng, make(spec), n_ops=rng.randrange(4, 9), p_param=0.3, skipped_log=SKIPPED)
    if long_:
        seqs.append(long_)
    return seqs


# ================================================================ case specs -> objects
def make(spec):
    """a fresh object for the case spec (equal objects on every call)"""
    import cheetah
    dtype = getattr(torch, spec["dtype"].split(".")[-1])
    if spec["kind"] == "element":
        cls = getattr(cheetah, spec["cls"])
        kw = {k: dec(v) for k, v in spec["kwargs"].items()}
        if "resolution" in kw and isinstance(kw["resolution"], list):
            kw["resolution"] = tuple(kw["resolution"])
        if "dtype" in kw:
            kw["dtype"] = getattr(torch, str(kw["dtype"]).split(".")[-1])
        if spec["cls"] == "Segment":
            kw["elements"] = [cheetah.Drift(length=torch.tensor(0.3, dtype=dtype), name="probe_d"), cheetah.Marker(name="probe_m")]
        for k in spec.get("param_kwargs", []):
            kw[k] = nn.Parameter(kw[k])
        obj = cls(**kw)
    elif spec["kind"] == "segment":
        obj = realgen.build(spec["lattice"], dtype=dtype)
    else:
        obj = realgen.build_beam(spec["beam"], dtype=dtype)
    for op in spec.get("history", []):
        try:
            apply_op(obj, op)
        except Exception:
            pass            # deterministic: the same op is skipped on every call
    return obj


def element_spec(cls_name, kw, dtype):
    d = {}
    for k, v in kw.items():
        if k == "elements":
            continue
        d[k] = str(v) if isinstance(v, torch.dtype) else enc(v)
    return {"kind": "element", "cls": cls_name, "kwargs": d, "dtype": str(dtype), "history": [], "param_kwargs": []}


# ================================================================ observation
def tensors_of(obj):
    """every tensor reachable from an object: buffers, parameters, tensor attributes (public or private, inside tuples, lists,
    dicts, attached beams), recursively through sub-modules"""
    out, seen = [], set()

    def val(owner, k, v, depth):
        if isinstance(v, torch.Tensor):
            out.append((owner + "." + k, v))
        elif isinstance(v, nn.Module):
            walk(v)
        elif isinstance(v, (list, tuple)) and depth < 3:
            for i, x in enumerate(v):
                val(owner, f"{k}[{i}]", x, depth + 1)
        elif isinstance(v, dict) and depth < 3:
            for i, x in v.items():
                val(owner, f"{k}[{i!r}]", x, depth + 1)

    def walk(m):
        if id(m) in seen:
            return
        seen.add(id(m))
        own = type(m).__name__
        for k, v in list(m._buffers.items()) + list(m._parameters.items()):
            val(own, k, v, 0)
        for k, v in list(vars(m).items()):
            if k in ("_buffers", "_parameters", "_modules") or (k.startswith("_") and k.endswith("_hooks")):
                continue
            val(own, k, v, 0)
        for c in m.children():
            walk(c)
    walk(obj)
    return out


def shared_storage(a, b):
    sa = {}
    for n, t in tensors_of(a):
        if t.numel():
            sa[t.untyped_storage().data_ptr()] = n
    return [(sa[t.untyped_storage().data_ptr()], n) for n, t in tensors_of(b) if t.numel() and t.untyped_storage().data_ptr() in sa]


def observe(root):
    """{(index path, key): normalised value} for ALL observable state: class, every registered buffer and parameter, every public
    instance attribute, every public property (whole MRO) read without arguments; recursively for segments.  References to
    sub-elements (by-name handles) are recorded as index paths inside the own tree."""
    index = {id(n): p for p, n in nodes_of(root)}

    def norm(v, depth=0):
        if isinstance(v, torch.Tensor):
            return ("T", v.detach().clone())
        if isinstance(v, nn.ModuleList):
            return ("children", len(v))
        if isinstance(v, nn.Module):
            return ("ref", index.get(id(v), "<object outside the own tree>"))
        if isinstance(v, (list, tuple)) and depth < 4:
            return ("seq", type(v).__name__, [norm(x, depth + 1) for x in v])
        if isinstance(v, dict) and depth < 4:
            return ("dict", sorted((str(k), norm(x, depth + 1)) for k, x in v.items()))
        if v is None or isinstance(v, (bool, int, float, str)):
            return ("v", v)
        if isinstance(v, (torch.dtype, torch.device)):
            return ("v", str(v))
        return ("opaque", type(v).__name__)

    out = {}
    for path, e in nodes_of(root):
        out[(path, "<class>")] = ("v", type(e).__name__)
        for a in class_properties(type(e)):
            try:
                out[(path, a)] = norm(getattr(e, a))
            except Exception as ex:
                out[(path, a)] = ("raises", type(ex).__name__)
        for k, v in list(e._buffers.items()) + list(e._parameters.items()):
            out.setdefault((path, k), norm(v))
        for k, v in vars(e).items():
            if k.startswith("_") or k == "training":
                continue
            out.setdefault((path, k), norm(v))
    return out


def norm_equal(x, y):
    if x[0] != y[0]:
        return False
    if x[0] == "T":
        return introspect.same_value(x[1], y[1]) and x[1].device == y[1].device
    if x[0] == "seq":
        return x[1] == y[1] and len(x[2]) == len(y[2]) and all(norm_equal(u, v) for u, v in zip(x[2], y[2]))
    if x[0] == "dict":
        return [k for k, _ in x[1]] == [k for k, _ in y[1]] and all(norm_equal(u[1], v[1]) for u, v in zip(x[1], y[1]))
    if x[0] == "v":
        return type(x[1]) is type(y[1]) and x[1] == y[1]
    return x[1:] == y[1:]


def show(x):
    if x is None:
        return "<absent>"
    if x[0] == "T":
        return introspect.describe(x[1])
    if x[0] == "seq":
        return [show(u) for u in x[2]]
    if x[0] == "dict":
        return {k: show(u) for k, u in x[1]}
    return x[1] if len(x) == 2 else list(x[1:])


def obs_diffs(oa, ob, classes=None):
    """differences between two observations as JSON-able dicts {path, attr, cls, a, b}"""
    diffs = []
    for key in sorted(set(oa) | set(ob), key=lambda k: (k[0], k[1])):
        x, y = oa.get(key), ob.get(key)
        if x is None or y is None or not norm_equal(x, y):
            cls = (oa.get((key[0], "<class>")) or ob.get((key[0], "<class>")) or ("v", "?"))[1]
            d = {"kind": "attr", "path": list(key[0]), "cls": cls, "attr": key[1], "a": show(x), "b": show(y)}
            d["_raw"] = (x, y)
            diffs.append(d)
    return diffs


def is_f80(d, oa):
    """one rounding error in a face angle of an RBend (the constructor adds angle/2 back to rbend_e = dipole_e - angle/2)"""
    if d["cls"] != "RBend" or d["attr"] not in F80_KEYS:
        return False
    x, y = d["_raw"]
    if x is None or y is None or x[0] != "T" or y[0] != "T":
        return False
    a, b = x[1], y[1]
    ang = oa.get((tuple(d["path"]), "angle"))
    if a.shape != b.shape or a.dtype != b.dtype or ang is None or ang[0] != "T":
        return False
    try:
        scale = torch.maximum(torch.maximum(a.abs(), b.abs()), (ang[1].abs() / 2).to(a.dtype).expand_as(a) if ang[1].numel() == 1 else (ang[1].abs() / 2).to(a.dtype))
        return bool(torch.all((a - b).abs() <= 2 * torch.finfo(a.dtype).eps * scale))
    except Exception:
        return False


def clean(diffs):
    return [{k: v for k, v in d.items() if k != "_raw"} for d in diffs]


# ================================================================ mutation
def mutate(m, rng, cheetah, how, beam=None):
    """change the object after cloning.  inplace: add to every reachable tensor in place under no_grad; data: through .data;
    sgd: one SGD step on a loss of a tracked beam over the leaf parameters (others: in place); assign: re-assign attributes."""
    n = 0
    if how in ("inplace", "data", "sgd"):
        done = set()
        ts = [t for _, t in tensors_of(m) if t.numel()]
        if how == "sgd":
            leaves = [t for t in ts if isinstance(t, nn.Parameter) and t.is_leaf and t.requires_grad]
            uniq = list({id(t): t for t in leaves}.values())
            if uniq and beam is not None and hasattr(m, "track"):
                try:
                    out = m.track(beam)
                    loss = sum((b.double() ** 2).sum() for _, b in out.named_buffers() if b.dtype.is_floating_point and b.requires_grad)
                    if isinstance(loss, torch.Tensor):
                        loss.backward()
                except Exception:
                    pass
                gmax = max([float(t.grad.abs().max()) for t in uniq if t.grad is not None and torch.isfinite(t.grad).all()] + [0.0])
                if gmax > 0:
                    for t in uniq:
                        if t.grad is not None and not torch.isfinite(t.grad).all():
                            t.grad = None
                    before = [t.detach().clone() for t in uniq]
                    torch.optim.SGD(uniq, lr=0.25 / gmax).step()
                    for t, b in zip(uniq, before):
                        if not torch.equal(t.detach(), b):
                            done.add(t.untyped_storage().data_ptr())
                            n += 1
        with torch.no_grad():
            for t in ts:
                p = t.untyped_storage().data_ptr()
                if p in done:
                    continue
                done.add(p)
                if how == "data":
                    if t.dtype.is_floating_point:
                        t.data.mul_(1.5).add_(0.25)
                    else:
                        t.data.add_(1)
                elif t.dtype.is_floating_point:
                    t.add_(0.375)
                else:
                    t.add_(1)
                n += 1
        return n

    def walk(e):
        nonlocal n
        if isinstance(e, cheetah.Segment):
            for c in e.elements:
                walk(c)
            if len(e.elements):
                e.elements.append(cheetah.Marker(name="appended_by_mutation"))
                n += 1
            return
        for k in settable_surface(e):
            if k == "name":
                continue
            try:
                v = getattr(e, k)
                if isinstance(v, torch.Tensor) and v.dtype.is_floating_point:
                    nv = v.detach() * 2.0 + 0.125
                    setattr(e, k, nn.Parameter(nv) if k in e._parameters else nv)
                    n += 1
                elif isinstance(v, bool):
                    setattr(e, k, not v)
                    n += 1
                elif isinstance(v, int):
                    setattr(e, k, v + 1)
                    n += 1
            except Exception:
                pass
    walk(m)
    if hasattr(m, "name"):
        try:
            m.name = str(m.name) + "_renamed"
            n += 1
        except Exception:
            pass
    return n


def gen_beam(rng, bt, dtype):
    b = realgen.gen_particle_beam(rng) if bt == "particle" else realgen.gen_parameter_beam(rng)
    return b, realgen.build_beam(b, dtype=dtype)


def track_or_exc(x, spec, dtype):
    try:
        return x.track(realgen.build_beam(spec, dtype=dtype))
    except Exception as ex:
        return f"{type(ex).__name__}"


def same_track(u, v, loose=None):
    if isinstance(u, str) or isinstance(v, str):
        return isinstance(u, str) and isinstance(v, str) and u == v
    if J.beams_bit_equal(u, v):
        return True
    if loose:
        return type(u) is type(v) and not realgen.beams_close(u, v, rtol=loose, atol=loose * 1e-3)
    return False


def listed_tags():
    return {f.get("signature", {}).get("tag") for f in common.load_known_findings(PID) if f.get("status") == "known"}


def split_diffs(diffs, oa, listed):
    """(differences explained by F12 while it is listed known, by F80, all others)"""
    f12 = [d for d in diffs if (d["cls"], d["attr"]) in F12_ATTRS and "F12-" + d["cls"] in listed]
    f80 = [d for d in diffs if d not in f12 and is_f80(d, oa)]
    other = [d for d in diffs if d not in f12 and d not in f80]
    return f12, f80, other


def apply_or_exc(obj, op):
    try:
        apply_op(obj, op)
        return None
    except Exception as ex:
        return type(ex).__name__


def op_text(op):
    v = op["value"]
    if op.get("inplace"):
        return ("/".join(str(s[1]) for s in op["path"]) + "." if op["path"] else "") + f"{op['attr']}.mul_({v['mul']}).add_({v['add']}) in place"
    if isinstance(v, dict) and "tensor" in v:
        v = v["tensor"]
    return ("/".join(str(s[1]) for s in op["path"]) + "." if op["path"] else "") + f"{op['attr']} = {v!r}" + (" (nn.Parameter)" if op.get("param") else "")


F85_PAIR = {"fringe_integral": "fringe_integral_exit", "fringe_integral_exit": "fringe_integral"}


def is_f85(d, op, x, y):
    """finding F85, bounded in WHAT is observed: a Dipole / RBend whose fringe_integral_exit was left at its default holds ONE tensor
    under the two names fringe_integral and fringe_integral_exit (the clone holds two); the in-place update of one of them is the
    operation; the only differing observable is the OTHER of the two names; on the original it carries the update (equals the
    updated attribute), on the clone it kept its value (original = mul * clone + add)"""
    if not op.get("inplace") or op["attr"] not in F85_PAIR or d["cls"] not in ("Dipole", "RBend") or d["attr"] != F85_PAIR[op["attr"]]:
        return False
    try:
        nx, ny = resolve(x, op["path"]), resolve(y, op["path"])
        if list(p for p, n in nodes_of(x) if n is nx) != [tuple(d["path"])]:
            return False
        a, b = getattr(nx, "fringe_integral"), getattr(nx, "fringe_integral_exit")
        ca, cb = getattr(ny, "fringe_integral"), getattr(ny, "fringe_integral_exit")
        if a.data_ptr() != b.data_ptr() or ca.data_ptr() == cb.data_ptr():
            return False
        u, v = d["_raw"]
        if u is None or v is None or u[0] != "T" or v[0] != "T":
            return False
        want = v[1] * op["value"]["mul"] + op["value"]["add"]
        return bool(torch.equal(u[1], getattr(nx, op["attr"]).detach())
                    and torch.allclose(u[1], want, rtol=4 * torch.finfo(u[1].dtype).eps, atol=0))
    except Exception:
        return False


def stays_equal(spec, rng, listed, loose=None):
    """The clone is an IDENTICAL copy: whatever sequence of assignments is applied to BOTH the original and the clone afterwards,
    they still agree on all observable state (after every step) and on tracking (after every step of a short sequence, at the end
    of a long one).  Returns (known tags, problems)."""
    known, bad = [], []
    dtype = getattr(torch, spec["dtype"].split(".")[-1])
    is_beam = spec["kind"] == "beam"
    for si, seq in enumerate(spec.get("post") or []):
        x = make(spec)
        try:
            y = x.clone()
        except Exception:
            return known, bad
        bspec = None if is_beam else gen_beam(rng, rng.choice(["particle", "parameter"]), dtype)[0]
        for k, op in enumerate(seq):
            ex, ey = apply_or_exc(x, op), apply_or_exc(y, op)
            done = "; ".join(op_text(o) for o in seq[:k + 1])
            if ex != ey:
                bad.append(f"the same assignment(s) [{done}] applied to the original and to its clone: the last one "
                           f"{'raises ' + ex if ex else 'succeeds'} on the original but {'raises ' + ey if ey else 'succeeds'} on the clone")
                break
            ox, oy = observe(x), observe(y)
            f12, f80, other = split_diffs(obs_diffs(ox, oy), ox, listed)
            known += ["F12-" + d["cls"] for d in f12] + (["F80-RBend"] if f80 else [])
            f85 = [d for d in other if "F85-Dipole" in listed and is_f85(d, op, x, y)]
            if f85:
                known.append("F85-Dipole")
                other = [d for d in other if d not in f85]
                if not other:
                    break               # the two objects now differ by the characterised amount: nothing further to compare in this sequence
            if other:
                bad.append(f"after the same assignment(s) [{done}] on the original and on its clone the two differ in observable "
                           f"state: {clean(other[:3])}")
                break
            if bspec is not None and not f12 and (len(seq) <= 3 or k == len(seq) - 1):
                tx, ty = track_or_exc(x, bspec, dtype), track_or_exc(y, bspec, dtype)
                if not same_track(tx, ty, loose or (2e3 * torch.finfo(dtype).eps if f80 else None)):
                    bad.append(f"after the same assignment(s) [{done}] on the original and on its clone the two track a "
                               f"{bspec['type']} beam differently ({ty if isinstance(ty, str) else 'values differ'})")
                    break
        if bad:
            bad.append(f"(sequence {si} of spec['post'])")
            break
    return known, bad


def examine(spec, rng, cheetah, light=False):
    """All C15 clauses for one case.  Returns (known tags, problems, clone or None)."""
    known, bad = [], []
    dtype = getattr(torch, spec["dtype"].split(".")[-1])
    is_beam = spec["kind"] == "beam"
    a = make(spec)
    has_sck = any(type(n).__name__ == "SpaceChargeKick" for _, n in nodes_of(a)) if not is_beam else False
    try:
        c = a.clone()
    except Exception as ex:
        msg = f"{type(ex).__name__}: {ex}"
        listed = {f.get("signature", {}).get("tag") for f in common.load_known_findings(PID) if f.get("status") == "known"}
        if "grid_shape" in msg and isinstance(ex, TypeError) and has_sck and "F12-SpaceChargeKick" in listed:
            return ["F12-SpaceChargeKick"], [], None
        return [], [f"clone() raised {msg[:200]}"], None
    if c is a:
        bad.append("clone() returned the same object")
    # ---- equal observable state (values, dtype, device), no object of the original inside the clone
    oa, oc = observe(a), observe(c)
    diffs = obs_diffs(oa, oc)
    # a difference is attributed to a listed finding only while that finding is listed with status "known" (F12 is fixed in /repo:
    # the same difference is now an ordinary violation with this input)
    listed = listed_tags()
    f12, f80, other = split_diffs(diffs, oa, listed)
    for d in f12:
        known.append("F12-" + d["cls"])
    if f80:
        known.append("F80-RBend")
    if other:
        bad.append(f"clone differs from the original in observable state: {clean(other[:3])}")
    if not is_beam:
        ida = {id(n) for _, n in nodes_of(a)}
        same = [list(p) for p, n in nodes_of(c) if id(n) in ida]
        if same:
            bad.append(f"the clone contains element objects of the original at {same[:3]}")
    sh = shared_storage(a, c)
    if sh:
        bad.append(f"clone shares tensor storage with the original: {sh[:3]}")
    loose = 2e3 * torch.finfo(dtype).eps if f80 else None
    # ---- identical behaviour
    if not is_beam and not other:
        for bt in ("particle", "parameter"):
            bspec, _ = gen_beam(rng, bt, dtype)
            ref = track_or_exc(make(spec), bspec, dtype)
            if isinstance(ref, str):
                continue
            out = track_or_exc(make(spec).clone(), bspec, dtype)
            if not same_track(ref, out, loose) and not f12:
                bad.append(f"clone tracks a {bt} beam differently ({out if isinstance(out, str) else 'values differ'})")
            elif f80 and not f12 and not J.beams_bit_equal(ref, out):
                known.append("F80-RBend")
    # ---- equal objects stay equal under equal operations (the same assignments applied to the original and to the clone)
    if not other and not f12 and spec.get("post"):
        k2, b2 = stays_equal(spec, rng, listed, loose)
        known += k2
        bad += b2
    # ---- independence under later mutation, both directions
    hows = ("inplace", "assign") if light else ("inplace", "data", "sgd", "assign")
    bspec = None if is_beam else gen_beam(rng, rng.choice(["particle", "parameter"]), dtype)[0]
    pspec = None if is_beam else realgen.gen_parameter_beam(rng)
    for how in hows:
        for direction in ("original", "clone"):
            x = make(spec)
            try:
                y = x.clone()
            except Exception:
                break
            victim, other_obj = (x, y) if direction == "original" else (y, x)
            t0 = track_or_exc(other_obj, bspec, dtype) if bspec else None
            before = observe(other_obj)
            try:
                mutate(victim, rng, cheetah, how, beam=realgen.build_beam(pspec, dtype=dtype) if pspec else None)
            except Exception:
                continue
            t1 = track_or_exc(other_obj, bspec, dtype) if bspec else None
            after = observe(other_obj)
            dd = obs_diffs(before, after)
            if dd:
                bad.append(f"modifying the {direction} ({how}) changed the other object: {clean(dd[:2])}")
            elif bspec and not same_track(t0, t1):
                bad.append(f"modifying the {direction} ({how}) changed how the other object tracks")
    return sorted(set(known)), bad, c


def shrink(spec, rng_seed, cheetah, light):
    """drop history operations / parameter flags while the case still fails"""
    import random

    def fails(s):
        try:
            _, bad, _ = examine(s, random.Random(rng_seed), cheetah, light)
            return bool(bad)
        except Exception:
            return False
    best = spec
    ops = list(spec.get("history", []))
    if len(ops) > 45 or not fails(best):
        return best
    post = list(best.get("post") or [])
    if post:
        # without any later assignment?  else: one sequence alone, then fewer assignments in it
        if fails(dict(best, post=[])):
            best = dict(best, post=[])
        else:
            for q in post:
                if fails(dict(best, post=[q])):
                    best = dict(best, post=[q])
                    j = 0
                    while j < len(q) and len(q) > 1:
                        t = q[:j] + q[j + 1:]
                        if fails(dict(best, post=[t])):
                            q = t
                            best = dict(best, post=[q])
                        else:
                            j += 1
                    break
    i = 0
    while i < len(ops):
        trial = dict(best, history=ops[:i] + ops[i + 1:])
        if fails(trial):
            ops = trial["history"]
            best = trial
        else:
            i += 1
    for k in list(best.get("param_kwargs", [])):
        trial = dict(best, param_kwargs=[q for q in best["param_kwargs"] if q != k])
        if fails(trial):
            best = trial
    return best


# ================================================================ stages
def digest(v):
    return json.dumps(introspect.describe(v), default=str, sort_keys=True)


def attr_digests(e, row):
    return [(p, digest(getattr(e, p)) if hasattr(e, p) else "<no attribute>") for p in introspect.settable(row)]


def report(run, known):
    for k in known:
        run.count("known_" + k)
        run.known(KNOWN_TEXT[k])


def element_cases(run, rows_l, cheetah, variants, surface_log):
    terms, cases, problems = [], [], []
    for row in rows_l:
        cls = getattr(cheetah, row["cname"])
        for dtype in (torch.float32, torch.float64):
            for variant in range(variants):
                vs = (3,) if variant % 3 == 2 and row["cname"] not in ("SpaceChargeKick", "Screen", "Segment") else None
                try:
                    kw, nd = introspect.probe_kwargs(cheetah, cls, variant, dtype, vs)
                    cls(**kw)
                except Exception as ex:
                    problems.append(({"cls": row["cname"], "variant": variant, "dtype": str(dtype)}, [f"could not build a probe: {type(ex).__name__}: {ex}"[:200]]))
                    continue
                spec = element_spec(row["cname"], kw, dtype)
                # variant 0: freshly constructed; 1: every settable attribute assigned (sweep); 2+: random history, parameters
                # given to the constructor
                if variant >= 2:
                    spec["param_kwargs"] = [k for k, v in kw.items() if isinstance(v, torch.Tensor) and v.dtype.is_floating_point
                                            and run.rng.random() < 0.4]
                if variant >= 1:
                    try:
                        spec["history"] = gen_history(run.rng, make(spec), sweep=(variant % 2 == 1), p_param=0.3, surface_log=surface_log, skipped_log=SKIPPED)
                    except Exception as ex:
                        problems.append((spec, [f"could not generate a history: {type(ex).__name__}: {ex}"[:200]]))
                        continue
                spec["post"] = gen_post(run.rng, spec, surface_log=surface_log)
                try:
                    known, bad, c = examine(spec, run.rng, cheetah)
                except Exception as ex:
                    known, bad, c = [], [f"examining the case raised {type(ex).__name__}: {ex}"[:300]], None
                desc = dict(spec, nondefault=nd)
                run.add_case(["elem", spec], len(nd) >= 2)
                count_post(run, spec)
                run.count("cls_" + row["cname"])
                run.count("dtype_" + str(dtype).split(".")[-1])
                run.count("vectorised" if vs else "scalar")
                run.count("history_ops", len(spec["history"]))
                run.count("history_ops_parameter", sum(1 for o in spec["history"] if o["param"]))
                run.count("case_with_history" if spec["history"] else "case_fresh")
                run.count("ctor_parameter_kwargs", len(spec["param_kwargs"]))
                report(run, known)
                if bad:
                    problems.append((desc, bad))
                    continue
                if "F80-RBend" in known:
                    continue                      # digests of rounded face angles are not comparable as strings
                # Coq case: model clone over digests of the CURRENT state (after the history)
                a = make(spec)
                try:
                    req = {p.name: kw[p.name] for p in introspect.signature(cls) if p.default is inspect.Parameter.empty and p.name in kw}
                    d0 = cls(**req)
                    dfl = attr_digests(d0, row)
                except Exception:
                    dfl = []
                obs = "None" if c is None else "(Some " + coq_list([f"({coq_string(p)}, {coq_string(v)})" for p, v in attr_digests(c, row)]) + ")"
                terms.append(f"mkc15 ({introspect.coq_row(row)}) " + coq_list([f"({coq_string(p)}, {coq_string(v)})" for p, v in attr_digests(a, row)]) + " "
                             + coq_list([f"({coq_string(p)}, {coq_string(v)})" for p, v in dfl]) + " " + obs)
                cases.append(desc)
    return terms, cases, problems


def count_post(run, spec):
    post = spec.get("post") or []
    run.count("same_ops_sequences", len(post))
    run.count("same_ops_single_assignment_sequences", sum(1 for q in post if len(q) == 1))
    run.count("same_ops_assignments", sum(len(q) for q in post))
    run.count("same_ops_inplace_update_sequences", sum(1 for q in post if q and q[0].get("inplace")))


def discrete_params(cls):
    """constructor parameters with finitely many values: booleans and Literals -> {name: [values]}"""
    out = {}
    for p in introspect.signature(cls):
        if p.name in ("device", "dtype", "name"):
            continue
        lit = introspect._literal_choices(p)
        if lit is not None and len(lit) > 1:
            out[p.name] = list(lit)
        elif isinstance(p.default, bool) or introspect._ann_str(p) == "bool":
            out[p.name] = [False, True]
    return out


def flag_cases(run, rows_l, cheetah, cap, surface_log):
    """every class with boolean / Literal constructor parameters: ALL combinations of their values (at most `cap`, sampled), the
    other parameters non-default; freshly constructed, cloned, then the same assignments on both (a flag that gates how another
    attribute reads back -- active/blocking, fringe_at/tracking_method -- is cloned in every combination, also the default ones)"""
    import itertools
    problems = []
    for row in rows_l:
        cls = getattr(cheetah, row["cname"])
        try:
            disc = discrete_params(cls)
        except Exception:
            continue
        if not disc or row["cname"] == "Segment":
            continue
        names = sorted(disc)
        combos = list(itertools.product(*[disc[n] for n in names]))
        if len(combos) > cap:
            combos = run.rng.sample(combos, cap)
        for ci, combo in enumerate(combos):
            dtype = (torch.float32, torch.float64)[ci % 2]
            try:
                kw, nd = introspect.probe_kwargs(cheetah, cls, ci % 3, dtype, None)
                kw.update(dict(zip(names, combo)))
                cls(**kw)
            except Exception:
                run.count("flag_combination_rejected_by_constructor")
                continue
            spec = element_spec(row["cname"], kw, dtype)
            spec["post"] = gen_post(run.rng, spec, surface_log=surface_log)
            try:
                known, bad, _ = examine(spec, run.rng, cheetah, light=True)
            except Exception as ex:
                known, bad = [], [f"examining the case raised {type(ex).__name__}: {ex}"[:300]]
            run.add_case(["flags", spec], True)
            run.count("flag_combination_cases")
            run.count("flag_combination_cls_" + row["cname"])
            count_post(run, spec)
            report(run, known)
            if bad:
                problems.append((spec, bad))
    return problems


def default_cases(run, rows_l, cheetah, surface_log):
    """every class x every optional constructor parameter LEFT AT ITS DEFAULT in turn (the others non-default): a default that is
    derived from, or shares a tensor with, another argument is cloned from an object that was built that way"""
    problems = []
    for row in rows_l:
        cls = getattr(cheetah, row["cname"])
        if row["cname"] == "Segment":
            continue
        try:
            sig = [p for p in introspect.signature(cls) if p.name not in ("device", "dtype", "name")]
        except Exception:
            continue
        optional = [p.name for p in sig if p.default is not inspect.Parameter.empty]
        for oi, o in enumerate(optional):
            dtype = (torch.float32, torch.float64)[oi % 2]
            try:
                kw, nd = introspect.probe_kwargs(cheetah, cls, oi % 3, dtype, None)
                kw.pop(o, None)
                cls(**kw)
            except Exception:
                run.count("default_case_rejected_by_constructor")
                continue
            spec = element_spec(row["cname"], kw, dtype)
            spec["post"] = gen_post(run.rng, spec, max_singles=6, surface_log=surface_log, max_inplace=24)
            try:
                known, bad, _ = examine(spec, run.rng, cheetah, light=True)
            except Exception as ex:
                known, bad = [], [f"examining the case raised {type(ex).__name__}: {ex}"[:300]]
            run.add_case(["default", spec], True)
            run.count("one_parameter_at_default_cases")
            count_post(run, spec)
            report(run, known)
            if bad:
                problems.append((spec, bad))
    return problems


def segment_cases(run, cheetah, n, surface_log):
    problems = []
    for i in range(n):
        lat = realgen.gen_lattice(run.rng, n_max=5, depth=run.rng.choice([0, 1, 2, 3]))
        J.uniquify(lat)
        if run.rng.random() < 0.35:
            # Segment explicitly supports several elements with one name (kept as a list under that attribute): give two or three
            # DIFFERENT leaf elements the same name, so that a clone that identifies elements by name is exposed
            leaves = []

            def collect(e):
                if e["cls"] == "Segment":
                    for c in e["es"]:
                        collect(c)
                else:
                    leaves.append(e)
            collect(lat)
            if len(leaves) >= 2:
                for e in run.rng.sample(leaves, min(len(leaves), run.rng.choice([2, 3]))):
                    e["name"] = "shared_name"
                run.count("segment_with_duplicate_names")
        dtype = run.rng.choice([torch.float32, torch.float64])
        if run.rng.random() < 0.3:
            J.vectorise(run.rng, lat, 3)
        spec = {"kind": "segment", "lattice": lat, "dtype": str(dtype), "history": []}
        try:
            make(spec)
        except Exception:
            run.count("segment_build_failed")
            continue
        if i % 4:
            try:
                spec["history"] = gen_history(run.rng, make(spec), n_ops=run.rng.randrange(1, 9), p_param=0.3, sweep=(i % 8 == 1),
                                              surface_log=surface_log, skipped_log=SKIPPED)
            except Exception as ex:
                problems.append((spec, [f"could not generate a history: {type(ex).__name__}: {ex}"[:200]]))
                continue
        spec["post"] = gen_post(run.rng, spec, max_singles=12, surface_log=surface_log)
        try:
            known, bad, _ = examine(spec, run.rng, cheetah)
        except Exception as ex:
            known, bad = [], [f"examining the case raised {type(ex).__name__}: {ex}"[:300]]
        run.add_case(["segment", spec], True)
        count_post(run, spec)
        run.count("segment_nested" if J.has_nested(lat) else "segment_flat")
        run.count("history_ops", len(spec["history"]))
        run.count("history_ops_parameter", sum(1 for o in spec["history"] if o["param"]))
        run.count("history_ops_via_handle", sum(1 for o in spec["history"] if any(s[0] == "h" for s in o["path"])))
        run.count("case_with_history" if spec["history"] else "case_fresh")
        report(run, known)
        if bad:
            problems.append((spec, bad))
    return problems


def beam_cases(run, cheetah, n, surface_log):
    problems = []
    for i in range(n):
        for bt in ("particle", "parameter"):
            for dtype in (torch.float32, torch.float64):
                b = realgen.gen_particle_beam(run.rng) if bt == "particle" else realgen.gen_parameter_beam(run.rng)
                if bt == "particle" and i % 2:
                    b["survival"] = [0.5 for _ in b["survival"]]
                spec = {"kind": "beam", "beam": b, "dtype": str(dtype), "history": []}
                if i % 3:
                    spec["history"] = gen_history(run.rng, make(spec), p_param=0.3, sweep=(i % 3 == 1), surface_log=surface_log, skipped_log=SKIPPED)
                spec["post"] = gen_post(run.rng, spec, surface_log=surface_log)
                try:
                    known, bad, _ = examine(spec, run.rng, cheetah)
                except Exception as ex:
                    known, bad = [], [f"examining the case raised {type(ex).__name__}: {ex}"[:300]]
                run.add_case(["beam", spec], True)
                count_post(run, spec)
                run.count("beam_" + bt)
                run.count("history_ops", len(spec["history"]))
                run.count("history_ops_parameter", sum(1 for o in spec["history"] if o["param"]))
                run.count("case_with_history" if spec["history"] else "case_fresh")
                if bad:
                    problems.append((spec, bad))
    return problems


# ================================================================ correspondence with the history model (Ops/CloneHistory.v)
def zq(v, unit):
    """an exactly representable float as an integer number of `unit`s"""
    q = float(v) / unit
    assert q == int(q), (v, unit)
    return int(q)


def bend_history_cases(run, cheetah, n):
    """RBend / Dipole histories over dyadic values (all float operations exact): the real element's face angles and angle after
    the history, and those of its clone, against the Coq model of stored state + derived attributes (exact integers, units of
    2^-10).  Returns (coq terms, descriptions, python-side problems)."""
    unit = 2.0 ** -10
    terms, descs = [], []
    rng = run.rng
    ATTRS = {"RBend": ["angle", "dipole_e1", "dipole_e2", "rbend_e1", "rbend_e2"], "Dipole": ["angle", "dipole_e1", "dipole_e2"]}
    for i in range(n):
        cname = "RBend" if i % 3 else "Dipole"
        dtype = rng.choice([torch.float32, torch.float64])
        dy = lambda: rng.randrange(-256, 257) * 2 * unit            # noqa: E731  even multiples: angle/2 stays on the grid
        ang, e1, e2 = dy(), dy(), dy()
        T = lambda v: torch.tensor(v, dtype=dtype)                   # noqa: E731
        if cname == "RBend":
            e = cheetah.RBend(length=T(0.5), angle=T(ang), rbend_e1=T(e1), rbend_e2=T(e2), name="b")
        else:
            e = cheetah.Dipole(length=T(0.5), angle=T(ang), dipole_e1=T(e1), dipole_e2=T(e2), name="b")
        ops = []
        for _ in range(rng.randrange(0, 7)):
            a = rng.choice(ATTRS[cname])
            v = dy()
            try:
                setattr(e, a, T(v))
            except Exception as ex:
                ops.append((a, v, type(ex).__name__))
                continue
            ops.append((a, v, None))
        try:
            c = e.clone()
        except Exception:
            c = None

        def ob(x):
            try:
                return "(Some " + coq_list([f"{zq(getattr(x, a), unit)}%Z" for a in ("angle", "dipole_e1", "dipole_e2")]) + ")"
            except Exception:
                return "None"
        good_ops = [(a, v) for a, v, ex in ops if ex is None]
        terms.append(f"mkhcase {'true' if cname == 'RBend' else 'false'} ({zq(ang, unit)}%Z) ({zq(e1, unit)}%Z) ({zq(e2, unit)}%Z) "
                     + coq_list([f"({coq_string(a)}, {zq(v, unit)}%Z)" for a, v in good_ops]) + f" {ob(e)} {ob(c) if c is not None else 'None'}")
        descs.append({"cls": cname, "dtype": str(dtype), "angle": ang, "e1": e1, "e2": e2, "ops": good_ops})
        run.count("history_model_case_" + cname)
    return terms, descs


def flag_history_cases(run, cheetah, n):
    """Screen(is_blocking, is_active): assignments to the two flags, clone, then the SAME assignments on original and clone; the
    triple (is_blocking, is_active, does a blocking-sensitive observer see the beam stopped?) of both after the clone and after
    every later assignment, against the Coq model of two plainly stored flags (Ops/CloneHistoryStay.v: gate_check, vm_compute)."""
    rng = run.rng
    B = lambda v: "true" if v else "false"      # noqa: E731
    beam = cheetah.ParameterBeam.from_parameters(total_charge=torch.tensor(1e-9))

    def view(scr):
        try:
            out = scr.track(beam)
            stopped = bool((out.total_charge == 0).all())
            return f"({B(bool(scr.is_blocking))}, {B(bool(scr.is_active))}, {B(stopped)})"
        except Exception:
            return None
    terms, descs = [], []
    for i in range(n):
        b0, a0 = (i & 1) == 1, (i & 2) == 2                  # all four constructor combinations in turn
        mk_ops = lambda k: [(rng.choice(["is_blocking", "is_active"]), rng.random() < 0.5) for _ in range(k)]   # noqa: E731
        pre = mk_ops(rng.randrange(0, 4))
        post = mk_ops(rng.randrange(1, 5))
        if i % 5 == 0:
            post = [("is_active", True)] + post
        desc = {"is_blocking": b0, "is_active": a0, "pre": pre, "post": post}
        obs = []
        try:
            scr = cheetah.Screen(is_blocking=b0, is_active=a0, name="s")
            for a, v in pre:
                setattr(scr, a, v)
            c = scr.clone()
            obs.append((view(scr), view(c)))
            for a, v in post:
                setattr(scr, a, v)
                setattr(c, a, v)
                obs.append((view(scr), view(c)))
        except Exception as ex:
            desc["raised"] = f"{type(ex).__name__}: {ex}"[:200]
            obs = [(None, None)]
        if any(x is None or y is None for x, y in obs):
            obs_t = "[]"                                           # an exception: the model (total) never matches an empty trace
        else:
            obs_t = coq_list([f"({x}, {y})" for x, y in obs])
        ops_t = lambda ops: coq_list([f"({'Blocking' if a == 'is_blocking' else 'Active'}, {B(v)})" for a, v in ops])   # noqa: E731
        terms.append(f"mkgcase {B(b0)} {B(a0)} {ops_t(pre)} {ops_t(post)} {obs_t}")
        descs.append(desc)
        run.count("flag_history_model_cases")
    return terms, descs


def main(tier, replay=None):
    warnings.filterwarnings("ignore")
    run = common.Run(PID, tier)
    cheetah = common.setup_python_env()
    thorough = tier == "thorough"
    J.TMP.mkdir(parents=True, exist_ok=True)
    run.cov["rule"] = ("every Element subclass of the regenerated class table x {float32,float64} x probes with a non-default value for EVERY "
                       "constructor parameter (driven by inspect.signature; every third probe vectorised), random nested segments of real "
                       "elements (also with duplicate names), both beam types; each case = construction + a HISTORY of valid assignments "
                       "through every settable public attribute found by introspection (buffers, parameters, plain attributes, properties "
                       "with setters over the MRO; sub-elements reached by index or through the segment's by-name handles), ~30% of the "
                       "assigned tensors and some constructor arguments being nn.Parameter.  Checked per case: clone vs original on ALL "
                       "observable state (buffers, parameters, public attributes, public properties; bit-equal, dtype, device), no shared "
                       "storage over every reachable tensor, bit-equal tracking of both beam types, independence under mutation in place "
                       "(no_grad add_, .data, one SGD step on a tracking loss) and by assignment, both directions; EQUAL OBJECTS STAY EQUAL "
                       "UNDER EQUAL OPERATIONS: after the clone, one single-assignment sequence for every settable attribute, a short and a "
                       "long random sequence are applied identically to original and clone (state compared after every step, tracking "
                       "after every step of a short sequence), plus the same IN-PLACE update mul_/add_ of each float tensor attribute on "
                       "both; every class with boolean / Literal constructor parameters also in ALL combinations of them, and with each "
                       "optional constructor parameter left at its default in turn; Screen flag histories against the Coq plain-flags model (gate_check); element clones also "
                       "compared with vm_compute of the Coq clone model over the class table, RBend/Dipole histories over dyadic values "
                       "with the Coq stored-state/derived-attribute model.  Non-trivial = >=2 non-default parameters; distinct by content.")
    if replay:
        return do_replay(run, replay)
    proof_ok = run.proof_stage()
    if not proof_ok:
        run.notes.append(run.proof_problem)
    rows_l = introspect.table(cheetah)
    tab = introspect.run_obligation(PID, rows_l)
    # second tie (class table, clone methods): re-translated from REPO's source text (ast only), proved to meet table_ok, to agree row by row
    # with the live-class table above and to equal the clone models of Ops/Clone.v (Gen/CloneGenEquiv.v)
    import translate_stage_clone
    trx = translate_stage_clone.translator_obligation_clone(run, live_rows=rows_l)
    if trx["status"] != "ok":
        run.notes.append("translator obligation (clone): " + json.dumps(translate_stage_clone.replay_fields_clone(trx))[:600])
    run.cov["obligations"] += 1
    run.cov["discharged"] += 1 if tab["ok"] else 0
    run.cov["class_table"] = {"classes": [r["cname"] for r in rows_l], "rejected": tab["rejected"], "offenders_present": tab["offenders_present"],
                              "offenders_gone": tab["offenders_gone"], "pinned_rows_changed": tab["pinned_differ"]}
    if tab["offenders_gone"]:
        run.cov["known_findings_not_reproduced"] += [f"F12:{c}" for c in tab["offenders_gone"]]
    rows = {r["cname"]: r for r in rows_l}

    surface_log = {}
    terms, cases, problems = element_cases(run, rows_l, cheetah, 12 if thorough else 5, surface_log)
    problems += flag_cases(run, rows_l, cheetah, 64 if thorough else 8, surface_log)
    problems += default_cases(run, rows_l, cheetah, surface_log)
    seg_problems = segment_cases(run, cheetah, 600 if thorough else 80, surface_log)
    beam_problems = beam_cases(run, cheetah, 40 if thorough else 6, surface_log)
    run.cov["assigned_surface"] = {k: sorted(v) for k, v in sorted(surface_log.items())}
    run.cov["undeclared_slots_not_assigned"] = {k: sorted(v) for k, v in sorted(SKIPPED.items())}
    if os.environ.get("VERIF_C15_DEBUG"):
        for sp, bad in problems + seg_problems + beam_problems:
            print("DEBUG problem:", json.dumps(sp, default=str)[:600], "\n   ", bad)
    run.sample(cases[0] if cases else {})
    failing = common.run_shards(PID, "clone", PREAMBLE, terms, "c15_check", shard=60)
    run.cov["traces_validated_against_impl"] += len(terms)
    hterms, hdescs = bend_history_cases(run, cheetah, 1500 if thorough else 150)
    hfailing = common.run_shards(PID, "history", PREAMBLE, hterms, "hist_check", shard=250)
    run.cov["traces_validated_against_impl"] += len(hterms)
    try:
        gterms, gdescs = flag_history_cases(run, cheetah, 600 if thorough else 80)
    except Exception as ex:
        gterms, gdescs = [], []
        run.notes.append(f"flag histories could not be generated: {type(ex).__name__}: {ex}"[:300])
    gfailing = common.run_shards(PID, "flags", PREAMBLE, gterms, "gate_check", shard=250) if gterms else []
    run.cov["traces_validated_against_impl"] += len(gterms)
    replay_known(run, rows, cheetah)
    run.cov["tested_only"] = ["equal objects stay equal under equal later assignments: proved for the state model (congruence: C15_clone_stays_equal_*), "
                              "refuted for a getter gated by another attribute (C15_gated_getter_refuted); on the implementation it is tested for "
                              "every case with the recorded `post` sequences (all observable state after every step, tracking)",
                              "PARTIAL: storage independence (no shared tensor storage; later mutation of one object never shows in the other) is a runtime "
                              "fact that the Coq model does not represent; it is tested on every case (data_ptr disjointness over every reachable "
                              "tensor + mutation both ways: in place, .data, SGD step, assignment), also with nn.Parameter attributes",
                              "bit-equal tracking of clone vs original (in the model a consequence of equal state; tested with both beam types)",
                              "dtype/device preservation (float32/float64) of every cloned tensor",
                              "equality of ALL observable state after arbitrary assignment histories for classes other than RBend/Dipole (for these two "
                              "the stored-state model is proved and compared by vm_compute)",
                              "whether the clone of an nn.Parameter attribute is again a leaf nn.Parameter is NOT specified by the property and not "
                              "checked (on the current tree it is a non-leaf tensor requiring grad); value, dtype, storage, tracking, independence are"]

    allp = problems + seg_problems + beam_problems
    if allp:
        spec, bad = allp[0]
        if isinstance(spec, dict) and "kind" in spec:
            small = shrink({k: v for k, v in spec.items() if k != "nondefault"}, 12345, cheetah, False)
            try:
                import random
                _, bad2, _ = examine(small, random.Random(12345), cheetah)
                if bad2:
                    spec, bad = small, bad2
            except Exception:
                pass
        run.violation(dict(spec, case_kind=spec.get("kind"), kind="clone", problems=bad,
                           relation="x.clone() after any history of assignments: same type, equal observable state, same dtype, no shared "
                                    "storage, same tracking, still equal (state and tracking) after the same later assignments "
                                    "(spec['post']) on both, independent under later mutation of one of them"))
    elif not tab["ok"]:
        found = None
        for name in (tab["rejected"] or []):
            if name in rows:
                found = introspect.find_lost_attribute(cheetah, rows[name], lambda e: e.clone())
                if found:
                    break
        if found:
            run.violation({"kind": "class", "element": found, "broken": tab["log"][:300],
                           "relation": "a constructor parameter given a non-default value survives clone() (class_ok obligation)"})
        else:
            run.violation({"kind": "class_table", "broken": tab["log"] or "table_ok class_table = true not provable", "rejected": tab["rejected"]}, no_input=True)
    elif hfailing:
        run.violation({"kind": "history_correspondence", "broken": "Coq model Ops/CloneHistory.v (hist_check) disagrees with the real RBend/Dipole: "
                       "state after a history of assignments, or the state of its clone", "bend_history": hdescs[hfailing[0]],
                       "relation": "angle, dipole_e1, dipole_e2 of the element after the history and of its clone equal the model's"})
    elif gfailing:
        d = gdescs[gfailing[0]]
        run.violation({"kind": "flag_history_correspondence", "broken": "Coq model Ops/CloneHistoryStay.v (gate_check: two plainly stored flags) "
                       "disagrees with the real Screen: is_blocking / is_active / beam stopped, on the original or on its clone, after the clone "
                       "or after one of the later assignments made to both", "screen_flag_history": d,
                       "relation": "Screen(is_blocking, is_active); pre assignments; clone; the same post assignments on both: both read the "
                                   "assigned flags and stop the beam iff active and blocking, after every step"})
    elif failing:
        run.violation({"kind": "correspondence", "broken": "Coq model Ops/Clone.v (c15_check) disagrees with Element.clone on this element",
                       "element": cases[failing[0]]}, no_input=True)
    elif trx["status"] != "ok":
        run.violation(translate_stage_clone.replay_fields_clone(trx), no_input=True)
    elif not proof_ok:
        run.violation({"kind": "proof", "broken": run.proof_problem}, no_input=True)
    return run.finish("proof")


def spec_from_old_element(el):
    """replay entries written before histories existed: {"cls":..., "kwargs": describe_kwargs(...)}"""
    kw = introspect.kwargs_from_description(el["kwargs"])
    dtype = kw.get("dtype", torch.float32)
    return element_spec(el["cls"], kw, dtype)


def replay_known(run, rows, cheetah):
    for f in common.load_known_findings(PID):
        if f.get("status") != "known":
            continue
        r = f["replay"]
        try:
            spec = r["case"] if "case" in r else spec_from_old_element(r["element"])
            known, bad, _ = examine(spec, run.rng, cheetah, light=True)
        except Exception as ex:
            known, bad = [], [str(ex)]
        if f["signature"]["tag"] in known:
            run.known(f["what"])
        else:
            run.cov["known_findings_not_reproduced"].append(f["id"] + ":" + f["signature"]["tag"])


def do_replay(run, path):
    import random
    cheetah = common.setup_python_env()
    r = json.loads(open(path).read())
    if r.get("kind") == "history_correspondence":
        d = r["bend_history"]
        T = lambda v: torch.tensor(v, dtype=getattr(torch, d["dtype"].split(".")[-1]))   # noqa: E731
        if d["cls"] == "RBend":
            e = cheetah.RBend(length=T(0.5), angle=T(d["angle"]), rbend_e1=T(d["e1"]), rbend_e2=T(d["e2"]))
        else:
            e = cheetah.Dipole(length=T(0.5), angle=T(d["angle"]), dipole_e1=T(d["e1"]), dipole_e2=T(d["e2"]))
        for a, v in d["ops"]:
            setattr(e, a, T(v))
        c = e.clone()
        bad = [a for a in ("angle", "dipole_e1", "dipole_e2") if not torch.equal(getattr(e, a), getattr(c, a))]
        print("replay:", f"property FAILS on this input: clone differs in {bad}" if bad else "the clone equals the original on this input (the model disagreed about the state itself)")
        return 1
    if r.get("kind") == "flag_history_correspondence":
        d = r["screen_flag_history"]
        scr = cheetah.Screen(is_blocking=d["is_blocking"], is_active=d["is_active"], name="s")
        for a, v in d["pre"]:
            setattr(scr, a, v)
        c = scr.clone()
        beam = cheetah.ParameterBeam.from_parameters(total_charge=torch.tensor(1e-9))
        bad = []
        for k, (a, v) in enumerate([(None, None)] + [tuple(x) for x in d["post"]]):
            if a:
                setattr(scr, a, v)
                setattr(c, a, v)
            va = (bool(scr.is_blocking), bool(scr.is_active), bool((scr.track(beam).total_charge == 0).all()))
            vc = (bool(c.is_blocking), bool(c.is_active), bool((c.track(beam).total_charge == 0).all()))
            if va != vc:
                bad.append(f"after {k} later assignment(s): original (is_blocking, is_active, beam stopped) = {va}, clone {vc}")
        print("replay:", f"property FAILS on this input: {bad[:2]}" if bad else "original and clone agree on this input (the model disagreed with both)")
        return 1
    spec = None
    if r.get("case_kind") in ("element", "segment", "beam"):
        spec = {k: r[k] for k in ("cls", "kwargs", "lattice", "beam", "dtype", "history", "param_kwargs", "post") if k in r}
        spec["kind"] = r["case_kind"]
    elif "lattice" in r:
        spec = {"kind": "segment", "lattice": r["lattice"], "dtype": r["dtype"], "history": r.get("history", []), "post": r.get("post", [])}
    elif "beam" in r:
        spec = {"kind": "beam", "beam": r["beam"], "dtype": r["dtype"], "history": r.get("history", []), "post": r.get("post", [])}
    elif isinstance(r.get("element"), dict) and "kwargs" in r["element"]:
        spec = spec_from_old_element(r["element"])
    elif "cls" in r and "kwargs" in r:
        spec = spec_from_old_element(r)
    if spec is None:
        print("replay: nothing to replay (no failing input was recorded):", r.get("broken"))
        return 1
    known, bad, _ = examine(spec, random.Random(12345), cheetah)
    if r.get("kind") == "class" and not bad:
        e = make(spec)
        c = e.clone()
        q = r["element"].get("parameter")
        if q and not introspect.same_value(getattr(e, q), getattr(c, q)):
            bad = [f"clone() lost {q}"]
    print("replay:", "property holds on this input" if not bad and not known else f"property FAILS on this input: {bad or known}")
    return 1 if (bad or known) else 0
