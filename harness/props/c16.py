"""C16 -- Splitting an element preserves its length and its action.

Stages: proof (Props/C16.v) -> exact correspondence of the piece count / piece lengths / piece angles of the real
split() with the rational model (vm_compute of Lattice/Split.c16_check; float64 values as exact rationals) ->
property oracle on the implementation alone (sums, bounds, dtype, attributes, sequential tracking of the pieces vs the
whole, unsplittable classes, segments, vectorised lengths) -> known findings -> verdict.

Finding F29 (a zero-length corrector with an angle splits into NO pieces).  Lattice/Split.v holds two transcriptions: `split`
(the code before the repair: num_splits = 0 gives []) and `split_fixed` (the repaired correctors return [self] when
num_splits < 1).  Which one is the faithful model is decided by the STATUS of F29 in known_findings.json:
  known -> model `split` (checker c16_check); a thin corrector that loses its angle is a KNOWN-FINDING; the segment generator
           avoids thin correctors with an angle.  If the code already behaves like `split_fixed` the run stays quiet and notes
           that the status is stale.
  fixed -> model `split_fixed` (checker c16_check_fixed); thin correctors with an angle are ordinary cases (one piece, the
           element itself, whole angle, tracking the pieces == tracking the whole) and are generated inside segments too; the
           stored input of F29 is replayed as a regression test: if it fails again -> VIOLATION with that input.
"""
import json
import math
from fractions import Fraction

import torch

import common
import realgen
from common import coq_list, qlit

PID = "C16"
PREAMBLE = """From Coq Require Import List String ZArith QArith.
From Cheetah Require Import Lattice.Split.
Import ListNotations. Open Scope Q_scope."""
DT = torch.float64
SPLITTABLE = ("Drift", "Quadrupole", "HorizontalCorrector", "VerticalCorrector")
STATE = {"f29_known": True}      # set by main() from the status of F29 in known_findings.json
F29_BACK = "the repaired defect F29 is back: a zero-length (thin) corrector with angle != 0 loses its deflection angle when split"
F29_TEXT = ("a zero-length (thin) Horizontal/VerticalCorrector with angle != 0 splits into NO pieces (num_splits = ceil(0/res) = 0): "
            "the deflection angle is lost [F29]")


def finding_status(fid):
    """'known' / 'fixed' / None (not listed) for finding `fid` of this property in known_findings.json"""
    st = [f.get("status") for f in common.load_known_findings(PID) if f.get("id") == fid]
    if "known" in st:
        return "known"
    return st[0] if st else None


def f29_signature(c, n):
    """class + parameter predicate + observable of F29: thin corrector, angle != 0, NO piece"""
    return c["cls"].endswith("Corrector") and c["L"] == 0.0 and c.get("angle", 0.0) != 0.0 and n == 0


def make(cls, L, res_unused=None, angle=0.0, k1=0.0, mis=(0.0, 0.0), tilt=0.0, steps=1, method="cheetah", dtype=DT):
    import cheetah
    t = lambda x: torch.tensor(x, dtype=dtype)  # noqa: E731
    if cls == "Drift":
        return cheetah.Drift(t(L), tracking_method=method, dtype=dtype)
    if cls == "Quadrupole":
        return cheetah.Quadrupole(t(L), t(k1), misalignment=t(list(mis)), tilt=t(tilt), num_steps=steps, tracking_method=method, dtype=dtype)
    if cls == "HorizontalCorrector":
        return cheetah.HorizontalCorrector(t(L), t(angle), dtype=dtype)
    if cls == "VerticalCorrector":
        return cheetah.VerticalCorrector(t(L), t(angle), dtype=dtype)
    raise ValueError(cls)


def make_case(c, dtype=DT):
    return make(c["cls"], c["L"], angle=c.get("angle", 0.0), k1=c.get("k1", 0.0), mis=c.get("mis", (0.0, 0.0)), tilt=c.get("tilt", 0.0),
                steps=c.get("steps", 1), method=c.get("method", "cheetah"), dtype=dtype)


# ---------------------------------------------------------------- exact correspondence
def gen_len_res(rng):
    """(L, res) float64 pairs: generic, res > L, dividing exactly, non-dividing, ratio within an ulp of an integer, L = 0"""
    mode = rng.choice(["generic", "generic", "coarse", "dividing", "near_integer", "near_integer", "zero", "tiny_res"])
    if mode == "generic":
        return rng.choice([0.1, 0.25, 0.37, 0.5, 1.0, 2.0, 3.3]) * rng.choice([1.0, 1.0, 0.7, 1.9]), rng.choice([0.01, 0.05, 0.1, 0.2, 0.3, 0.75]), mode
    if mode == "coarse":
        L = rng.choice([0.1, 0.25, 0.5, 1.0])
        return L, L * rng.choice([1.0, 1.5, 10.0]), mode
    if mode == "dividing":
        res = rng.choice([0.125, 0.25, 0.5])
        return res * rng.randrange(1, 9), res, mode
    if mode == "near_integer":
        res = rng.choice([0.1, 0.2, 0.3, 0.7, 0.01])
        k = rng.randrange(1, 12)
        L = res * k
        for _ in range(rng.randrange(0, 3)):
            L = math.nextafter(L, rng.choice([0.0, 10.0 * L]))
        return L, res, mode
    if mode == "zero":
        return 0.0, rng.choice([0.1, 1.0]), mode
    return rng.choice([0.5, 1.0]), rng.choice([0.003, 0.0071]), mode


def exact_n(L, res, cls=""):
    """piece count of the faithful model (split / split_fixed by the status of F29)"""
    n = max(0, math.ceil(Fraction(L) / Fraction(res)))
    if n < 1 and cls.endswith("Corrector") and not STATE["f29_known"]:
        return 1                   # repaired correctors: num_splits < 1 -> [self]
    return n


def gen_case(rng):
    cls = rng.choice(SPLITTABLE)
    L, res, mode = gen_len_res(rng)
    c = {"cls": cls, "L": L, "res": res, "mode": mode}
    if cls == "Quadrupole":
        c.update(k1=rng.choice(realgen.K1), mis=rng.choice(realgen.MIS), tilt=rng.choice(realgen.TILT), steps=rng.choice([1, 2, 5]),
                 method=rng.choice(["cheetah", "bmadx"]))
    elif cls == "Drift":
        c.update(method=rng.choice(["cheetah", "bmadx"]))
    else:
        c.update(angle=rng.choice([0.0, 1e-3, -2e-3, 0.01, 0.37]))
    return c


def observe(c):
    e = make_case(c)
    ps = e.split(torch.tensor(c["res"], dtype=DT))
    return [(float(p.length), float(getattr(p, "angle", torch.tensor(0.0)))) for p in ps], e, ps


KIND = {"Drift": 0, "Quadrupole": 0, "HorizontalCorrector": 1, "VerticalCorrector": 2}


def coq_case_kind(c, pieces):
    """term for c16_check_fixed / c16_check_old: (kind of element, case)"""
    return f"({KIND[c['cls']]}%nat, {coq_case(c, pieces)})"


def coq_case(c, pieces):
    return (f"mkc16 {qlit(c['L'])} {qlit(c['res'])} {qlit(c.get('angle', 0.0))} "
            f"{coq_list(['(' + qlit(l) + ', ' + qlit(a) + ')' for l, a in pieces])}")


# ---------------------------------------------------------------- property oracle
def has_nan(beam):
    return any(bool(torch.isnan(t).any()) for t in beam.buffers())


def piece_attr_problems(c, e, ps):
    import cheetah
    bad = []
    for p in ps:
        if type(p) is not type(e):
            bad.append(f"piece has class {type(p).__name__}, element {type(e).__name__}")
            break
        if p.length.dtype != e.length.dtype:
            bad.append(f"piece dtype {p.length.dtype} != element dtype {e.length.dtype}")
            break
        if isinstance(e, (cheetah.Drift, cheetah.Quadrupole)) and p.tracking_method != e.tracking_method:
            bad.append("piece lost the tracking method")
            break
        if isinstance(e, cheetah.Quadrupole):
            if not (torch.equal(p.k1, e.k1) and torch.equal(p.misalignment, e.misalignment) and torch.equal(p.tilt, e.tilt) and p.num_steps == e.num_steps):
                bad.append("quadrupole piece differs in k1 / misalignment / tilt / num_steps")
                break
    return bad


def oracle_case(c, rng, beams):
    """Returns (known: list of texts, bad: list of strings) for one splittable case."""
    known, bad = [], []
    pieces, e, ps = observe(c)
    L, res = c["L"], c["res"]
    n = len(ps)
    tot = sum(l for l, _ in pieces)
    if abs(tot - L) > 1e-12 * max(1.0, L):
        bad.append(f"sum of piece lengths {tot} != length {L}")
    if any(l > res * (1 + 4e-16) for l, _ in pieces):
        bad.append(f"a piece is longer than the resolution: {max(l for l, _ in pieces)} > {res}")
    if L > 0 and n >= 1 and (n - 1) * Fraction(res) >= Fraction(L) * (1 + Fraction(1, 2 ** 50)):
        bad.append(f"{n} pieces although {n - 1} would do")
    bad += piece_attr_problems(c, e, ps)
    if c["cls"].endswith("Corrector"):
        asum = sum(a for _, a in pieces)
        if abs(asum - c["angle"]) > 1e-12 * max(1e-6, abs(c["angle"])):
            if f29_signature(c, n) and STATE["f29_known"]:
                known.append(F29_TEXT)
            else:
                bad.append(f"sum of piece angles {asum} != angle {c['angle']}" + (f" ({F29_BACK} [F29 is listed fixed])" if f29_signature(c, n) else ""))
        elif L == 0.0:
            # a thin corrector is a pure kick: here "tracking the pieces in turn equals tracking the whole" is part of the property
            # (a corrector WITH a length is drift-then-kick, its pieces kick earlier: only the angles are compared, see oracle_dup_segment)
            for bname, b in beams:
                try:
                    whole = e.track(b)
                    out = b
                    for p in ps:
                        out = p.track(out)
                except Exception as ex:
                    bad.append(f"tracking raised {type(ex).__name__}: {ex}")
                    continue
                d = realgen.beams_close(out, whole, rtol=1e-9, atol=1e-13)
                if d:
                    bad.append(f"thin corrector: tracking the {n} pieces in turn differs from tracking the whole ({bname} beam): {d}")
    else:
        for bname, b in beams:
            if c.get("method") == "bmadx" and bname != "particle":
                continue
            try:
                whole = e.track(b)
                out = b
                for p in ps:
                    out = p.track(out)
            except Exception as ex:
                bad.append(f"tracking raised {type(ex).__name__}: {ex}")
                continue
            if has_nan(whole):
                continue           # Bmad-X Quadrupole(length=0) -> NaN: finding F8 (C09), unspecified here
            d = realgen.beams_close(out, whole, rtol=1e-9, atol=1e-13)
            if d:
                bad.append(f"tracking the {n} pieces in turn differs from tracking the whole ({bname} beam): {d}")
    return known, bad


def oracle_misc(run):
    """unsplittable classes, segments, vectorised lengths, dtype"""
    import cheetah
    bad = []
    res = torch.tensor(0.1, dtype=DT)
    for cls in realgen.CLASSES:
        if cls in SPLITTABLE:
            continue
        e = realgen.build(realgen.gen_element(run.rng, cls=cls, name="u"))
        ps = e.split(res)
        run.count("unsplittable_" + cls)
        if not (len(ps) == 1 and ps[0] is e):
            bad.append({"kind": "unsplittable", "cls": cls, "what": f"{cls}.split() is not [self]"})
    # segments: concatenation of the elements' splits, nested
    for _ in range(10):
        lat = realgen.gen_lattice(run.rng, n_max=5, depth=2)
        seg = realgen.build(lat)
        r = torch.tensor(run.rng.choice([0.05, 0.2, 0.3]), dtype=DT)
        got = seg.split(r)

        def ref(e):
            if isinstance(e, cheetah.Segment):
                return [x for c in e.elements for x in ref(c)]
            return e.split(r)
        exp = ref(seg)
        same = len(got) == len(exp) and all(type(a) is type(b) and torch.equal(torch.as_tensor(a.length), torch.as_tensor(b.length)) for a, b in zip(got, exp))
        tot_g = sum(float(torch.as_tensor(p.length).sum()) for p in got)
        tot = float(torch.as_tensor(seg.length).sum())
        run.count("segment_split")
        run.add_case(["segment", lat, float(r)], True)
        if not same or abs(tot_g - tot) > 1e-12 * max(1.0, tot):
            bad.append({"kind": "segment", "lattice": lat, "res": float(r), "what": "Segment.split is not the concatenation of its elements' splits / lengths do not add up"})
    # vectorised lengths
    for cls in SPLITTABLE:
        Ls = torch.tensor([0.3, 0.7, 0.05], dtype=DT)
        r = torch.tensor(0.25, dtype=DT)
        kw = dict(angle=1e-3) if cls.endswith("Corrector") else {}
        e = make(cls, Ls.tolist(), **kw)
        ps = e.split(r)
        tot = sum(p.length for p in ps) if ps else torch.zeros(3, dtype=DT)
        run.count("vectorised_" + cls)
        if len(ps) != 3 or not torch.allclose(tot, Ls, rtol=1e-13, atol=0) or any(bool((p.length > r * (1 + 4e-16)).any()) for p in ps):
            bad.append({"kind": "vectorised", "cls": cls, "what": "vectorised lengths: wrong count / sum / bound", "n": len(ps)})
    # thin correctors with vectorised (all zero) lengths and vectorised angles: kept as they are (only once F29 is repaired)
    if not STATE["f29_known"]:
        for cls in ("HorizontalCorrector", "VerticalCorrector"):
            e = make(cls, [0.0, 0.0], angle=[1e-3, -2e-3])
            ps = e.split(torch.tensor(0.25, dtype=DT))
            run.count("vectorised_thin_" + cls)
            asum = sum(p.angle for p in ps) if ps else torch.zeros(2, dtype=DT)
            if len(ps) != 1 or not torch.equal(asum, e.angle) or not torch.equal(ps[0].length, e.length):
                bad.append({"kind": "vectorised", "cls": cls, "what": "thin corrector with vectorised lengths [0, 0] / angles: the pieces' angles do not add up "
                            "to the angles (F29 is listed fixed)", "n": len(ps)})
    # dtype float32
    for cls in SPLITTABLE:
        e = make(cls, 0.5, dtype=torch.float32)
        for r in (torch.tensor(0.2, dtype=torch.float32), torch.tensor(0.2, dtype=torch.float64), 0.2):
            ps = e.split(r)
            run.count("dtype_float32_" + cls)
            if len(ps) != 3 or any(b.dtype != torch.float32 for p in ps for b in p.buffers() if b.is_floating_point()):
                bad.append({"kind": "dtype", "cls": cls, "what": "float32 element: pieces are not float32 (or wrong count)", "n": len(ps)})
    return bad


# ---------------------------------------------------------------- segments whose elements share names
DUP_CLASSES = ["Drift", "Drift", "Drift", "Quadrupole", "Quadrupole", "Quadrupole", "HorizontalCorrector", "VerticalCorrector", "Dipole",
               "Solenoid", "Marker"]
DUP_LEN = [0.1, 0.25, 0.37, 0.5, 1.0]


def gen_dup_lattice(rng, depth, thin_kickers=False):
    """A segment in which DIFFERENT elements carry the SAME name (Cheetah does not enforce unique names; Segment exposes homonyms
    as a list attribute), at top level and inside sub-segments; sub-segments may share a name with each other or with a leaf;
    {"ref": i} repeats the very same instance as sibling i (FODO style).  thin_kickers (only once finding F29 is repaired):
    some correctors are zero-length with an angle -- a pure kick that Segment.split must keep."""
    def leaf(name):
        e = realgen.gen_element(rng, cls=rng.choice(DUP_CLASSES), name=name, length_pool=DUP_LEN)
        if "k1" in e["kw"]:
            e["kw"]["k1"] = rng.choice([0.0, 0.5, -0.5, 2.0, -3.0, 1e-3])
        if e["cls"].endswith("Corrector") and rng.random() < 0.5:
            e["kw"]["angle"] = 0.0
        if thin_kickers and e["cls"].endswith("Corrector") and rng.random() < 0.5:
            e["kw"]["length"] = 0.0
            e["kw"]["angle"] = rng.choice([1e-3, -2e-3, 0.01])
        return e

    def seg(d, name):
        names = rng.choice([["D"], ["D", "Q"], ["D", "Q", "M"]])
        es = [leaf(rng.choice(names)) for _ in range(rng.randrange(2, 6))]
        if d > 0:
            for _ in range(rng.randrange(1, 3)):
                es.insert(rng.randrange(0, len(es) + 1), seg(d - 1, rng.choice(["cell", "cell", "D"])))
        if rng.random() < 0.4:
            i = rng.randrange(0, len(es))
            if "ref" not in es[i]:
                es.append({"ref": i})
        return {"cls": "Segment", "name": name, "es": es}
    return seg(depth, "root")


def build_dup(spec):
    import cheetah
    if spec["cls"] != "Segment":
        return realgen.build(spec)
    built = []
    for c in spec["es"]:
        built.append(built[c["ref"]] if "ref" in c else build_dup(c))
    return cheetah.Segment(built, name=spec["name"])


def _thin_kicker(spec):
    if spec.get("cls") == "Segment":
        return any(_thin_kicker(c) for c in spec["es"])
    return "ref" not in spec and spec["cls"].endswith("Corrector") and spec["kw"]["angle"] != 0.0 and spec["kw"]["length"] == 0.0


def _thick_kicker(spec):
    if spec.get("cls") == "Segment":
        return any(_thick_kicker(c) for c in spec["es"])
    return "ref" not in spec and spec["cls"].endswith("Corrector") and spec["kw"]["angle"] != 0.0 and spec["kw"]["length"] != 0.0


def has_homonyms(spec):
    """two different children of one segment share a name"""
    if spec.get("cls") != "Segment":
        return False
    names = [c["name"] for c in spec["es"] if "ref" not in c]
    return len(set(names)) < len(names) or any(has_homonyms(c) for c in spec["es"])


def oracle_dup_segment(spec, res, beams):
    """Segment.split == concatenation of each occurrence's own split (piece by piece: class and every buffer), lengths add up,
    no piece longer than the resolution, tracking the pieces in turn == tracking the segment.  Returns a list of failures."""
    import cheetah
    bad = []
    r = torch.tensor(res, dtype=DT)
    try:
        seg = build_dup(spec)
        got = seg.split(r)
    except Exception as ex:
        return [f"building / splitting the segment raised {type(ex).__name__}: {ex}"[:300]]

    def ref(e):
        if isinstance(e, cheetah.Segment):
            return [x for c in e.elements for x in ref(c)]
        return e.split(r)
    exp = ref(seg)
    if len(got) != len(exp):
        bad.append(f"{len(got)} pieces, the elements' own splits give {len(exp)}")
    else:
        for i, (a, b) in enumerate(zip(got, exp)):
            ba, bb = dict(a.named_buffers()), dict(b.named_buffers())
            if type(a) is not type(b) or ba.keys() != bb.keys() or not all(torch.equal(ba[k], bb[k]) for k in ba):
                d = [k for k in ba if k in bb and not torch.equal(ba[k], bb[k])]
                bad.append(f"piece {i} ({type(a).__name__} {a.name!r}) is not a piece of the element at that position "
                           f"({type(b).__name__} {b.name!r}); differing: {d[:3]}")
                break
    tot_g = sum(float(torch.as_tensor(p.length).sum()) for p in got)
    tot = float(torch.as_tensor(seg.length).sum())
    if abs(tot_g - tot) > 1e-12 * max(1.0, tot):
        bad.append(f"piece lengths add up to {tot_g}, segment length is {tot}")
    if any(float(p.length) > res * (1 + 4e-16) for p in got if type(p).__name__ in SPLITTABLE):
        bad.append("a piece of a splittable element is longer than the resolution")

    def kicks(es):
        t = {"HorizontalCorrector": [0.0, 0.0], "VerticalCorrector": [0.0, 0.0]}       # class -> [sum, sum of magnitudes]
        for x in es:
            if isinstance(x, cheetah.Segment):
                for k, v in kicks(x.elements).items():
                    t[k][0] += v[0]
                    t[k][1] += v[1]
            elif type(x).__name__ in t:
                t[type(x).__name__][0] += float(x.angle)
                t[type(x).__name__][1] += abs(float(x.angle))
        return t
    # Segment.split never loses a kick (Coq: split_fixed_total_angle).  While F29 is known the generator makes no thin kicker.
    kw, kp = kicks(seg.elements), kicks(got)
    for k in kw:
        if abs(kw[k][0] - kp[k][0]) > 1e-12 * max(1e-6, kw[k][1]):
            bad.append(f"the {k} angles of the pieces add up to {kp[k][0]}, those of the segment's elements to {kw[k][0]}")
    bmadx = any(getattr(p, "tracking_method", "") == "bmadx" for p in exp)
    # a corrector with a length is drift-then-kick: its pieces kick earlier than the whole, so C16 only states that the piece
    # angles add up (checked piece by piece above); the tracking clause is for segments without such a kicker
    thick_kicker = any(type(p).__name__.endswith("Corrector") and float(p.angle) != 0.0 and float(p.length) != 0.0 for p in exp)
    for bname, b in beams:
        if (bmadx and bname != "particle") or thick_kicker:
            continue
        try:
            whole = seg.track(b)
        except Exception:
            continue                                   # the segment itself cannot track this beam: nothing to compare with
        try:
            out = b
            for p in got:
                out = p.track(out)
        except Exception as ex:
            bad.append(f"tracking the pieces raised {type(ex).__name__}: {ex}"[:300])
            continue
        if has_nan(whole):
            continue
        for k, x in whole.named_buffers():
            y = dict(out.named_buffers()).get(k)
            tol = 1e-9 * max(1e-30, float(x.abs().max())) + 1e-15
            if y is None or x.shape != y.shape or not float((x - y).abs().max()) <= tol:
                bad.append(f"tracking the {len(got)} pieces in turn differs from tracking the segment ({bname} beam, {k}: "
                           f"{'shape' if y is None or x.shape != y.shape else float((x - y).abs().max())})")
                break
    return bad


def shrink_dup(spec, res, beams):
    """drop children (keeping {"ref": i} consistent) while the segment keeps failing"""
    def drop(s, path):
        import copy
        t = copy.deepcopy(s)
        node = t
        for i in path[:-1]:
            node = node["es"][i]
        k = path[-1]
        if len(node["es"]) <= 1 or any(c.get("ref") == k for c in node["es"]):
            return None
        del node["es"][k]
        for c in node["es"]:
            if "ref" in c and c["ref"] > k:
                c["ref"] -= 1
        return t

    def paths(s, p=()):
        for i, c in enumerate(s.get("es", [])):
            yield p + (i,)
            if c.get("cls") == "Segment":
                yield from paths(c, p + (i,))
    changed = True
    while changed:
        changed = False
        for p in list(paths(spec)):
            t = drop(spec, p)
            if t is not None and oracle_dup_segment(t, res, beams):
                spec, changed = t, True
                break
    return spec


def oracle_dup(run, beams, n):
    bad = []
    for i in range(n):
        depth = [0, 1, 2][i % 3]
        spec = gen_dup_lattice(run.rng, depth, thin_kickers=not STATE["f29_known"] and i % 2 == 1)
        res = run.rng.choice([0.05, 0.1, 0.2, 0.3])
        if _thin_kicker(spec):
            run.count("segment_with_thin_kicker" + ("_tracked" if not _thick_kicker(spec) else "_split_only"))
        run.count("segment_homonyms_" + ("flat" if depth == 0 else "nested"))
        if any("ref" in c for c in spec["es"]):
            run.count("segment_reused_instance")
        run.add_case(["dup_segment", spec, res], has_homonyms(spec))
        fails = oracle_dup_segment(spec, res, beams)
        run.count("segment_homonyms_tracked" if not _thick_kicker(spec) else "segment_homonyms_split_only")
        if fails and not bad:
            small = shrink_dup(spec, res, beams)
            bad.append({"kind": "dup_segment", "lattice": small, "res": res, "failures": oracle_dup_segment(small, res, beams) or fails,
                        "what": "Segment.split of a segment whose elements share names"})
    return bad


# ---------------------------------------------------------------- EVERY class, incl. the "switched off but not trivial" corners
PREAMBLE_CLS = """From Coq Require Import List String ZArith QArith.
From Cheetah Require Import Lattice.Split Lattice.SplitClasses.
Import ListNotations. Open Scope Q_scope. Open Scope string_scope."""
CLS_RES = [0.03, 0.07, 0.15, 3.0]          # (length pool of realgen) / these: never within an ulp of an integer; 3.0: coarser than any length
BEND_EXTRAS = [{}, {"tilt": 0.3}, {"gap": 0.02, "fringe_integral": 0.5, "fringe_at": "both"},
               {"gap": 0.03, "fringe_integral": 0.4, "gap_exit": 0.01, "fringe_integral_exit": 0.3, "fringe_at": "entrance"}]


def class_corners(rng):
    """element specs (realgen format) in which the parameter that `is_active` looks at is ZERO while the element still acts on the
    beam (or has other parameters set), plus vectorised mixes of zero and non-zero strengths; for every class, both tracking methods"""
    out = []

    def add(label, cls, **kw):
        e = realgen.gen_element(rng, cls=cls, name="c")
        e["kw"].update(kw)
        out.append((label, e))
    for cls, e in (("Dipole", "dipole_e"), ("RBend", "rbend_e")):
        for method in ("cheetah", "bmadx"):
            ex = dict(rng.choice(BEND_EXTRAS))
            add("bend_angle0_k1", cls, angle=0.0, k1=rng.choice([3.0, -2.0, 0.5, 10.0]), length=rng.choice([0.25, 0.5, 1.0]), tracking_method=method,
                **{e + "1": rng.choice([0.0, 0.05, -0.1]), e + "2": rng.choice([0.0, 0.05, -0.1])}, **ex)
            add("bend_angle0_k1_plain", cls, angle=0.0, k1=rng.choice([3.0, -2.0]), length=0.5, tracking_method=method, tilt=0.0,
                **{e + "1": 0.0, e + "2": 0.0})
            add("bend_angle0_k10", cls, angle=0.0, k1=0.0, length=rng.choice([0.25, 1.0]), tracking_method=method,
                **{e + "1": rng.choice([0.0, 0.05]), e + "2": rng.choice([0.0, -0.1])})
            add("bend_on", cls, angle=rng.choice([0.1, -0.3]), k1=rng.choice([0.0, 0.5]), tracking_method=method)
        add("bend_vec_angle0_k1mix", cls, angle=[0.0, 0.0], k1=[0.0, 2.0], length=0.5, tracking_method="cheetah", tilt=0.0)
        add("bend_vec_anglemix", cls, angle=[0.0, 0.1], k1=[1.0, 1.0], length=0.5, tracking_method="cheetah", tilt=0.0)
    for method in ("cheetah", "bmadx"):
        add("quad_k10", "Quadrupole", k1=0.0, length=rng.choice([0.25, 0.5, 1.0]), tracking_method=method)
        add("quad_vec_k1mix", "Quadrupole", k1=[0.0, 2.0], length=0.5, tracking_method=method, tilt=0.0, misalignment=[0.0, 0.0])
        add("drift", "Drift", length=rng.choice([0.25, 0.5, 1.0]), tracking_method=method)
    add("solenoid_k0", "Solenoid", k=0.0, length=rng.choice([0.25, 1.0]), misalignment=rng.choice(realgen.MIS))
    add("solenoid_vec_kmix", "Solenoid", k=[0.0, 1.0], length=0.5, misalignment=[0.0, 0.0])
    add("cavity_v0", "Cavity", voltage=0.0, phase=rng.choice([0.0, 30.0]), length=rng.choice([0.5, 1.0]))
    add("cavity_vec_vmix", "Cavity", voltage=[0.0, 1e6], phase=0.0, length=1.0)
    # ... and switched ON, for the classes that are not sliced today: should one of them start slicing, its pieces are tracked live
    add("cavity_on", "Cavity", voltage=rng.choice([1e6, 5e6, -1e6]), phase=rng.choice([0.0, 30.0, -20.0]), length=rng.choice([0.5, 1.0]))
    add("solenoid_on", "Solenoid", k=rng.choice([0.5, -1.0, 3.0]), length=rng.choice([0.25, 1.0]), misalignment=rng.choice(realgen.MIS))
    add("tdc_on", "TransverseDeflectingCavity", voltage=rng.choice([1e5, 1e6]), phase=rng.choice([0.0, 45.0]), length=0.5)
    add("custom_map", "CustomTransferMap")
    add("space_charge", "SpaceChargeKick")
    add("tdc_v0", "TransverseDeflectingCavity", voltage=0.0, length=0.5)
    add("tdc_vec_vmix", "TransverseDeflectingCavity", voltage=[0.0, 1e5], length=0.5, tilt=0.0, misalignment=[0.0, 0.0])
    for cls in ("HorizontalCorrector", "VerticalCorrector"):
        add("corrector_angle0", cls, angle=0.0, length=rng.choice([0.1, 0.5, 1.0]))
        add("corrector_vec_anglemix", cls, angle=[0.0, 1e-3], length=0.5)
        add("corrector_thin_angle0", cls, angle=0.0, length=0.0)
    add("undulator_off", "Undulator", is_active=False, length=0.5)
    add("undulator_on", "Undulator", is_active=True, length=0.5)
    add("screen_off", "Screen", is_active=False)
    add("bpm_off", "BPM", is_active=False)
    add("aperture_off", "Aperture", is_active=False)
    return out


def _maxlen(x):
    return float(torch.as_tensor(x.length).max())


def _thick_live_corrector(e):
    return type(e).__name__.endswith("Corrector") and bool(torch.any(e.angle != 0)) and bool(torch.any(e.length != 0))


def oracle_any(spec, res, beams):
    """The property on WHATEVER split() returns, for an element of any class: the piece lengths add up, the pieces keep the dtype,
    tracking the pieces in turn equals tracking the element (both beam types; Bmad-X: particle beam).  Returns (failures, observation
    for the class-level correspondence or None)."""
    import cheetah
    bad = []
    try:
        e = realgen.build(spec)
    except Exception as ex:
        return [], None                                  # the code rejects these parameters: nothing to split
    try:
        ps = e.split(torch.tensor(res, dtype=DT))
    except Exception as ex:
        return [f"{spec['cls']}.split raised {type(ex).__name__}: {ex}"[:300]], None
    if not isinstance(ps, list) or not all(isinstance(p, torch.nn.Module) and hasattr(p, "track") for p in ps):
        return [f"{spec['cls']}.split did not return a list of elements"], None
    obs = {"cls": spec["cls"], "L": _maxlen(e), "res": res, "self": len(ps) == 1 and ps[0] is e,
           "pieces": [[type(p).__name__, _maxlen(p)] for p in ps]}
    L = torch.as_tensor(e.length)
    tot = sum((torch.as_tensor(p.length) for p in ps), torch.zeros_like(L))
    try:
        if not torch.allclose(tot.expand_as(L) if tot.dim() <= L.dim() else tot, L, rtol=1e-12, atol=1e-15):
            bad.append(f"piece lengths add up to {tot.tolist()}, the length is {L.tolist()}")
    except Exception:
        bad.append(f"piece lengths {tot.tolist()} cannot be compared with the length {L.tolist()}")
    if any(torch.as_tensor(p.length).dtype != L.dtype for p in ps):
        bad.append("a piece does not keep the dtype of the element")
    if _thick_live_corrector(e) and not obs["self"]:
        return bad, obs                                  # drift-then-kick: pieces kick earlier; only the angles add up (oracle_case)
    bmadx = getattr(e, "tracking_method", "") == "bmadx"
    for bname, b in beams:
        if bmadx and bname != "particle":
            continue
        try:
            whole = e.track(b)
        except Exception:
            continue                                     # the element itself cannot track this beam: nothing to compare with
        if has_nan(whole):
            continue
        try:
            out = b
            for p in ps:
                out = p.track(out)
        except Exception as ex:
            bad.append(f"tracking the {len(ps)} piece(s) raised {type(ex).__name__}: {ex}"[:300])
            continue
        d = realgen.beams_close(out, whole, rtol=1e-9, atol=1e-13)
        if d:
            bad.append(f"tracking the {len(ps)} piece(s) {sorted({type(p).__name__ for p in ps})} in turn differs from tracking the "
                       f"{spec['cls']} ({bname} beam): {d}")
    return bad, obs


def coq_cls_case(o):
    pcs = coq_list([f'("{c}", {qlit(l)})' for c, l in o["pieces"]])
    return f'mkc16c "{o["cls"]}" {qlit(o["L"])} {qlit(o["res"])} 0 {"true" if o["self"] else "false"} {pcs}'


def oracle_classes(run, beams, n_random):
    """every class of realgen.CLASSES: the switched-off corners plus random parameter draws, each split at a random resolution.
    Returns (failures for the verdict, Coq terms, the observations behind the terms)."""
    bad, terms, seen = [], [], []
    todo = class_corners(run.rng)
    for cls in realgen.CLASSES:
        for _ in range(n_random):
            todo.append(("random", realgen.gen_element(run.rng, cls=cls, name="r")))
    for label, spec in todo:
        res = run.rng.choice(CLS_RES if label == "random" else CLS_RES[:3])       # the corners are always split finely
        fails, obs = oracle_any(spec, res, beams)
        run.count("anyclass_" + spec["cls"])
        if label != "random":
            run.count("corner_" + label)
        run.add_case(["class_case", spec, res], obs is not None and len(obs["pieces"]) > 1)
        if fails and not bad:
            bad.append({"kind": "class_case", "spec": spec, "res": res, "corner": label, "failures": fails,
                        "pieces": obs and obs["pieces"], "what": f"split() of a {spec['cls']} ({label})"})
        if obs is None:
            continue
        ratio = Fraction(obs["L"]) / Fraction(res)
        if obs["L"] != 0.0 and abs(ratio - round(ratio)) <= Fraction(1, 2 ** 50) * max(1, abs(ratio)):
            continue                                     # float ceil vs exact ceil: unspecified
        if STATE["f29_known"] and spec["cls"].endswith("Corrector") and obs["L"] == 0.0:
            continue
        terms.append(coq_cls_case(obs))
        seen.append({"spec": spec, "res": res, "observed": obs})
    return bad, terms, seen


# ---------------------------------------------------------------- split after a HISTORY of assignments through the public setters
# A freshly built element has all its buffers in one dtype.  A magnet setting written later (`corr.angle = torch.tensor(2e-3)`: the
# default float32 into a float64 element; a float64 value from numpy into a float32 element; a vector of settings) replaces only THAT
# buffer.  C16's dtype clause is about the element: every piece has the dtype of the element's `length`.
HIST_KINDS = ["same", "other", "pyfloat", "vector"]
F64, F32 = "float64", "float32"


def _dt(name):
    return torch.float64 if name == F64 else torch.float32


def history_attrs(spec):
    """assignable tensor attributes of an element spec: its tensor-valued constructor keywords"""
    return [k for k, v in spec["kw"].items() if k in realgen.TENSOR_KW and v is not None]


def gen_history_cases(rng, n_random):
    """for every class: one single-assignment history per (attribute, kind) -- kinds: a tensor of the element's dtype, of the OTHER float
    dtype, a Python float, a vectorised value -- for one of the two element dtypes, plus random histories of 2-4 assignments"""
    out = []
    for cls in realgen.CLASSES:
        def fresh():
            """a random spec of the class carrying EVERY tensor keyword the generator ever gives it (gap_exit ... are optional)"""
            sp = realgen.gen_element(rng, cls=cls, name="h", length_pool=[0.25, 0.5, 1.0])
            for _ in range(6):
                for kk, vv in realgen.gen_element(rng, cls=cls, length_pool=[0.25, 0.5, 1.0])["kw"].items():
                    if kk in realgen.TENSOR_KW:
                        sp["kw"].setdefault(kk, vv)
            return sp
        attrs = history_attrs(fresh())

        def step(spec, a, kind):
            v = realgen.gen_element(rng, cls=cls, length_pool=[0.1, 0.25, 0.5, 1.0, 2.0])["kw"].get(a)
            if v is None:
                v = spec["kw"].get(a, 0.0)
            if kind == "vector" and a != "predefined_transfer_map":
                v = [v, [x * 1.25 for x in v]] if isinstance(v, list) else [v, round(v * 1.25 + (0.01 if a != "frequency" else 0.0), 6)]
            if kind == "pyfloat" and isinstance(v, list):
                kind = "other"
            return {"attr": a, "kind": kind, "value": v}
        k = 0
        for a in attrs:
            for kind in HIST_KINDS:
                spec = fresh()
                k += 1
                out.append({"spec": spec, "dtype": [F64, F32][k % 2], "history": [step(spec, a, kind)], "res": rng.choice(CLS_RES[:3])})
        for _ in range(n_random if attrs else 0):
            spec = fresh()
            hist = [step(spec, rng.choice(attrs), rng.choice(HIST_KINDS)) for _ in range(rng.randrange(2, 5))]
            out.append({"spec": spec, "dtype": rng.choice([F64, F32]), "history": hist, "res": rng.choice(CLS_RES[:3])})
    return out


def apply_history(e, case):
    """perform the assignments on the live element; an assignment the setter rejects is an observation (-> 'rejected'), not a failure"""
    D = _dt(case["dtype"])
    other = torch.float32 if D == torch.float64 else torch.float64
    log = []
    for st in case["history"]:
        v = st["value"] if st["kind"] == "pyfloat" else torch.tensor(st["value"], dtype=other if st["kind"] == "other" else D)
        try:
            setattr(e, st["attr"], v)
            log.append("assigned")
        except Exception as ex:
            log.append(f"rejected: {type(ex).__name__}")
    return log


def _cols(t, cols):
    return t[..., cols] if cols is not None else t


def oracle_history(case, beams_by_dtype):
    """build -> assign (history) -> split: every float buffer of every piece has the dtype of the element's length, the lengths add up
    at that dtype's round-off, tracking the pieces in turn works whenever tracking the element works and gives the same beam (a
    corrector with a length is drift-then-kick: only the momenta are compared).  Returns (failures, info)."""
    bad = []
    spec = case["spec"]
    try:
        e = realgen.build(spec, dtype=_dt(case["dtype"]))
    except Exception:
        return [], {"skipped": "constructor rejects"}
    log = apply_history(e, case)
    L = torch.as_tensor(e.length)
    D = L.dtype
    info = {"assignments": log, "length_dtype": str(D)}
    if not D.is_floating_point:
        return [], info
    eps = torch.finfo(D).eps
    try:
        ps = e.split(torch.tensor(case["res"], dtype=D))
    except Exception as ex:
        info["split_raised"] = f"{type(ex).__name__}: {ex}"[:200]
        ps = None
    tracked = {}
    for bname, b in beams_by_dtype[str(D)]:
        if getattr(e, "tracking_method", "") == "bmadx" and bname != "particle":
            continue
        try:
            whole = e.track(b)
            if not has_nan(whole):
                tracked[bname] = (b, whole)
        except Exception:
            pass
    info["element_tracks"] = sorted(tracked)
    if ps is None:
        if tracked:
            bad.append(f"{spec['cls']}.split raised {info['split_raised']} although the element tracks a beam in this state")
        return bad, info
    info["n_pieces"] = len(ps)
    for i, p in enumerate(ps):
        if p is e:
            continue
        wrong = [(k, str(v.dtype)) for k, v in p.named_buffers() if v.is_floating_point() and v.dtype != D]
        if wrong or torch.as_tensor(p.length).dtype != D:
            bad.append(f"piece {i} of {len(ps)}: buffers {wrong or [('length', str(torch.as_tensor(p.length).dtype))]} do not have the dtype of "
                       f"the element's length ({D})")
            break
    tot = sum((torch.as_tensor(p.length).double() for p in ps), torch.zeros_like(L, dtype=torch.float64))
    try:
        if not bool(torch.all((tot - L.double()).abs() <= 2 * max(1, len(ps)) * eps * L.double().abs())):
            bad.append(f"piece lengths add up to {tot.tolist()}, the length is {L.tolist()} ({D})")
    except Exception:
        bad.append(f"piece lengths {tot.tolist()} cannot be compared with the length {L.tolist()}")
    thick = _thick_live_corrector(e) and not (len(ps) == 1 and ps[0] is e)
    cols = [1, 3, 5] if thick else None
    # round-off: that of the LOWEST float precision among the element's buffers (split() divides a float32 angle in float32 before the
    # piece casts it to the length's float64)
    mixed = any(v.is_floating_point() and v.dtype != torch.float64 for v in e.buffers())
    rtol = 2e-3 if D != torch.float64 else (1e-5 if mixed else 1e-9)
    for bname, (b, whole) in tracked.items():
        try:
            out = b
            for p in ps:
                out = p.track(out)
        except Exception as ex:
            bad.append(f"tracking the {len(ps)} piece(s) in turn raised {type(ex).__name__}: {ex} -- the element itself tracks this {bname} beam"[:300])
            continue
        bo = dict(out.named_buffers())
        for k, x in whole.named_buffers():
            y = bo.get(k)
            if y is None or y.dtype != x.dtype:
                bad.append(f"{bname} beam behind the pieces: buffer {k} is {None if y is None else y.dtype}, behind the element {x.dtype}")
                break
            if thick and k not in ("particles", "_mu"):
                continue
            try:
                xx, yy = torch.broadcast_tensors(_cols(x, cols if k in ("particles", "_mu") else None), _cols(y, cols if k in ("particles", "_mu") else None))
            except Exception:
                bad.append(f"{bname} beam behind the pieces: buffer {k} has shape {tuple(y.shape)}, behind the element {tuple(x.shape)}")
                break
            if xx.numel() and not float((xx - yy).abs().max()) <= rtol * max(1e-30, float(xx.abs().max())) + 1e-15:
                bad.append(f"tracking the {len(ps)} piece(s) in turn differs from tracking the {spec['cls']} ({bname} beam, {k}: "
                           f"{float((xx - yy).abs().max())})")
                break
    return bad, info


def history_beams(rng):
    pb, mb = realgen.gen_particle_beam(rng, n=4, energy=2e7), realgen.gen_parameter_beam(rng, energy=1e8)
    return {str(d): [("particle", realgen.build_beam(pb, dtype=d)), ("parameter", realgen.build_beam(mb, dtype=d))]
            for d in (torch.float64, torch.float32)}, {"particle": pb, "parameter": mb}


def oracle_histories(run, n_random):
    bad = []
    beams, beam_specs = history_beams(run.rng)
    for case in gen_history_cases(run.rng, n_random):
        fails, info = oracle_history(case, beams)
        run.add_case(["history", case], info.get("n_pieces", 0) > 1)
        run.count("history_" + case["spec"]["cls"])
        for st, lg in zip(case["history"], info.get("assignments", [])):
            run.count("history_assign_" + st["kind"] + ("_rejected" if lg != "assigned" else ""))
        run.count("history_pieces_tracked_vs_whole", len(info.get("element_tracks", [])))
        if "split_raised" in info:
            run.count("history_split_raised_element_unusable")
        if info.get("length_dtype") and info["length_dtype"] != str(_dt(case["dtype"])):
            run.count("history_length_dtype_changed")
        if fails and not bad:
            # shrink: drop assignments while it keeps failing
            small = dict(case)
            changed = True
            while changed and len(small["history"]) > 1:
                changed = False
                for i in range(len(small["history"])):
                    t = dict(small, history=small["history"][:i] + small["history"][i + 1:])
                    if oracle_history(t, beams)[0]:
                        small, changed = t, True
                        break
            f2, i2 = oracle_history(small, beams)
            bad.append({"kind": "history_case", "case": small, "beams": beam_specs, "failures": f2 or fails, "observed": i2,
                        "what": f"split() of a {case['spec']['cls']} after assignments through its public setters"})
    return bad


def replay_known(run, beams):
    """replays the stored input of every listed finding.  known + still failing -> KNOWN-FINDING; known + passing -> note (the
    status is stale); fixed + failing again -> VIOLATION (regression) with that input.  Returns the set of ids that regressed."""
    regressed = set()
    for f in common.load_known_findings(PID):
        c = (f.get("replay") or {}).get("case")
        if not c:
            continue
        exc = None
        try:
            pieces, e, ps = observe(c)
            known, bad = oracle_case(c, run.rng, beams)
        except Exception as ex:
            pieces, ps, known, bad, exc = [], [], [], [], f"{type(ex).__name__}: {ex}"[:300]
        if f.get("status") == "known":
            if f29_signature(c, len(ps)) and not exc:
                run.known(f["what"])
            else:
                run.cov["known_findings_not_reproduced"].append(
                    f"{f['id']}: the stored input now splits into {len(ps)} piece(s) {pieces}" + ("" if bad or exc else
                    ": the property holds on it, the code behaves like the repaired split (model split_fixed); the status of "
                    f"{f['id']} is stale (flip it to fixed)"))
                if not bad and not exc:
                    run.notes.append(f"{f['id']} is listed known but the code keeps the thin corrector (behaves like the repaired split)")
        elif f.get("status") == "fixed":
            run.cov.setdefault("fixed_findings_replayed", []).append(f["id"])
            if (bad or exc) and f["id"] not in regressed:
                regressed.add(f["id"])
                run.violation({"kind": "regression", "finding": f["id"], "what": f"fixed finding {f['id']} fails again on its stored input: " + f["what"],
                               "case": c, "pieces": pieces, "failures": bad, "exception": exc,
                               "relation": "the pieces of a corrector keep its deflection: the angles of split(resolution) add up to the angle "
                                           "(a zero-length corrector is returned as it is)"})
    return regressed


def main(tier, replay=None):
    run = common.Run(PID, tier)
    common.setup_python_env()
    thorough = tier == "thorough"
    run.cov["rule"] = ("Drift / Quadrupole (both tracking methods, tilt, misalignment, num_steps) / Horizontal- and VerticalCorrector with sampled "
                       "(length, resolution) pairs: generic, resolution >= length, exactly dividing, non-dividing, ratio within a few ulps of an "
                       "integer, length 0, very fine resolution; piece count and float64 piece lengths / angles compared (as exact rationals) with "
                       "vm_compute of the rational model (split / split_fixed by the status of F29); plus sums, bounds, dtype, attributes, sequential tracking of the pieces vs the whole on "
                       "both beam types, unsplittable classes, segments (uniquely named; and segments in which different elements / sub-segments "
                       "share a name, flat and nested, with reused instances: split == concatenation of each occurrence's own split, lengths add "
                       "up, tracking the pieces == tracking the segment), vectorised lengths; EVERY class (both tracking methods) with the parameter "
                       "is_active looks at set to zero while the element still acts (Dipole/RBend angle 0 with k1, edge angles, fringe fields; Quadrupole k1 0; "
                       "Solenoid k 0; Cavity / TDC voltage 0; correctors angle 0; vectorised mixes of zero and non-zero strengths) and random parameters: "
                       "whatever split() returns is tracked piece by piece vs the element (both beam types), and its classes / counts are compared with "
                       "the model by vm_compute (Lattice/SplitClasses.v). HISTORIES: every class, every tensor attribute re-assigned after construction "
                       "(float64 and float32 elements) with a tensor of the same dtype, of the OTHER float dtype, a Python float, a vectorised value, "
                       "singly and in random sequences of 2-4, then split: every float buffer of every piece has the dtype of the element's length, the "
                       "lengths add up at that dtype's round-off, tracking the pieces in turn works whenever the element tracks and gives the same beam. Non-trivial = more than one piece; distinct by "
                       "case content.")
    # finding F29: while it is listed `known` the faithful model is `split` (the code before the repair); once it is flipped to
    # `fixed` the faithful model is `split_fixed` and a thin corrector that loses its angle is a regression
    STATE["f29_known"] = f29_known = finding_status("F29") == "known"
    if replay:
        return do_replay(run, replay)
    proof_ok = run.proof_stage()
    import translate_stage
    tr_diag = translate_stage.translator_obligation_diag(run, parts=("split",))
    if tr_diag["status"] != "ok":
        run.notes.append("translator obligation (split): " + json.dumps(translate_stage.replay_fields_diag(tr_diag))[:600])
    # second tie: the linear-optics core is re-translated from REPO's source and proved equal to Optics/Maps.v (Gen/MapsGenEquiv.v)
    import translate_stage
    tr = translate_stage.translator_obligation(run)
    if tr["status"] != "ok":
        run.notes.append("translator obligation: " + json.dumps(translate_stage.replay_fields(tr))[:600])
    if not proof_ok:
        run.notes.append(run.proof_problem)
    run.cov["split_model"] = ("split (code before the repair of F29: a zero-length corrector splits into no piece; C16_corrector_split_angle_refuted)"
                              if f29_known else "split_fixed (code after the repair of F29: a corrector with num_splits < 1 is returned as it is)")

    n_cases = 2500 if thorough else 400
    beams = [("particle", realgen.build_beam(realgen.gen_particle_beam(run.rng, n=4, energy=2e7))),
             ("parameter", realgen.build_beam(realgen.gen_parameter_beam(run.rng, energy=1e8)))]
    cases, terms, terms_kind, impl_bad, unspecified = [], [], [], [], 0
    for _ in range(n_cases):
        c = gen_case(run.rng)
        pieces, e, ps = observe(c)
        run.count("cls_" + c["cls"])
        run.count("mode_" + c["mode"])
        if c["cls"].endswith("Corrector") and c["L"] == 0.0 and c["angle"] != 0.0:
            run.count("thin_corrector_with_angle")
            if len(ps) == 1 and ps[0] is e:
                run.count("thin_corrector_with_angle_kept_as_it_is")
        run.add_case(c, len(ps) > 1)
        nx = exact_n(c["L"], c["res"], c["cls"])
        if len(ps) != nx and c["L"] != 0.0:          # (0 / res is exactly 0 in floats too: nothing unspecified at length 0)
            ratio = Fraction(c["L"]) / Fraction(c["res"])
            if abs(ratio - round(ratio)) <= Fraction(1, 2 ** 50) * max(1, abs(ratio)):
                unspecified += 1          # float ceil of the rounded quotient vs exact ceil: within an ulp of an integer
                run.count("unspecified_ratio_within_ulp_of_integer")
                continue
        known, bad = oracle_case(c, run.rng, beams)
        for k in known:
            run.known(k)
            run.count("known_finding_hits")
        if bad:
            impl_bad.append((c, bad))
        cases.append(c)
        terms.append(coq_case(c, pieces))
        terms_kind.append(coq_case_kind(c, pieces))
    if cases:
        run.sample({"case": cases[0], "pieces": observe(cases[0])[0]})
    if f29_known:
        failing = common.run_shards(PID, "split", PREAMBLE, terms, "c16_check")
    else:
        failing = common.run_shards(PID, "split", PREAMBLE, terms_kind, "c16_check_fixed")
    run.cov["traces_validated_against_impl"] += len(cases)
    # cases that disagree with the transcription selected by the status of F29: evaluate the OTHER transcription on them.
    # F29 known + the code equals split_fixed there -> the finding no longer reproduces (note, no alarm: the lead flips the status);
    # F29 fixed + the code equals the old split     -> the repaired defect is back: stays broken, the oracle has the input.
    thin_fail = [k for k in failing if cases[k]["cls"].endswith("Corrector") and cases[k]["L"] == 0.0]
    if thin_fail:
        other = "c16_check_fixed" if f29_known else "c16_check_old"
        f2 = common.run_shards(PID, "split_other", PREAMBLE, [terms_kind[k] for k in thin_fail], other)
        if not f2:
            run.cov["other_split_model_matches"] = f"{other} holds on all {len(thin_fail)} disagreeing thin-corrector cases"
            if f29_known:
                run.cov["known_findings_not_reproduced"].append(
                    f"F29: split() of a zero-length corrector equals the repaired model split_fixed on all {len(thin_fail)} disagreeing cases; "
                    "the status of F29 is stale (flip it to fixed)")
                run.notes.append("F29 is listed known but the code computes the repaired split (thin correctors are kept)")
                failing = [k for k in failing if k not in thin_fail]
            else:
                run.notes.append("F29 is listed fixed but split() of a zero-length corrector equals the old model `split`: the repaired defect is back")
    misc_bad = oracle_misc(run)
    misc_bad += oracle_dup(run, beams, 150 if thorough else 15)
    # every class (switched-off corners included): the property on whatever split() returns + which classes slice, vs the model
    cls_bad, cls_terms, cls_seen = oracle_classes(run, beams, 12 if thorough else 2)
    misc_bad = cls_bad + misc_bad            # an input on which the pieces ACT differently comes first
    # split after a history of assignments (same dtype / the other float dtype / Python float / vectorised), every class
    misc_bad = misc_bad + oracle_histories(run, 20 if thorough else 3)
    failing_cls = common.run_shards(PID, "classes", PREAMBLE_CLS, cls_terms, "c16_class_check") if cls_terms else []
    run.cov["traces_validated_against_impl"] += len(cls_terms)
    regressed = replay_known(run, beams)
    if "F29" in regressed:      # explained by the regression just reported (with the stored input)
        impl_bad = [(c, bad) for c, bad in impl_bad if not f29_signature(c, len(observe(c)[2]))]
        failing = [k for k in failing if not (cases[k]["cls"].endswith("Corrector") and cases[k]["L"] == 0.0 and len(observe(cases[k])[2]) == 0)]
        misc_bad = [m for m in misc_bad if not (m.get("kind") == "dup_segment" and _thin_kicker(m["lattice"]))
                    and not (m.get("kind") == "vectorised" and "thin corrector" in m.get("what", ""))]
    run.cov["tested_only"] = ["sequential tracking of the pieces vs the whole on the real classes (float64, rtol 1e-9), incl. Bmad-X tracking (no Coq model of Bmad-X here)",
                              "dtype preservation, attribute preservation, unsplittable classes return [self], Segment.split concatenation (incl. segments with "
                              "homonymous elements / sub-segments and reused instances, pieces tracked in turn vs Segment.track), vectorised lengths"]

    if regressed and not (impl_bad or misc_bad or failing) and proof_ok:
        pass                      # the regression (with its stored input) has been reported by replay_known
    elif impl_bad:
        c, bad = impl_bad[0]
        run.violation({"kind": "split_case", "case": c, "failures": bad, "relation": "pieces add up to the length, none longer than the resolution, "
                       "same dtype/attributes, tracking the pieces in turn equals tracking the whole, corrector angles add up"})
    elif misc_bad:
        # "a class the model calls unsplittable no longer returns [self]" alone is a disagreement with the model, not yet an input on
        # which the property fails (the pieces may well act like the element): reported with an input only if one was found
        acting = [m for m in misc_bad if m.get("kind") != "unsplittable"]
        if acting:
            run.violation(dict(acting[0], relation="split of unsplittable / segment / vectorised / float32 elements: lengths add up, "
                               "tracking the pieces in turn equals tracking the element"))
        else:
            run.violation(dict(misc_bad[0], broken="Lattice/Split.v: this class is modelled as returning [self]; split() now returns something else, "
                               "and no input was found on which the pieces act differently from the element"), no_input=True)
    elif failing:
        c = cases[failing[0]]
        run.violation({"kind": "correspondence", "broken": "rational model Lattice/Split.v (c16_check) disagrees with split() on this case",
                       "case": c, "pieces": observe(c)[0], "model_count": exact_n(c["L"], c["res"], c["cls"]),
                       "model": run.cov["split_model"]}, no_input=True)
    elif failing_cls:
        o = cls_seen[failing_cls[0]]
        run.violation({"kind": "class_correspondence", "broken": "Lattice/SplitClasses.v (c16_class_check): split() of this element returns other "
                       "classes / counts than the model (which classes slice, into what); the tracking oracle found no input on which the "
                       "pieces act differently", "spec": o["spec"], "res": o["res"], "observed": o["observed"]}, no_input=True)
    elif tr["status"] != "ok":
        # the source no longer translates to the proved model; none of this run's oracles found a failing input
        run.violation(translate_stage.replay_fields(tr), no_input=True)
    elif tr_diag["status"] != "ok":
        # the source no longer translates to the proved model; none of this run's oracles found a failing input
        run.violation(translate_stage.replay_fields_diag(tr_diag), no_input=True)
    elif not proof_ok:
        run.violation({"kind": "proof", "broken": run.proof_problem}, no_input=True)
    return run.finish("proof")


def do_replay(run, path):
    r = json.loads(open(path).read())
    if "case" in r and r.get("kind") != "history_case":
        beams = [("particle", realgen.build_beam(realgen.gen_particle_beam(run.rng, n=4, energy=2e7))),
                 ("parameter", realgen.build_beam(realgen.gen_parameter_beam(run.rng, energy=1e8)))]
        known, bad = oracle_case(r["case"], run.rng, beams)
        print("replay:", ("property holds on this input" if not known else f"the property fails on this input, matching the listed known finding: {known[0]}")
              if not bad else f"property FAILS on this input: {bad}")
        return 1 if bad else 0
    if r.get("kind") == "dup_segment":
        beams = [("particle", realgen.build_beam(realgen.gen_particle_beam(run.rng, n=4, energy=2e7))),
                 ("parameter", realgen.build_beam(realgen.gen_parameter_beam(run.rng, energy=1e8)))]
        bad = oracle_dup_segment(r["lattice"], r["res"], beams)
        print("replay:", "property holds on this input" if not bad else f"property FAILS on this input: {bad}")
        return 1 if bad else 0
    if r.get("kind") == "history_case":
        beams = {str(d): [(k, realgen.build_beam(b, dtype=d)) for k, b in r["beams"].items()] for d in (torch.float64, torch.float32)}
        bad, info = oracle_history(r["case"], beams)
        print("replay:", "property holds on this input" if not bad else f"property FAILS on this input: {bad}", info)
        return 1 if bad else 0
    if r.get("kind") == "class_case":
        beams = [("particle", realgen.build_beam(realgen.gen_particle_beam(run.rng, n=4, energy=2e7))),
                 ("parameter", realgen.build_beam(realgen.gen_parameter_beam(run.rng, energy=1e8)))]
        bad, _ = oracle_any(r["spec"], r["res"], beams)
        print("replay:", "property holds on this input" if not bad else f"property FAILS on this input: {bad}")
        return 1 if bad else 0
    print("replay: re-running the miscellaneous oracle")
    bad = oracle_misc(run)
    print("replay:", "property holds" if not bad else f"property FAILS: {bad[0]}")
    return 1 if bad else 0
